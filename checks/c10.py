"""C10 -- code generation is deterministic.

Role A: MCLinker.tla (OutcomeCorrect / RootsCorrect hold for every link order, i.e.
the compile result that feeds generation is order-free; negative control = pinned
linker).  Role B: the Linker families are generated under forced link orders and
natural map order; the repository's own test IDL and seeded big multi-file programs
(maps with >= 9 entries, constants of map/set/struct type, service inheritance across
files) are generated repeatedly in-process and in two further processes.  Role C:
C10Trace.tla carries the first outcome/digests of each input and requires every
later run to reproduce them."""
import json, os, random
import vlib
import c07


def canary(row, rng):
    if row.get("op") != "c10" or not row["ok"] or not row["files"]:
        return None
    k = sorted(row["files"])[0]
    row["files"][k] = "0" * 64
    return row


def run(ctx):
    drv = vlib.build_harness(ctx)
    rng = random.Random(ctx.seed)
    corpus = os.path.join(vlib.REPO, "gen", "internal", "tests", "thrift")
    if ctx.replay:
        raise vlib.Inconclusive("replay of a determinism violation: re-run the check; the replay file holds the sources and both digests")
    c07.linker_models(ctx, ["types", "mixed", "modules"])
    cases = c07.gen_programs(ctx, ["types", "consts", "mixed", "modules", "modsvcs", "lists", "aliasitem"], 40 if ctx.quick() else 900, rng)
    cf = os.path.join(ctx.dir("cases"), "cases.ndjson")
    vlib.write_ndjson(cf, cases)
    nbig, runs = (3, 3) if ctx.quick() else (40, 6)
    procs = ["p0", "p1", "p2"] if ctx.quick() else ["p0", "p1", "p2", "p3", "p4", "p5"]
    rows = []
    jobs = []
    import subprocess
    for p in procs:
        of = os.path.join(ctx.dir("obs"), "obs_%s.ndjson" % p)
        inf = os.path.join(ctx.dir("obs"), "inflight_%s.json" % p)
        cmd = [drv, "c10", "-cases", cf, "-corpus", corpus, "-big", str(nbig), "-runs", str(runs), "-proc", p,
               "-orders", "6" if ctx.quick() else "24", "-seed", str(ctx.seed), "-out", of, "-inflight", inf]
        jobs.append((subprocess.Popen(cmd, stdout=subprocess.PIPE, stderr=subprocess.STDOUT), of, inf))
    for pr, of, inf in jobs:
        try:
            out, _ = pr.communicate(timeout=3000)
        except subprocess.TimeoutExpired:
            pr.kill()
            out = b"timeout"
        if pr.returncode != 0:
            case = json.load(open(inf)) if os.path.exists(inf) else None
            if case is None:
                raise vlib.Inconclusive("c10 driver failed: " + out.decode("utf-8", "replace")[-2000:])
            vlib.report_failure(ctx, case, {"failed": ["process-died"], "output": out.decode("utf-8", "replace")[:700]}, case=case)
        if os.path.exists(of):
            rows += vlib.read_ndjson(of)
    # the history must see all runs of an input in one trace: group by input, keep groups in one shard
    rows.sort(key=lambda r: (r["input"], r["proc"], r["id"]))
    ctx.evals = len(rows)
    shards, cur, last = [], [], None
    for r in rows:
        if len(cur) >= 1500 and r["input"] != last:
            shards.append(cur)
            cur = []
        cur.append(r)
        last = r["input"]
    if cur:
        shards.append(cur)
    for sh in shards:
        bad, _ = vlib.validate_trace(ctx, "C10Trace", sh, canary=canary, shard=10 ** 9, timeout=3000)
        for row, why in bad:
            obs = dict(row)
            obs["_failed"] = sorted(why)
            obs["_class"] = "known-default-cast" if why == ["KNOWN-CLASS-default-cast-while-linking"] else "other"
            vlib.report_failure(ctx, obs, {"failed": why, "id": row.get("id"), "input": row["input"]}, case={"input": row["input"]})
    ctx.cov["distinct_nontrivial"] = vlib.distinct_count([r for r in rows if r["ok"]], lambda r: r["input"])
    ctx.cov["inputs"] = vlib.distinct_count(rows, lambda r: r["input"])
    ctx.cov["runs_per_input_min"] = min([sum(1 for r in rows if r["input"] == i) for i in {r["input"] for r in rows}] or [0])
    ctx.cov["processes"] = len(procs)
    ctx.cov["generated_ok"] = sum(1 for r in rows if r["ok"])
    for r in [x for x in rows if x["ok"]][:2]:
        ctx.sample({"input": r["input"], "proc": r["proc"], "order": r["order"], "files": r["files"], "req": r["req"]})
    ctx.assumptions += ["sha256 digests stand for file contents", "map iteration order varies with the per-process hash seed and "
                        "per-iteration random start; the link order is additionally forced through the verif hook",
                        "root service list compared as a set after canonical renumbering (lenient reading of 'up to numbering')"]
    return vlib.finish(ctx, "inputs = Linker.tla family programs (forced link orders + natural runs), every file of "
                       "gen/internal/tests/thrift as a root under 4 option sets, and seeded big multi-file programs under 2 option "
                       "sets; each generated several times in each of several processes; non-trivial = distinct inputs that "
                       "generate successfully", exhaustive=False)
