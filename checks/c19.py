"""C19 -- service codegen: plugin type descriptions and response helpers are faithful.

Role A: MCService.tla -- the core generator's type of a field (typeName / typeReference /
typeReferencePtr), the description sent to plugins (buildType) and its rendering by the
plugin library (FormatType), transcribed and compared by TLC on every type expression up to
depth 2 (3 thorough) over 24 leaf types, required and optional.  Role B: those type
expressions become parameter / return types of generated services (two files, cross-file
types, exceptions, inheritance across files, void and oneway functions).  The driver
captures the request given to plugins, formats the described types with the plugin
library and parses the generated Go source for the Args / Result field types and helper
signatures; the lab executes the helpers.  Role C: C19Trace.tla."""
import json, os, random
import vlib, genlab
import c01


def tx(t, local_pkg_defs):
    """render a type expression for svc.thrift: definitions living in base.thrift are qualified"""
    k = t["k"]
    if k in ("bool", "i8", "i16", "i32", "i64", "double", "string", "binary"):
        return k
    if k == "list":
        return "list<%s>" % tx(t["e"], local_pkg_defs)
    if k == "set":
        return "set<%s>%s" % (tx(t["e"], local_pkg_defs), ' (go.type = "slice")' if t.get("slice") else "")
    if k == "map":
        return "map<%s, %s>%s" % (tx(t["kt"], local_pkg_defs), tx(t["vt"], local_pkg_defs), ' (go.type = "slice")' if t.get("slice") else "")
    return t["n"] if t["n"] in local_pkg_defs else "base." + t["n"]


BASE_THRIFT = """exception Oops { 1: optional string message }
struct Far { 1: optional i32 x }
enum FarEnum { A = 1 }
typedef i64 FarId
service BaseSvc {
  Far lookup(1: FarId id) throws (1: Oops err)
  void ping()
}
"""


def canary(row, rng):
    if row.get("op") == "c19item" and row["role"] == "arg":
        row["formatted"] = row["formatted"] + "x"
        return row
    if row.get("op") == "helper" and row.get("found"):
        row["undeclared"]["refused"] = False
        return row
    return None


def default_literal(t, support):
    """an IDL literal for a defaulted parameter of type t (base types, enums and typedefs of them), or None"""
    defs = {d["name"]: d for d in support}
    for _ in range(8):
        k = t["k"]
        if k == "bool":
            return "true"
        if k in ("i8", "i16", "i32", "i64"):
            return "7"
        if k == "double":
            return "1.5"
        if k == "string":
            return '"x"'
        if k != "ref" or t["n"] not in defs:
            return None
        d = defs[t["n"]]
        if d["kind"] == "enum" and d.get("items"):
            return str(d["items"][0]["value"])
        if d["kind"] != "typedef":
            return None
        t = d["target"]
    return None


def build_program(types, support):
    local = [d for d in support if d.get("pkg", "svc") == "svc"]
    local_names = {d["name"] for d in local}
    text = 'include "./base.thrift"\n' + "\n".join(genlab.render_def(d) for d in local) + "\nexception LocalErr { 1: optional i32 code }\n"
    funcs, per, svc_i = [], 30, 0
    helpers, structs = [], []
    for i in range(0, len(types), per):
        name = "Svc%d" % svc_i
        ext = " extends base.BaseSvc" if svc_i % 2 == 0 else (" extends Svc%d" % (svc_i - 1))
        lines = []
        for j, t in enumerate(types[i:i + per]):
            fn = "f%d" % (i + j)
            T = tx(t, local_names)
            # every fifth function renames a parameter and an exception for Go (go.name): the description follows the generated fields
            ren = (i + j) % 5 == 2
            # a parameter with a default value is still an optional field of the generated Args struct, and described so
            lit = default_literal(t, support)
            third = (", 3: %s c = %s" % (T, lit)) if lit else ""
            lines.append("  %s %s(1: %s a%s, 2: required %s b%s) throws (1: base.Oops err, 2: LocalErr err2%s)"
                         % (T, fn, T, ' (go.name = "Alpha")' if ren else "", T, third, ' (go.name = "SecondErr")' if ren else ""))
            funcs.append({"svc": name, "gosvc": name, "fn": fn, "gofn": "F%d" % (i + j), "pkg": "svc", "items": [
                {"role": "arg", "name": "Alpha" if ren else "A", "t": t, "req": False}, {"role": "arg", "name": "B", "t": t, "req": True}]
                + ([{"role": "arg", "name": "C", "t": t, "req": False}] if lit else []) + [
                {"role": "exc", "name": "Err", "t": {"k": "ref", "n": "Oops"}, "req": False},
                {"role": "exc", "name": "SecondErr" if ren else "Err2", "t": {"k": "ref", "n": "LocalErr"}, "req": False},
                {"role": "ret", "name": "", "t": t, "req": True}]})
            helpers.append("%s_F%d_Helper" % (name, i + j))
            structs.append("%s_F%d_Result" % (name, i + j))
        lines.append("  void done%d()" % svc_i)
        lines.append("  oneway void fire%d(1: string s)" % svc_i)
        helpers.append("%s_Done%d_Helper" % (name, svc_i))
        structs.append("%s_Done%d_Result" % (name, svc_i))
        text += "service %s%s {\n%s\n}\n" % (name, ext, "\n".join(lines))
        svc_i += 1
    return text, funcs, helpers, structs


def run(ctx):
    rng = random.Random(ctx.seed)
    drv = vlib.build_harness(ctx)
    r = vlib.model_check(ctx, "MCService", "MCService.cfg" if ctx.quick() else "MCService_thorough.cfg", timeout=3000)
    types, support = [], None
    unesc = lambda t: t.replace('\\"', '"').replace("\\\\", "\\")
    for line in r["out"].splitlines():
        if line.startswith('<<"TYPE", "') and line.endswith('">>'):
            types.append(json.loads(unesc(line[len('<<"TYPE", "'):-3])))
        elif line.startswith('<<"SUPPORT", "') and line.endswith('">>'):
            support = json.loads(unesc(line[len('<<"SUPPORT", "'):-3]))
    if not types or support is None:
        raise vlib.Inconclusive("MCService printed no types")
    ctx.cov["model_types"] = len(types)
    types.sort(key=lambda t: json.dumps(t, sort_keys=True))
    leaf = [t for t in types if t["k"] not in ("list", "set", "map")]
    rest = [t for t in types if t not in leaf] if ctx.quick() else [t for t in types if t["k"] in ("list", "set", "map")]
    # thorough: the depth-3 universe has ~70k type expressions; one program with all of them does not finish
    # (80 MB of IDL, > 8 GB in the generator): a seeded sample in programs of 1500 types each
    picked = rng.sample(rest, min(len(rest), 330 if ctx.quick() else 7200))
    chunks = [leaf + picked[:330]] + [picked[i:i + 1500] for i in range(330, len(picked), 1500)]
    ctx.cov["types_in_programs"] = sum(len(c) for c in chunks)
    for d in support:
        d.setdefault("pkg", "svc")
    support.append({"name": "LocalErr", "kind": "exception", "items": [], "target": {"k": "i32"}, "pkg": "svc",
                    "fields": [{"id": 1, "name": "code", "t": {"k": "i32"}, "req": False, "def": {"k": "none"}}]})
    cases = []
    for k, chunk in enumerate(chunks):
        ctext, cfuncs, chelpers, cstructs = build_program(chunk, [d for d in support if d["name"] != "LocalErr"])
        cfiles = {"svc.thrift": ctext, "base.thrift": BASE_THRIFT}
        cases.append({"id": "recurse-%d" % k, "files": cfiles, "root": "svc.thrift", "norecurse": False, "funcs": cfuncs, "S": support})
        if k == 0:
            text, funcs, helpers, structs, files = ctext, cfuncs, chelpers, cstructs, cfiles
            cases.append({"id": "norecurse", "files": files, "root": "svc.thrift", "norecurse": True, "funcs": funcs[:40], "S": support})
    # inheritance across three and four files where each file includes only its parent's file: the request must still
    # describe every ancestor (module ids for files the generated file does not include itself)
    chain = {"top.thrift": 'include "./mid.thrift"\nservice Top extends mid.Mid { void top(1: i32 a) }\n',
             "mid.thrift": 'include "./sub/low.thrift"\nstruct MidArg { 1: optional i32 x }\nservice Mid extends low.Low { MidArg mid(1: MidArg a) }\n',
             "sub/low.thrift": 'include "../base.thrift"\nservice Low extends base.BaseSvc { oneway void low() }\n',
             "base.thrift": BASE_THRIFT}
    for nr in (False, True):
        cases.append({"id": "chain4-%s" % ("norecurse" if nr else "recurse"), "files": chain, "root": "top.thrift", "norecurse": nr, "funcs": [], "S": support})
    # services of one name in different files: a service is identified by its file and its name
    same = {"top.thrift": 'include "./alpha.thrift"\ninclude "./sub/beta.thrift"\nservice Health extends beta.Health { void own() }\nservice KV extends alpha.Probe { void put(1: string k) }\n',
            "alpha.thrift": "service Health { bool ping() }\nservice Probe extends Health { void probe() }\n",
            "sub/beta.thrift": "service Health { string status() }\nservice Probe extends Health { void look() }\n"}
    for nr in (False, True):
        cases.append({"id": "samename-%s" % ("norecurse" if nr else "recurse"), "files": same, "root": "top.thrift", "norecurse": nr, "funcs": [], "S": support})
    cf, of = os.path.join(ctx.dir("c19"), "cases.ndjson"), os.path.join(ctx.dir("c19"), "obs.ndjson")
    vlib.write_ndjson(cf, cases)
    vlib.run([drv, "c19", "-cases", cf, "-out", of], timeout=3000, check=True)
    rows = vlib.read_ndjson(of)
    # ---- helpers executed in the lab (same thrift program, generated by the binary)
    lab, mod = genlab.build_lab(ctx, [], pkg="svc", extra_thrift=text, extra_files={"base.thrift": BASE_THRIFT},
                                helpers=helpers, extra_structs=structs, name="svclab")
    # result values: reference encodings of the Result structs with the success field set come from the family values
    # of GenCodec would need the schema of the Result struct; the wire form is simple: field 0 = the value
    hcases = []
    for k, (h, s) in enumerate(zip(helpers, structs)):
        hcases.append({"id": "h%d" % k, "op": "helper", "tn": s, "helper": h, "b": [0]})          # result with nothing set
    hrows = c01.run_lab(ctx, lab, hcases, name="c19h")
    rows += hrows
    ctx.evals = len(rows)
    bad, drift = vlib.validate_trace(ctx, "C19Trace", rows, canary=canary, shard=800, timeout=3000)
    for row, why in bad:
        vlib.report_failure(ctx, {k: v for k, v in row.items() if k not in ("S",)}, {"failed": why, "id": row.get("id"), "fn": row.get("fn"),
                                                                                     "role": row.get("role"), "formatted": row.get("formatted"),
                                                                                     "generated": row.get("generated")}, case=None)
    for row, why in drift:
        ctx.drift.append({"fn": row.get("fn"), "role": row.get("role"), "generated": row.get("generated"), "model_predicates": why})
    items = [r for r in rows if r["op"] == "c19item"]
    ctx.cov["distinct_nontrivial"] = vlib.distinct_count(items, lambda r: (r["t"], r["req"], r["role"]))
    ctx.cov["functions"] = len(funcs)
    ctx.cov["helpers_executed"] = sum(1 for r in hrows if r.get("found"))
    for r in items[:2] + [x for x in rows if x["op"] == "c19req"][:1] + hrows[:1]:
        ctx.sample({k: v for k, v in r.items() if k not in ("S", "case")})
    ctx.assumptions += ["type strings are compared after normalising import aliases to the last element of the import path",
                        "the helpers are executed on zero / empty results and freshly allocated exceptions; value fidelity of the "
                        "Result structs themselves is C01's subject"]
    return vlib.finish(ctx, "functions = one per type expression reachable in MCService.tla (sampled in quick tier) with an optional and a "
                       "required parameter, two exceptions (one cross-file) and that return type, in services inheriting across files, "
                       "generated with and without --no-recurse; non-trivial = distinct (type, requiredness, role)", exhaustive=False)
