"""C02 -- binary protocol round-trips every wire value byte-exactly.

Role A: MCWire.tla (stream writer as a small-step machine over the bounded
value universe; both reader models invert it).  Role B: the same universe is
written by TLC as cases (value + stream.Writer call sequence) and replayed on
the real Protocol/StreamWriter/Reader/StreamReader.  Role C: C02Trace.tla judges
every recorded observation (TLC-generated and harness-drawn random/large) against
Wire.tla's Enc / WriterCalls."""
import json, os
import vlib


def canary(row, rng):
    if row.get("op") != "c02" or not row.get("enc"):
        return None
    k = rng.choice(["enc", "sw", "dec"])
    if k == "dec":
        row["dec"] = {"t": 2, "n": 1} if row["dec"] != {"t": 2, "n": 1} else {"t": 2, "n": 0}
    else:
        i = rng.randrange(len(row[k]))
        row[k][i] = (row[k][i] + 1) % 256
    return row


def run(ctx):
    tier = "quick" if ctx.quick() else "thorough"
    drv = vlib.build_harness(ctx)
    if ctx.replay:
        rep = json.load(open(ctx.replay))
        cases = os.path.join(ctx.dir("replay"), "cases.ndjson")
        vlib.write_ndjson(cases, [{"id": rep["obs"].get("id", "replay"), "v": rep["obs"]["v"]}])
        nrand, nbig = 0, 0
    else:
        vlib.model_check(ctx, "MCWire", "MCWire_%s.cfg" % tier, timeout=3000)
        cases = vlib.gen_cases(ctx, "MCWireGen", "MCWireGen_%s.cfg" % tier, timeout=1800)
        # payload lengths: every length up to a few hundred bytes and the neighbours of every power of two
        sizes = vlib.read_ndjson(vlib.gen_cases(ctx, "WireSizes", "WireSizes_%s.cfg" % tier, timeout=600))
        allc = vlib.read_ndjson(cases) + sizes
        cases = os.path.join(ctx.dir("cases"), "all.ndjson")
        vlib.write_ndjson(cases, allc)
        ctx.cov["payload_length_cases"] = len(sizes)
        nrand, nbig = (3000, 9) if ctx.quick() else (150000, 42)
    obs = os.path.join(ctx.dir("obs"), "obs.ndjson")
    vlib.run([drv, "c02", "-cases", cases, "-random", str(nrand), "-big", str(nbig),
              "-seed", str(ctx.seed), "-out", obs], timeout=3000, check=True)
    rows = vlib.read_ndjson(obs)
    ctx.evals = len(rows)
    bad, _ = vlib.validate_trace(ctx, "C02Trace", rows, canary=canary, shard=6000)
    for row, why in bad:
        vlib.report_failure(ctx, row, {"failed": why, "id": row.get("id")}, case={"v": row.get("v")})
    ctx.cov["distinct_nontrivial"] = vlib.distinct_count(
        [r for r in rows if r.get("op") == "c02big" or r["v"].get("t") in (11, 12, 13, 14, 15)],
        lambda r: r.get("v", r.get("parts")))
    for r in rows[:2] + rows[-2:]:
        ctx.sample({k: r[k] for k in ("id", "src", "v", "enc") if k in r} if r.get("op") == "c02"
                   else {k: r[k] for k in ("id", "shape", "parts")})
    ctx.assumptions += ["TLC 1.8.0 and the CommunityModules Json reader", "the harness projection wj (bit splitting only)",
                        "binaries above 4096 bytes are judged by header + sha256 digest"]
    return vlib.finish(ctx, "TLC enumerates the bounded value universe of MCWire.tla (all 11 wire types, boundary scalars, "
                       "containers of containers) and writes value+call-sequence cases; the driver adds seeded random deep/wide "
                       "values and binaries around the 1 MiB threshold; every observation is judged by C02Trace.tla. "
                       "non-trivial = distinct container/binary values", exhaustive=False)
