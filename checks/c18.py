"""C18 -- concurrent use of the codec and framed client is safe and isolated.

Role A: Pools.tla (2-3 concurrent operations x every program assignment x all
interleavings incl. GC of pooled objects; OneHolder, NotPooledWhileHeld, CleanInPool,
Isolated, AllReturned; negative control = a lazy container closed twice).  Role C: the
real code is stressed (K goroutines of mixed operations on private random values,
GOMAXPROCS 1/2/16, forced GCs, race detector) with the pool hooks recording every
Get/Put; C18Trace.tla replays the event log through the holder map of the model and
compares every operation's result with its sequential result; K concurrent Sends on one
frame client and the concurrent plugin fan-out are checked in the same trace."""
import json, os, subprocess
import vlib


def canary(row, rng):
    if row.get("op") == "c18res":
        row["conc"] = "x" + row["conc"]
        return row
    if row.get("op") == "c18ev" and row["ev"] == "put":
        row["clean"] = False
        return row
    return None


def run(ctx):
    drv_race = vlib.build_harness(ctx, race=True)
    if ctx.replay:
        raise vlib.Inconclusive("a schedule cannot be replayed; re-run the check (the replay file holds the failing trace line)")
    vlib.model_check(ctx, "Pools", "MCPools_quick.cfg" if ctx.quick() else "MCPools.cfg", timeout=3000)
    neg = vlib.tlc(ctx, "Pools", "MCPools_negctl.cfg", timeout=900, allow_error=True)
    if "is violated" not in neg["out"]:
        raise vlib.Inconclusive("negative control failed: closing a lazy container twice violates nothing in Pools.tla")
    ctx.notes.append("negative control: Pools.tla with DoubleClose violates NotPooledWhileHeld (as expected)")
    # frame client: the design with the mutex, its negative control, and the schedules of the lock-free
    # variant, which are forced on the real client through the gate hook (schedule replay)
    vlib.model_check(ctx, "FrameClient", "MCFrameClient.cfg", timeout=600)
    neg = vlib.tlc(ctx, "FrameClient", "MCFrameClient_negctl.cfg", timeout=600, allow_error=True)
    if "Invariant OwnReply is violated" not in neg["out"]:
        raise vlib.Inconclusive("negative control failed: a frame client without the mutex satisfies OwnReply")
    ctx.notes.append("negative control: FrameClient.tla without the mutex violates OwnReply (as expected)")
    import re
    sched_cases = []
    for cfgname, ncl in (("MCFrameClient_sched.cfg", 2),) + ((("MCFrameClient_sched3.cfg", 3),) if not ctx.quick() else ()):
        d = ctx.dir("fcsched%d" % ncl)
        vlib.tlc(ctx, "FrameClient", cfgname, workdir=d, workers=1, timeout=900, extra=["-dump", "sched.dump"])
        for st in vlib.parse_dump(os.path.join(d, "sched.dump")):
            steps = re.findall(r'<<"(\w+)", "(\w+)">>', st["sched"])
            if len(steps) == 3 * ncl:
                sched_cases.append({"id": "sched%d-%d" % (ncl, len(sched_cases)), "sched": [{"c": c, "step": s2} for c, s2 in steps]})
    ctx.cov["schedules_replayed"] = len(sched_cases)
    drv = vlib.build_harness(ctx)
    cf = os.path.join(ctx.dir("sched"), "cases.ndjson")
    of = os.path.join(ctx.dir("sched"), "obs.ndjson")
    vlib.write_ndjson(cf, sched_cases)
    vlib.run([drv, "c18sched", "-cases", cf, "-out", of], timeout=3000, check=True)
    srows = vlib.read_ndjson(of)
    bad, _ = vlib.validate_trace(ctx, "C18Trace", srows, shard=10 ** 9, timeout=1800)
    for row, why in bad:
        vlib.report_failure(ctx, row, {"failed": why, "sched": row["sched"], "results": row["results"]}, case={"sched": row["sched"]})
    rounds, maxk, nproc = (12, 16, 3) if ctx.quick() else (150, 64, 8)
    procs = []
    for p in range(nproc):
        of = os.path.join(ctx.dir("obs"), "obs_%d.ndjson" % p)
        cmd = [drv_race, "c18", "-rounds", str(rounds), "-maxk", str(maxk), "-seed", str(ctx.seed * 100 + p), "-out", of]
        env = dict(os.environ, GORACE="halt_on_error=1 exitcode=66")
        procs.append((subprocess.Popen(cmd, stdout=subprocess.PIPE, stderr=subprocess.STDOUT, env=env), of))
    rows_by_proc = []
    for pr, of in procs:
        try:
            out, _ = pr.communicate(timeout=3000)
        except subprocess.TimeoutExpired:
            pr.kill()
            vlib.report_failure(ctx, {"op": "c18", "what": "stress run did not terminate"}, {"failed": ["hang"]})
            continue
        out = out.decode("utf-8", "replace")
        if pr.returncode == 66 or "WARNING: DATA RACE" in out:
            vlib.report_failure(ctx, {"op": "c18race", "report": out[:3000]}, {"failed": ["data-race"], "report": out[:1500]})
        elif pr.returncode != 0:
            vlib.report_failure(ctx, {"op": "c18crash", "report": out[:3000]}, {"failed": ["process-died:rc=%d" % pr.returncode], "report": out[:1500]})
        if os.path.exists(of):
            rows_by_proc.append(vlib.read_ndjson(of, tolerant=True))
    nrows = 0
    for rows in rows_by_proc:
        nrows += len(rows)
        # the holder map is history: keep each process's trace whole, shard only at round boundaries
        shards, cur = [], []
        for r in rows:
            if r["op"] == "c18round" and len(cur) > 20000:
                shards.append(cur)
                cur = []
            cur.append(r)
        if cur:
            shards.append(cur)
        for sh in shards:
            bad, _ = vlib.validate_trace(ctx, "C18Trace", sh, canary=canary, shard=10 ** 9, timeout=3000)
            for row, why in bad:
                vlib.report_failure(ctx, row, {"failed": why, "line": row}, case=None)
    ctx.evals = nrows
    allrows = [r for rows in rows_by_proc for r in rows]
    ctx.cov["pool_events"] = sum(1 for r in allrows if r["op"] == "c18ev")
    ctx.cov["operations"] = sum(1 for r in allrows if r["op"] == "c18res")
    ctx.cov["rounds"] = sum(1 for r in allrows if r["op"] == "c18round")
    ctx.cov["distinct_nontrivial"] = vlib.distinct_count([r for r in allrows if r["op"] == "c18res"], lambda r: (r["kind"], r["base"]))
    ctx.cov["objects_reused"] = len({r["obj"] for r in allrows if r["op"] == "c18ev"})
    for r in [x for x in allrows if x["op"] == "c18ev"][:3] + [x for x in allrows if x["op"] == "c18res"][:1]:
        ctx.sample(r)
    ctx.assumptions += ["on the real code the schedule is sampled (stress + race detector), not enumerated; the exhaustive part is the "
                        "design model", "goroutine identity is read from runtime.Stack inside the hook",
                        "the hook's global sequence number orders the events of one object consistently with the real order"]
    return vlib.finish(ctx, "stress rounds of K in 2..maxk goroutines, each running one of 8 operation kinds (Encode, Decode+force+close, "
                       "stream encode/decode, generated ToWire/FromWire and Encode/Decode, envelope encode/decode, ReadRequest) three "
                       "times on a private random value while another goroutine forces GCs; per round also K concurrent frame-client "
                       "Sends and a K-way plugin fan-out; harness built with -race; non-trivial = distinct (operation kind, result)",
                       exhaustive=False)
