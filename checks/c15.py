"""C15 -- redacted and no-log fields never leak into strings, errors or logs.

Role A: MCRedact.tla -- Redact.tla's classification of leaves (Leaves) against what the
sinks emit under the templates' delegation structure (Emitted), for every secret shape x
requiredness x struct/exception and every way of reaching the annotated struct (direct,
list, set, map value, unhashable map key, typedef, typedef of list, plus annotated fields
of the holder itself); negative control: a container kind that prints its items raw.
Role B: the same (schema, value) cases -- every leaf a unique marker -- are generated and
compiled with zap on and with --no-zap; the lab decodes the reference encoding and reports
for every marker (all its spellings: text, decimal byte list, base64) whether it occurs in
String(), Error() and the zap JSON encoder output.  Role C: C15Trace.tla."""
import json, os, random
import vlib, genlab
import c01


def canary(row, rng):
    if row.get("op") != "redact" or not row.get("decoded"):
        return None
    reds = [m for m in row["marks"] if m["cls"] == "redact"]
    if not reds:
        return None
    reds[0]["inString"] = True
    return row


def run(ctx):
    vlib.model_check(ctx, "MCRedact", "MCRedact.cfg", timeout=900)
    neg = vlib.tlc(ctx, "MCRedact", "MCRedact_negctl.cfg", timeout=600, allow_error=True)
    if "Invariant InvNoLeak is violated" not in neg["out"]:
        raise vlib.Inconclusive("negative control failed: a container printing its items raw does not violate InvNoLeak")
    ctx.notes.append("negative control: MCRedact with RawKinds = {mapkey} violates InvNoLeak (as expected)")
    cases = vlib.read_ndjson(vlib.gen_cases(ctx, "MCRedactGen", "MCRedactGen.cfg", timeout=900))
    if ctx.replay:
        rep = json.load(open(ctx.replay))
        cases = [rep["case"]]
    rows = []
    # one lab per (schema, zap on/off): the schemas reuse the names Sec / Hold, so each gets its own package
    import concurrent.futures
    def one(job):
        i, c, zap = job
        name = "red%d%s" % (i, "z" if zap else "n")
        sub = vlib.Ctx(ctx.prop, ctx.tier, ctx.seed, keep=True)
        sub.scratch = ctx.dir(name)
        lab, mod = genlab.build_lab(sub, c["S"], flags=() if zap else ("--no-zap",), name=name)
        cc = dict(c, zap=zap, id="%s-%s" % (c["id"], "zap" if zap else "nozap"))
        return c01.run_lab(sub, lab, [cc], name=name)
    jobs = [(i, c, zap) for i, c in enumerate(cases) for zap in (True, False)]
    if ctx.quick() and not ctx.replay:
        rng = random.Random(ctx.seed)
        # every schema with zap on (a sample left a shape out about one run in ten), a sample of the --no-zap builds
        nozap = [j for j in jobs if not j[2]]
        jobs = [j for j in jobs if j[2]] + rng.sample(nozap, min(len(nozap), 8))
    thriftrw = vlib.build_repo_bin(ctx, ".", "thriftrw", tags="")
    with concurrent.futures.ThreadPoolExecutor(max_workers=8) as ex:
        for r in ex.map(one, jobs):
            rows += r
    ctx.evals = len(rows)
    bad, _ = vlib.validate_trace(ctx, "C15Trace", rows, canary=canary, shard=200, timeout=1800)
    for row, why in bad:
        vlib.report_failure(ctx, row, {"failed": why, "id": row.get("id"), "leaks": [m for m in row.get("marks", []) if m["cls"] != "plain" and (m["inZap"] or (m["cls"] == "redact" and (m["inString"] or m["inError"])))][:5]}, case=row["case"])
    ctx.cov["distinct_nontrivial"] = vlib.distinct_count(rows, lambda r: (r["case"]["S"], r["case"]["zap"]))
    ctx.cov["markers_checked"] = sum(len(r.get("marks", [])) for r in rows)
    ctx.cov["redacted_markers"] = sum(1 for r in rows for m in r.get("marks", []) if m["cls"] == "redact")
    ctx.cov["labs_built"] = len(jobs)
    for r in rows[:2]:
        ctx.sample({"id": r["id"], "secret_type": [d for d in r["case"]["S"] if d["name"] == "Sec"][0]["fields"][0], "counts": r["counts"],
                    "marks": r["marks"][:4]})
    ctx.assumptions += ["markers are searched as text, as the decimal byte list fmt prints for []byte, and as base64 (zap)",
                        "'%#v' formatting bypasses String() and is outside the property"]
    return vlib.finish(ctx, "cases = 10 secret shapes (string, binary, i32, typedef, list, map, set, struct, list of structs, map of "
                       "binaries) x required/optional x struct/exception, each with a holder reaching the annotated struct 7 ways and "
                       "annotated fields of its own, every leaf a unique marker; generated with zap (always all) and with --no-zap (sampled in quick "
                       "tier); non-trivial = distinct (schema, option set)", exhaustive=False)
