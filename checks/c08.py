"""C08 -- compiler and generator terminate with a result or an error.

Role A: MCLinker.tla invariants NoOverflow / ParentsFinite over every reference-cycle
shape of its families (typedef, const, const<->struct default, service, include loop,
self include) and all link orders; negative control = the pinned linker.  Role B: those
programs, a built-in structural family of further cycle kinds (containers, unions,
exceptions, service functions, include loops of length 1..3) and seeded token-level
mutants of the repository's own test IDL / raw bytes go through compile.Compile and
gen.Generate in crash-isolated child processes.  Role C: C08Trace.tla (outcome
invariant); a child that dies or hangs is attributed to the case in flight."""
import json, os, random
import vlib
import c07


def canary(row, rng):
    if row.get("op") != "c08":
        return None
    if row["cok"]:
        row["cerr"] = "boom"
    else:
        row["cerr"] = ""
    return row


# ---- DefaultCycle.tla: a field default written in terms of the enclosing struct ----------
def render_list(tree, kind):
    items = [("{\"f\": %s}" % render_list(l["val"], kind)) if l["given"] else "{}" for l in tree]
    if kind == "map":
        return "{" + ", ".join('"k%d": %s' % (i + 1, it) for i, it in enumerate(items)) + "}"
    return "[" + ", ".join(items) + "]"


DC_KINDS = {
    "list": ("struct C {\n  1: optional list<C> f = %s\n}\n", "list"),
    "required": ("struct C {\n  1: required list<C> f = %s\n}\n", "list"),
    "exception": ("exception C {\n  1: optional list<C> f = %s\n}\n", "list"),
    "typedef": ("typedef list<C> L\nstruct C {\n  1: optional L f = %s\n}\n", "list"),
    "map": ("struct C {\n  1: optional map<string, C> f = %s\n}\n", "map"),
    "second-field": ("struct C {\n  1: optional i32 n = 1\n  2: optional list<C> f = %s\n  3: optional string s\n}\n", "list"),
    "via-const": ("const list<C> d = %s\nstruct C {\n  1: optional list<C> f = d\n}\n", "list"),
}


def default_cycle_cases(ctx, rng):
    import c06
    r = vlib.model_check(ctx, "DefaultCycle", "MCDefaultCycle%s.cfg" % ("" if ctx.quick() else "_thorough"), timeout=1500, workers=8)
    neg = vlib.tlc(ctx, "DefaultCycle", "MCDefaultCycle_negctl.cfg", timeout=600, allow_error=True)
    if "Invariant NoOverflow is violated" not in neg["out"]:
        raise vlib.Inconclusive("negative control failed: a frame that lowers a flag it did not raise does not overflow in DefaultCycle.tla")
    ctx.notes.append("negative control: DefaultCycle.tla with ClearsAlways = TRUE violates NoOverflow (as expected)")
    trees = c06.parse_cases(r["out"])
    if len(trees) < 100:
        raise vlib.Inconclusive("DefaultCycle.tla emitted %d cases" % len(trees))
    cases = []
    kinds = sorted(DC_KINDS)
    for i, t in enumerate(trees):
        for kind in (kinds if ctx.quick() or not t["expect"] else [kinds[i % len(kinds)]]):
            tmpl, shape = DC_KINDS[kind]
            expect = t["expect"]
            files = {"/v/a.thrift": tmpl % render_list(t["tree"], shape), "#expect": expect or "ok"}
            if kind == "via-const" and expect:
                del files["#expect"]      # a constant of type list<C> that leaves f out is a cycle through the constant: other error text
            if kind == "typedef":
                del files["#expect"]      # the cast of a default to a typedef that is still being linked depends on the link order (finding of C07/C10)
            cases.append({"id": "dc-%d-%s" % (i, kind), "files": files, "nonstrict": False})
    ctx.cov["default_cycle_trees"] = len(trees)
    return cases


def run(ctx):
    drv = vlib.build_harness(ctx)
    rng = random.Random(ctx.seed)
    corpus = os.path.join(vlib.REPO, "gen", "internal", "tests", "thrift")
    if ctx.replay:
        rep = json.load(open(ctx.replay))
        o = rep["obs"]
        cases = [{"id": "replay", "files": o["files"], "nonstrict": o.get("nonstrict", False)}]
        extra = []
        rand_args = None
    else:
        c07.linker_models(ctx, c07.FAMILIES)
        cases = c07.gen_programs(ctx, ["types", "consts", "svcs", "mixed", "selfstruct", "lists", "aliasitem", "dotted", "modsvcs", "xcycle"], 0, rng)       # every program of these families
        cases += c07.gen_programs(ctx, ["modules"], 4000 if ctx.quick() else 0, rng)
        # names and annotations that reach the generator's helpers outside of its templates: an error or a result, no crash
        odd = ["struct _ { 1: optional i32 v }", "struct __ { 1: optional i32 v }", "service _ { void ping() }", "service S { void _() }",
               "service S { void f(1: i32 _) }", "struct S { 1: optional i32 _ }", "enum _ { A }", "enum E { _ }", "typedef i32 _", "const i32 _ = 1",
               'struct Foo { 1: optional string bar } (go.name = "")', 'service S { void f(1: string a (go.name = "")) }',
               'struct Foo { 1: optional string bar (go.name = "") }', 'enum E { A (go.name = "") }', 'typedef i32 T (go.name = "")',
               'struct Foo {} (go.name = "__")', "union _u_ { 1: i32 _a_ }\nexception __x { 1: optional i32 a__ }", "union Empty {}", "exception OnlyOpt { 1: optional i32 a }",
               'struct T { 1: optional i32 a (go.tag = "`") }', 'struct T { 1: optional i32 a (go.tag = "json") }', 'struct T { 1: optional i32 a (go.label = "") }',
               "service S { void f() }\nservice T extends S {}", "enum E {}\nstruct S { 1: optional E e }", 'struct S { 1: optional set<S> (go.type = "slice") s }',
               "/**\n */\nstruct S { 1: optional i32 x }", "/**\n\n*/\nconst i32 c = 1", "struct S {\n  /**\n   */\n  1: optional i32 x\n}",
               "enum E {\n /**\n */\n A }", "service V {\n /** \n \n */\n void f() }", "/***/ typedef i32 T", "/** */ /**\n*/ struct S {}",
               "typedef list<L> L", "typedef map<string, M> M\nstruct S { 1: optional M m }", "struct S { 1: required S s }", "const list<i32> c = []\nconst map<string, list<i32>> m = {}"]
        for k, body in enumerate(odd):
            cases.append({"id": "odd-%d" % k, "files": {"/v/a.thrift": body + "\n"}, "nonstrict": False})
        # N included files that define types of one name, all used in containers of the root: the generator's helper names
        # (_List_Foo_, _List_Foo_1_, ...) have to be told apart however many there are; also names of primitives
        for name in ("Foo", "String", "I32", "Binary"):
            for n in (2, 3, 4, 6):
                files = {"/v/t%d.thrift" % i: "struct %s { 1: optional i32 v%d }\nenum K { A = %d }\ntypedef list<%s> L\n" % (name, i, i, name) for i in range(n)}
                root = "".join('include "./t%d.thrift"\n' % i for i in range(n))
                root += "struct Root {\n" + "".join("  %d: optional list<t%d.%s> a%d\n  %d: optional map<string, t%d.%s> b%d\n  %d: optional set<t%d.K> c%d\n  %d: optional list<t%d.L> d%d\n"
                                                    % (4 * i + 1, i, name, i, 4 * i + 2, i, name, i, 4 * i + 3, i, i, 4 * i + 4, i, i) for i in range(n)) + "}\n"
                files["/v/a.thrift"] = root
                cases.append({"id": "samename-%s-%d" % (name, n), "files": files, "nonstrict": False})
        cases += default_cycle_cases(ctx, rng)
        extra = []
        rand_args = ["-builtin", "-corpus", corpus, "-random", "4000" if ctx.quick() else "300000"]
    rows, crashes = vlib.run_driver_batches(ctx, drv, "c08", cases, args=extra, batch=max(20, len(cases) // 32 + 1),
                                            timeout=1500, random_args=rand_args)
    for case, how, out in crashes:
        for k in ("cok", "cerr", "gran", "gok", "gerr", "nfiles"):
            case.pop(k, None)
        vlib.report_failure(ctx, case, {"failed": ["process-died:" + how], "output": out[:700]}, case=case)
    ctx.evals = len(rows)
    bad, drift = vlib.validate_trace(ctx, "C08Trace", rows, canary=canary, shard=4000, timeout=3000)
    for row, why in bad:
        vlib.report_failure(ctx, row, {"failed": why, "id": row.get("id")}, case={"files": row["files"]})
    for row, why in drift:
        ctx.drift.append({"id": row.get("id"), "files": row["files"], "cok": row["cok"], "cerr": row["cerr"][:200], "model_predicates": why})
    ctx.cov["distinct_nontrivial"] = vlib.distinct_count(rows, lambda r: r["files"])
    ctx.cov["by_source"] = {s: sum(1 for r in rows if r["src"] == s) for s in sorted({r["src"] for r in rows})}
    ctx.cov["compiled_ok"] = sum(1 for r in rows if r["cok"])
    ctx.cov["generated_ok"] = sum(1 for r in rows if r["gok"])
    for r in [x for x in rows if x["src"] == "cycle-family"][:2] + [x for x in rows if x["src"] == "mutant"][:1]:
        ctx.sample({k: r[k] for k in ("id", "files", "cok", "cerr", "gok", "gerr")})
    ctx.assumptions += ["hang detection = wall-clock timeout of the child running a batch",
                        "for raw bytes / token mutants the specification contributes only the outcome invariant (exploration)"]
    return vlib.finish(ctx, "programs of the Linker.tla families (every reference-cycle shape), the built-in cycle family "
                       "(16 kinds x length 1..3 + include loops), and seeded token-level mutants of gen/internal/tests/thrift "
                       "and random bytes; compile then generate, strict and non-strict; non-trivial = distinct file sets",
                       exhaustive=False)
