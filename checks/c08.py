"""C08 -- compiler and generator terminate with a result or an error.

Role A: MCLinker.tla invariants NoOverflow / ParentsFinite over every reference-cycle
shape of its families (typedef, const, const<->struct default, service, include loop,
self include) and all link orders; negative control = the pinned linker.  Role B: those
programs, a built-in structural family of further cycle kinds (containers, unions,
exceptions, service functions, include loops of length 1..3) and seeded token-level
mutants of the repository's own test IDL / raw bytes go through compile.Compile and
gen.Generate in crash-isolated child processes.  Role C: C08Trace.tla (outcome
invariant); a child that dies or hangs is attributed to the case in flight."""
import json, os, random
import vlib
import c07


def canary(row, rng):
    if row.get("op") != "c08":
        return None
    if row["cok"]:
        row["cerr"] = "boom"
    else:
        row["cerr"] = ""
    return row


def run(ctx):
    drv = vlib.build_harness(ctx)
    rng = random.Random(ctx.seed)
    corpus = os.path.join(vlib.REPO, "gen", "internal", "tests", "thrift")
    if ctx.replay:
        rep = json.load(open(ctx.replay))
        o = rep["obs"]
        cases = [{"id": "replay", "files": o["files"], "nonstrict": o.get("nonstrict", False)}]
        extra = []
        rand_args = None
    else:
        c07.linker_models(ctx, c07.FAMILIES)
        cases = c07.gen_programs(ctx, ["types", "consts", "svcs", "mixed"], 0, rng)       # every program of these families
        cases += c07.gen_programs(ctx, ["modules"], 4000 if ctx.quick() else 0, rng)
        # names and annotations that reach the generator's helpers outside of its templates: an error or a result, no crash
        odd = ["struct _ { 1: optional i32 v }", "struct __ { 1: optional i32 v }", "service _ { void ping() }", "service S { void _() }",
               "service S { void f(1: i32 _) }", "struct S { 1: optional i32 _ }", "enum _ { A }", "enum E { _ }", "typedef i32 _", "const i32 _ = 1",
               'struct Foo { 1: optional string bar } (go.name = "")', 'service S { void f(1: string a (go.name = "")) }',
               'struct Foo { 1: optional string bar (go.name = "") }', 'enum E { A (go.name = "") }', 'typedef i32 T (go.name = "")',
               'struct Foo {} (go.name = "__")', "union _u_ { 1: i32 _a_ }\nexception __x { 1: optional i32 a__ }", "union Empty {}", "exception OnlyOpt { 1: optional i32 a }",
               'struct T { 1: optional i32 a (go.tag = "`") }', 'struct T { 1: optional i32 a (go.tag = "json") }', 'struct T { 1: optional i32 a (go.label = "") }',
               "service S { void f() }\nservice T extends S {}", "enum E {}\nstruct S { 1: optional E e }", 'struct S { 1: optional set<S> (go.type = "slice") s }',
               "typedef list<L> L", "typedef map<string, M> M\nstruct S { 1: optional M m }", "struct S { 1: required S s }", "const list<i32> c = []\nconst map<string, list<i32>> m = {}"]
        for k, body in enumerate(odd):
            cases.append({"id": "odd-%d" % k, "files": {"/v/a.thrift": body + "\n"}, "nonstrict": False})
        extra = []
        rand_args = ["-builtin", "-corpus", corpus, "-random", "4000" if ctx.quick() else "300000"]
    rows, crashes = vlib.run_driver_batches(ctx, drv, "c08", cases, args=extra, batch=max(20, len(cases) // 32 + 1),
                                            timeout=1500, random_args=rand_args)
    for case, how, out in crashes:
        for k in ("cok", "cerr", "gran", "gok", "gerr", "nfiles"):
            case.pop(k, None)
        vlib.report_failure(ctx, case, {"failed": ["process-died:" + how], "output": out[:700]}, case=case)
    ctx.evals = len(rows)
    bad, _ = vlib.validate_trace(ctx, "C08Trace", rows, canary=canary, shard=4000, timeout=3000)
    for row, why in bad:
        vlib.report_failure(ctx, row, {"failed": why, "id": row.get("id")}, case={"files": row["files"]})
    ctx.cov["distinct_nontrivial"] = vlib.distinct_count(rows, lambda r: r["files"])
    ctx.cov["by_source"] = {s: sum(1 for r in rows if r["src"] == s) for s in sorted({r["src"] for r in rows})}
    ctx.cov["compiled_ok"] = sum(1 for r in rows if r["cok"])
    ctx.cov["generated_ok"] = sum(1 for r in rows if r["gok"])
    for r in [x for x in rows if x["src"] == "cycle-family"][:2] + [x for x in rows if x["src"] == "mutant"][:1]:
        ctx.sample({k: r[k] for k in ("id", "files", "cok", "cerr", "gok", "gerr")})
    ctx.assumptions += ["hang detection = wall-clock timeout of the child running a batch",
                        "for raw bytes / token mutants the specification contributes only the outcome invariant (exploration)"]
    return vlib.finish(ctx, "programs of the Linker.tla families (every reference-cycle shape), the built-in cycle family "
                       "(16 kinds x length 1..3 + include loops), and seeded token-level mutants of gen/internal/tests/thrift "
                       "and random bytes; compile then generate, strict and non-strict; non-trivial = distinct file sets",
                       exhaustive=False)
