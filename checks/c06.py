"""C06 -- valid programs are accepted; every accepted program yields Go that compiles.

Role A: MCGoNames.tla (naming / reservation design over an identifier pool built to
collide; negative control = the generator as pinned).  Role B: the programs the model
reaches (all whose names meet somewhere are candidates, sampled), plus shape programs
(files and packages, type constructors, constants and defaults of every type,
annotations) x CLI option sets.  Role C: the real thriftrw binary generates each
program into a scratch module, `go build` compiles the generated packages against the
working tree, and C06Trace.tla judges the outcome against GoNames.tla."""
import concurrent.futures, json, os, random, re, shutil
import vlib


def canary(row, rng):
    if row.get("op") != "c06" or not row["accepted"] or not row["built"]:
        return None
    row["built"] = False
    return row


def parse_cases(out):
    unesc = lambda t: t.replace('\\"', '"').replace("\\\\", "\\")
    res = []
    for line in out.splitlines():
        if line.startswith('<<"CASE", "') and line.endswith('">>'):
            res.append(json.loads(unesc(line[len('<<"CASE", "'):-3])))
    return res


# ---- rendering of the model's abstract programs ------------------------------
def ann(goname):
    return ' (go.name = "%s")' % goname if goname else ""


def render_fields(fields, union=False):
    out = []
    for i, f in enumerate(fields):
        req = "" if union else ("optional " if f["opt"] else "required ")
        out.append("  %d: %si32 %s%s" % (i + 1, req, f["txt"], ann(f["goname"])))
    return "\n".join(out)


CONSTREF_PRELUDE = "typedef i32 TI\ntypedef string TS\nenum E { A = 1 }\n"
CONSTREF_VAL = {"i32": "7", "TI": "7", "TS": '"s"', "E": "E.A"}


def render_constref(d):
    """files of a constref program: the constant, and references to it by name from constants, defaults and containers"""
    decl = CONSTREF_PRELUDE + "const %s %s = %s\n" % (d["ty"], d["txt"], CONSTREF_VAL[d["ty"]])
    if d["cross"]:
        q, t = "dep." + d["txt"], "dep." + d["ty"] if d["ty"] != "i32" else "i32"
        use = ('include "./dep.thrift"\nconst %s second = %s\nconst list<%s> several = [%s, %s]\nstruct S { 1: optional %s f = %s }\n'
               % (t, q, t, q, q, t, q))
        return {"dep.thrift": decl, "prog.thrift": use}
    q, t = d["txt"], d["ty"]
    use = "const %s second = %s\nconst list<%s> several = [%s, %s]\nstruct S { 1: optional %s f = %s }\n" % (t, q, t, q, q, t, q)
    return {"prog.thrift": decl + use}


def render_names_program(defs):
    if len(defs) == 1 and defs[0].get("ty"):
        return render_constref(defs[0])
    out = []
    for d in defs:
        k = d["kind"]
        if k in ("struct", "union", "exception"):
            out.append("%s %s {\n%s\n}%s" % (k, d["txt"], render_fields(d["fields"], k == "union"), ann(d["goname"])))
        elif k == "typedef":
            out.append("typedef i32 %s%s" % (d["txt"], ann(d["goname"])))
        elif k == "enum":
            out.append("enum %s { %s }%s" % (d["txt"], ", ".join(text_of(i) for i in d["items"]), ann(d["goname"])))
        elif k == "const":
            out.append("const i32 %s = 1" % d["txt"])
        elif k == "service":
            fns = []
            for fn in d["funcs"]:
                ps = ", ".join("%d: i32 %s" % (i + 1, p["txt"]) for i, p in enumerate(fn["params"]))
                fns.append("  void %s(%s)" % (fn["txt"], ps))
            if not fns:
                fns = ["  void ping()"]
            out.append("service %s {\n%s\n}" % (d["txt"], "\n".join(fns)))
    return {"prog.thrift": "\n".join(out) + "\n"}


TITLE = {}


def text_of(ident):
    """Text(id) of GoNames.tla for identifiers that the model prints as atoms only (enum items)"""
    chunks = []
    for ch in ident:
        chunks.append("".join(a["b"] if a["c"] == "l" else (a["b"][0].upper() + a["b"][1:] if a["c"] == "t" else a["b"].upper()) for a in ch))
    return "_".join(chunks)


OPTION_SETS = [[], ["--no-zap"], ["--no-embed-idl"], ["--no-service-helpers"], ["--no-constants"], ["--enum-text-marshal-strict"],
               ["--no-zap", "--no-embed-idl"], ["--no-service-helpers", "--no-constants", "--no-zap"],
               ["--no-embed-idl", "--enum-text-marshal-strict", "--no-service-helpers"]]


def optrec(opts):
    return {"zap": "--no-zap" not in opts, "embed": "--no-embed-idl" not in opts, "helpers": "--no-service-helpers" not in opts,
            "consts": "--no-constants" not in opts}


class Lab:
    """one scratch Go module holding many generated programs, each under its own package prefix"""

    def __init__(self, ctx, name):
        self.ctx = ctx
        self.mod = ctx.dir("c06mod_" + name)
        self.thriftrw = os.path.join(ctx.dir("bin"), "thriftrw")
        if not os.path.exists(self.thriftrw):
            self.thriftrw = vlib.build_repo_bin(ctx, ".", "thriftrw", tags="")
        with open(os.path.join(self.mod, "go.mod"), "w") as f:
            f.write("module labmod\n\ngo 1.22.1\n\nrequire go.uber.org/thriftrw v0.0.0\n\nreplace go.uber.org/thriftrw => %s\n" % vlib.REPO)
        shutil.copy(os.path.join(vlib.REPO, "go.sum"), os.path.join(self.mod, "go.sum"))

    def generate(self, k, files, root_file, runs):
        """files: {relative path: text}; runs: list of (flags, file) invocations (all must succeed).
        Returns dict(accepted, rc, out, crashed, compile_rejected)."""
        idl = os.path.join(self.mod, "idl", "p%d" % k)
        for rel, text in files.items():
            os.makedirs(os.path.dirname(os.path.join(idl, rel)), exist_ok=True)
            with open(os.path.join(idl, rel), "w") as f:
                f.write(text)
        gen = os.path.join(self.mod, "gen", "p%d" % k)
        res = {"accepted": True, "rc": 0, "out": "", "crashed": False, "compile_rejected": False}
        for flags, rel in runs:
            flags = list(flags)
            root = ["--thrift-root", idl]
            if "--DEFAULT-THRIFT-ROOT" in flags:          # let the tool find the common ancestor of the files itself
                flags.remove("--DEFAULT-THRIFT-ROOT")
                root = []
            rc, out = vlib.run([self.thriftrw, "--out", gen, "--pkg-prefix", "labmod/gen/p%d" % k] + root +
                               ["--no-version-check"] + flags + [os.path.join(idl, rel)], cwd=self.mod, timeout=120)
            if rc != 0:
                res.update(accepted=False, rc=rc, out=out[-1500:])
                res["crashed"] = rc not in (0, 1) or "panic:" in out or "goroutine " in out or "runtime error" in out
                res["compile_rejected"] = "Failed to compile" in out
                shutil.rmtree(gen, ignore_errors=True)
                break
        return res

    def build(self):
        """go build ./... over everything generated; returns {package dir 'pN': error text}"""
        rc, out = vlib.run(["go", "build", "./..."], cwd=self.mod, env=vlib.env_go(), timeout=3000)
        bad = {}
        cur = None
        for line in out.splitlines():
            m = re.match(r"^# labmod/gen/(p\d+)", line)
            if m:
                cur = m.group(1)
                bad.setdefault(cur, "")
                continue
            m = re.match(r"^gen/(p\d+)/", line) or re.search(r"labmod/gen/(p\d+)", line)
            if m:
                cur = m.group(1)
            if cur is not None:
                bad[cur] = (bad.get(cur, "") + line + "\n")[-1500:]
            elif line.strip():
                bad.setdefault("?", "")
                bad["?"] += line + "\n"
        if rc != 0 and not bad:
            raise vlib.Inconclusive("go build failed without attributable output:\n" + out[-2000:])
        if "?" in bad:
            raise vlib.Inconclusive("go build printed output that cannot be attributed to a program:\n" + bad["?"][-2000:])
        return bad

    def names(self, drv):
        obs = os.path.join(self.mod, "names.ndjson")
        vlib.run([drv, "c06names", "-root", os.path.join(self.mod, "gen"), "-out", obs], timeout=600, check=True)
        res = {}
        for r in vlib.read_ndjson(obs):
            top = r["dir"].split("/")[0]
            res.setdefault(top, []).append(r)
        return res


def run_programs(ctx, drv, programs, name):
    """programs: list of dict(id, kind, files, runs, primary (dir of the root package under gen/pN), + echoed fields)."""
    lab = Lab(ctx, name)
    with concurrent.futures.ThreadPoolExecutor(max_workers=vlib.NCPU) as ex:
        gens = list(ex.map(lambda kp: lab.generate(kp[0], kp[1]["files"], None, kp[1]["runs"]), enumerate(programs)))
    bad = lab.build()
    names = lab.names(drv)
    rows = []
    for k, (p, g) in enumerate(zip(programs, gens)):
        key = "p%d" % k
        row = {kk: v for kk, v in p.items() if kk not in ("files", "runs")}
        pk = [r for r in names.get(key, []) if r["dir"] == key + "/" + p["primary"]]
        row.update(op="c06", accepted=g["accepted"], crashed=g["crashed"], compile_rejected=g["compile_rejected"], gen_out=g["out"],
                   built=g["accepted"] and key not in bad, build_out=bad.get(key, ""),
                   names=pk[0]["names"] if pk else [], methods=pk[0]["methods"] if pk else [],
                   syntax=" ".join(r["syntax"] for r in names.get(key, []) if r["syntax"]))
        rows.append(row)
    return rows


def names_cases(ctx):
    cfg = open(os.path.join(vlib.SPECS, "MCGoNames.cfg")).read()
    emod, imod = (400, 30) if ctx.quick() else (12, 1)
    main = cfg.replace("EmitMod = 1", "EmitMod = %d" % emod).replace("IntMod = 1", "IntMod = %d" % imod)
    main = main.replace("EmitPick = 0", "EmitPick = %d" % (ctx.seed % (emod * imod)))
    main = main.replace("INVARIANTS AcceptedBuilds SafeAccepted", "INVARIANTS AcceptedBuilds SafeAccepted EmitCase")
    r = vlib.model_check(ctx, "MCGoNames", main, timeout=3000)
    neg = vlib.tlc(ctx, "MCGoNames", cfg.replace("Repaired = TRUE", "Repaired = FALSE"), timeout=1200, allow_error=True)
    if "Invariant AcceptedBuilds is violated" not in neg["out"]:
        raise vlib.Inconclusive("negative control failed: the pinned reservations do not violate AcceptedBuilds")
    ctx.notes.append("negative control: the generator as pinned (MarshalLogObject, ErrorName, MethodName, EnvelopeType not reserved) "
                     "violates AcceptedBuilds")
    progs = []
    for k, c in enumerate(parse_cases(r["out"])):
        opts = OPTION_SETS[(k * 7 + ctx.seed) % len(OPTION_SETS)]
        progs.append({"id": "n%d" % k, "kind": "names", "fam": c["fam"], "defs": c["defs"], "opts": opts, "o": optrec(opts),
                      "expect": "", "primary": "dep" if c["defs"][0].get("cross") else "prog", "shadow": False,
                      "files": render_names_program(c["defs"]), "runs": [(opts, "prog.thrift")]})
    if not progs:
        raise vlib.Inconclusive("MCGoNames printed no cases")
    return progs


# ---- valid-program shapes (MCGoShapes) ---------------------------------------
PRELUDE = """enum E { A = 1, B = 2 }
struct P { 1: required i32 x, 2: optional string s }
typedef E TE
typedef P TP
typedef i32 TI
typedef string TS
typedef list<i32> TL
typedef map<string, i32> TM
typedef binary TB
typedef TP TTP
typedef set<string> TSet
typedef TI TTI
typedef TS TTS
typedef TE TTE
typedef TL TTL
typedef double TD
typedef TD TTD
typedef bool TBo
typedef TBo TTBo
"""
LEAF_VAL = {"bool": "true", "i8": "7", "i16": "7", "i32": "7", "i64": "7", "double": "1.5", "string": '"s"', "binary": '"b"', "E": "E.A", "P": '{"x": 1}',
            "TE": "E.B", "TP": '{"x": 2, "s": "t"}', "TI": "7", "TS": '"s"', "TL": "[1, 2]", "TM": '{"k": 1}', "TB": '"b"', "TTP": '{"x": 3}',
            "TSet": '["a"]', "TTI": "7", "TTS": '"s"', "TTE": "E.A", "TTL": "[3]", "TTD": "2.5", "TTBo": "true"}


def ty_text(t):
    if t["k"] == "leaf":
        return t["n"]
    if t["k"] == "map":
        return "map<%s, %s>" % (t["a"], t["b"])
    return "%s<%s>" % (t["k"], t["a"])


def ty_val(t):
    if t["k"] == "leaf":
        return LEAF_VAL[t["n"]]
    if t["k"] == "map":
        return "{%s: %s}" % (LEAF_VAL[t["a"]], LEAF_VAL[t["b"]])
    return "[%s]" % LEAF_VAL[t["a"]]


def render_shape(c):
    t, v, pos = ty_text(c["ty"]), ty_val(c["ty"]), c["pos"]
    body = {
        "const": "const %s c = %s\n" % (t, v),
        "optdefault": "struct S { 1: optional %s f = %s }\n" % (t, v),
        "reqdefault": "struct S { 1: required %s f = %s }\n" % (t, v),
        "optplain": "struct S { 1: optional %s f }\nunion U { 1: %s f }\n" % (t, t),
        "reqplain": "struct S { 1: required %s f }\nexception X { 1: required %s f }\n" % (t, t),
        "typedefconst": "typedef %s TX\nconst TX c = %s\nconst list<TX> cs = [%s]\n" % (t, v, v),
        "typedefdefault": "typedef %s TX\nstruct S { 1: optional TX f = %s, 2: required TX g = %s }\n" % (t, v, v),
        "param": "service V { void f(1: %s a, 2: optional %s b = %s) }\n" % (t, t, v),
        "return": "exception X { 1: optional %s f }\nservice V { %s f() throws (1: X x) }\n" % (t, t),
        "optredact": "struct S { 1: optional %s f (go.redact) }\nexception X { 1: required %s f (go.redact) }\n" % (t, t),
        "reqredact": "struct S { 1: required %s f (go.redact), 2: optional i32 n }\nunion U { 1: %s f (go.redact) }\n" % (t, t),
        "optnolog": "struct S { 1: optional %s f (go.nolog) }\nunion U { 1: %s f (go.nolog) }\n" % (t, t),
        "reqnolog": "struct S { 1: required %s f (go.nolog) }\n" % t,
        "paramredact": "service V { void f(1: %s a (go.redact), 2: required %s b (go.nolog)) }\n" % (t, t),
    }[pos]
    return prelude_for(body) + body


PRELUDE_DEPS = {"TE": ["E"], "TP": ["P"], "TTP": ["TP"], "TTI": ["TI"], "TTS": ["TS"], "TTE": ["TE"], "TTL": ["TL"], "TTD": ["TD"], "TTBo": ["TBo"]}


def prelude_for(body):
    """the definitions of PRELUDE the body refers to, and what those refer to: nothing else is in the file, so that
    whatever the body's types need (imports, helpers) is not provided by a bystander"""
    need, todo = set(), [n for n in ("E", "P", "TE", "TP", "TI", "TS", "TL", "TM", "TB", "TTP", "TSet", "TTI", "TTS", "TTE", "TTL", "TD", "TTD", "TBo", "TTBo") if re.search(r"\b%s\b" % n, body)]
    while todo:
        n = todo.pop()
        if n not in need:
            need.add(n)
            todo += PRELUDE_DEPS.get(n, [])
    out = []
    for line in PRELUDE.splitlines():
        name = line.split()[-1] if line.startswith("typedef") else line.split()[1]
        if name in need:
            out.append(line)
    return "\n".join(out) + ("\n" if out else "")


def shape_cases(ctx):
    cfg = open(os.path.join(vlib.SPECS, "MCGoShapes.cfg")).read()
    mod = 6 if ctx.quick() else 1
    r = vlib.model_check(ctx, "MCGoShapes", cfg.replace("EmitMod = 1", "EmitMod = %d" % mod).replace("EmitPick = 0", "EmitPick = %d" % (ctx.seed % mod)),
                         timeout=900)
    progs = []
    for k, c in enumerate(parse_cases(r["out"])):
        opts = OPTION_SETS[(k * 5 + ctx.seed) % len(OPTION_SETS)]
        progs.append({"id": "s%d" % k, "kind": "shape", "fam": c["pos"], "defs": [], "opts": opts, "o": optrec(opts), "expect": "accept",
                      "primary": "prog", "shadow": False, "shape": {"pos": c["pos"], "ty": ty_text(c["ty"])},
                      "files": {"prog.thrift": render_shape(c)}, "runs": [(opts, "prog.thrift")]})
    if not progs:
        raise vlib.Inconclusive("MCGoShapes printed no cases")
    return progs


# ---- hand-written shape families: packages and files, annotations, enums, functions, split generation --------
FILE_NAMES = ["fmt", "strings", "wire", "errors", "bytes", "math", "strconv", "base64", "json", "zapcore", "multierr", "stream", "thriftreflect",
              "ptr", "time", "error", "int8", "int16", "int32", "int64", "float64", "len", "nil", "append", "make", "panic", "any", "copy", "cap", "uint8",
              "iota", "rune", "zap", "thriftrw", "v", "err", "x", "i", "key", "value", "fields", "text", "count", "field", "ok", "s", "n", "a-b", "a_b", "foo-go", "x.y", "UPPER", "prog2", "types", "constants", "idl"]
# names of local variables in the generator's templates (newVar "..." and err): an import alias equal to one of them is shadowed
TEMPLATE_LOCALS = {"v", "x", "o", "i", "w", "sr", "rhs", "k", "enc", "sw", "lhs", "val", "ok", "m", "s", "rv", "n", "lv", "f", "count", "y", "value", "sh", "mh",
                   "lk", "lh", "l", "fields", "vw", "text", "t", "rk", "kw", "key", "j", "field", "fh", "d", "err"}
BAD_PACKAGE_NAMES = ["type", "func", "go", "1st", "range", "import", "init", "main"]


def mk(pid, fam, files, runs, expect, primary="prog", opts=()):
    return {"id": pid, "kind": "shape", "fam": fam, "defs": [], "opts": list(opts), "o": optrec(list(opts)), "expect": expect, "primary": primary,
            "shape": {}, "files": files, "runs": runs, "shadow": fam.startswith("include-") and fam[len("include-"):] in TEMPLATE_LOCALS}


def family_cases(ctx):
    progs = []
    n = 0

    def add(fam, files, expect="accept", runs=None, primary="prog", opts=()):
        nonlocal n
        n += 1
        progs.append(mk("f%d" % n, fam, files, runs or [(list(opts), "prog.thrift")], expect, primary, opts))
    inc_body = "struct Item { 1: optional i32 x }\nenum Kind { A, B }\nconst i32 K = 1\ntypedef list<Item> Items\nexception Oops {}\nservice Base { void ping() }\n"
    user = ('include "./sub/%s.thrift"\nstruct Use { 1: optional %s.Item i, 2: optional %s.Kind k = %s.Kind.A, 3: optional %s.Items l }\n'
            'const i32 K2 = %s.K\nservice Svc extends %s.Base { %s.Item get(1: %s.Item i) throws (1: %s.Oops o) }\n')
    for name in FILE_NAMES:
        if re.match(r"^[A-Za-z_][A-Za-z0-9_]*$", name):        # an include is referred to by its file name, which must then be an identifier
            add("include-" + name, {"prog.thrift": user.replace("%s", name), "sub/%s.thrift" % name: inc_body})
        # the included file's name as the root's own name, and as a type / field name next to the import
        add("rootname-" + name, {name + ".thrift": "struct Fmt { 1: optional string strings, 2: optional i32 errors, 3: optional binary bytes }\n"
                                                   "const string wire = \"w\"\nservice S { string fmt(1: string fmt, 2: i32 wire) }\n"},
            runs=[([], name + ".thrift")], primary=name, expect="accept" if re.match(r"^[A-Za-z_][A-Za-z0-9_-]*$", name) else "any")
    for name in BAD_PACKAGE_NAMES:
        add("badpkg-" + name, {name + ".thrift": "struct S { 1: optional i32 x }\n"}, expect="any", runs=[([], name + ".thrift")], primary=name)
        add("badinc-" + name, {"prog.thrift": 'include "./%s.thrift"\nstruct U { 1: optional %s.S s }\n' % (name, name),
                               name + ".thrift": "struct S { 1: optional i32 x }\n"}, expect="any")
    # same base name in two directories, diamond includes, include depth 2
    add("samebase", {"prog.thrift": 'include "./a/x.thrift"\ninclude "./b/y.thrift"\nstruct U { 1: optional x.S a, 2: optional y.T b }\n',
                     "a/x.thrift": "struct S { 1: optional i32 v }\n",
                     "b/y.thrift": 'include "./x.thrift"\nstruct T { 1: optional x.S2 s }\n', "b/x.thrift": "struct S2 { 1: optional i32 v }\n"})
    # N includes defining types of one name, all used in containers of the root (helper names _List_Foo_, _List_Foo_1_, ...)
    for name in ("Foo", "String", "I32"):
        for k in (2, 3, 5):
            fs = {"t%d.thrift" % i: "struct %s { 1: optional i32 v%d }\nenum K { A = %d }\ntypedef list<%s> L\n" % (name, i, i, name) for i in range(k)}
            root = "".join('include "./t%d.thrift"\n' % i for i in range(k))
            root += "struct Root {\n" + "".join("  %d: optional list<t%d.%s> a%d\n  %d: optional map<string, t%d.%s> b%d\n  %d: optional set<t%d.K> c%d\n  %d: optional list<t%d.L> d%d\n"
                                                % (4 * i + 1, i, name, i, 4 * i + 2, i, name, i, 4 * i + 3, i, i, 4 * i + 4, i, i) for i in range(k)) + "}\n"
            fs["prog.thrift"] = root
            add("samename-%s-%d" % (name, k), fs)
    # a user type named like the helper-name stem of a native type, used in the same container / pointer shapes as that type
    native = {"Bool": "bool", "Byte": "byte", "I8": "i8", "I16": "i16", "I32": "i32", "I64": "i64", "Double": "double", "String": "string", "Binary": "binary"}
    for gname, tname in sorted(native.items()):
        for kind, decl in (("typedef", "typedef %s %s\n" % (tname, gname)), ("enum", "enum %s { A = 1 }\n" % gname), ("struct", "struct %s { 1: optional i32 v }\n" % gname)):
            key = "string" if kind == "struct" or tname in ("double", "binary") else gname
            body = decl + ("struct Packet {\n  1: optional %s a\n  2: optional %s b\n  3: optional list<%s> c\n  4: optional list<%s> d\n"
                           "  5: optional map<string, %s> e\n  6: optional map<string, %s> f\n  7: optional map<%s, i32> g\n}\n"
                           % (tname, gname, tname, gname, tname, gname, key))
            add("nativename-%s-%s" % (gname, kind), {"prog.thrift": body})
    # enum items that share a value and carry labels: whatever is accepted has to build (one switch case per label)
    add("enum-dupvalue-label-clash", {"prog.thrift": 'enum Shape { CIRCLE = 1, SQUARE = 2, ROUND = 1 (go.label = "CIRCLE") }\n'}, expect="any")
    add("enum-dupvalue-label-clash-2", {"prog.thrift": 'enum Shape { CIRCLE = 1 (go.label = "round"), SQUARE = 2, ROUND = 2 (go.label = "round") }\n'}, expect="any")
    add("enum-dupvalue-label-distinct", {"prog.thrift": 'enum E { A = 1, B = 1 (go.label = "BEE"), C = 2 }\nstruct S { 1: optional E e = E.B }\n'})
    add("enum-label-clash", {"prog.thrift": 'enum E { A = 1, B = 2 (go.label = "A") }\n'}, expect="any")
    add("enum-label-same-as-own-name", {"prog.thrift": 'enum E { A = 1 (go.label = "A"), B = 2 (go.label = "b") }\n'})
    add("field-label-clash", {"prog.thrift": 'struct S { 1: optional i32 a (go.label = "x"), 2: optional i32 b (go.label = "x") }\n'}, expect="any")
    # service inheritance across files where each file includes only its parent's file
    add("svc-chain-4-files", {"prog.thrift": 'include "./mid.thrift"\nservice Top extends mid.Mid { void top(1: i32 a) }\n',
                              "mid.thrift": 'include "./sub/low.thrift"\nstruct MidArg { 1: optional i32 x }\nservice Mid extends low.Low { MidArg mid(1: MidArg a) }\n',
                              "sub/low.thrift": 'include "../base.thrift"\nservice Low extends base.Base { oneway void low() }\n',
                              "base.thrift": "exception Oops { 1: optional string m }\nservice Base { void ping() throws (1: Oops o) }\n"})
    add("diamond", {"prog.thrift": 'include "./l.thrift"\ninclude "./r.thrift"\nstruct U { 1: optional l.L a, 2: optional r.R b }\n',
                    "l.thrift": 'include "./base.thrift"\nstruct L { 1: optional base.B b }\n',
                    "r.thrift": 'include "./base.thrift"\nstruct R { 1: optional base.B b, 2: optional list<base.B> bs = [{"v": 1}] }\n',
                    "base.thrift": "struct B { 1: optional i32 v }\n"})
    add("rootbelow", {"deep/er/prog.thrift": 'include "../../top.thrift"\nstruct U { 1: optional top.T t }\n', "top.thrift": "struct T { 1: optional i32 v }\n"},
        runs=[([], "deep/er/prog.thrift")], primary="deep/er/prog")
    # no --thrift-root: the root is the deepest common ancestor of all files, also when one directory name is a string
    # prefix of a sibling's (api / api_v2), in both directions, and when the root file is the deepest or the shallowest one
    for a, b in (("api", "api_v2"), ("api_v2", "api"), ("common", "common2"), ("v1", "v10"), ("v10", "v1"), ("x", "y")):
        add("ancestor-%s-%s" % (a, b), {"%s/prog.thrift" % a: 'include "../%s/types.thrift"\nstruct U { 1: optional types.T t }\nservice S { types.T get() }\n' % b,
                                        "%s/types.thrift" % b: "struct T { 1: optional i32 v }\n"},
            runs=[(["--DEFAULT-THRIFT-ROOT"], "%s/prog.thrift" % a)], primary="%s/prog" % a)
    add("ancestor-deep", {"a/b/c/prog.thrift": 'include "../../types.thrift"\ninclude "../c2/more.thrift"\nstruct U { 1: optional types.T t, 2: optional more.M m }\n',
                          "a/types.thrift": "struct T { 1: optional i32 v }\n", "a/b/c2/more.thrift": "struct M { 1: optional i32 v }\n"},
        runs=[(["--DEFAULT-THRIFT-ROOT"], "a/b/c/prog.thrift")], primary="b/c/prog")
    add("ancestor-single", {"only/prog.thrift": "struct U { 1: optional i32 v }\n"}, runs=[(["--DEFAULT-THRIFT-ROOT"], "only/prog.thrift")], primary="prog")
    # names made of underscores only, empty go.name: an error or a result, never a crash
    for k, body in enumerate(["struct _ { 1: optional i32 v }\n", "struct __ { 1: optional i32 v }\n", "service _ { void ping() }\n", "service S { void _() }\n",
                              "service S { void f(1: i32 _) }\n", "struct S { 1: optional i32 _ }\n", "enum _ { A }\n", "enum E { _ }\n", "typedef i32 _\n", "const i32 _ = 1\n",
                              'struct Foo { 1: optional string bar } (go.name = "")\n', 'service S { void f(1: string a (go.name = "")) }\n',
                              'struct Foo { 1: optional string bar (go.name = "") }\n', 'enum E { A (go.name = "") }\n', 'typedef i32 T (go.name = "")\n',
                              'struct Foo {} (go.name = "__")\n', 'union _u_ { 1: i32 _a_ }\nexception __x { 1: optional i32 a__ }\n']):
        add("underscore-%d" % k, {"prog.thrift": body}, expect="any")
    # set constants that list an item twice (directly, through a constant, as enum item by name and by value)
    add("set-dup-items", {"prog.thrift": 'const set<string> s = ["a", "b", "a"]\n'}, expect="any")
    add("set-dup-default", {"prog.thrift": "struct S { 1: optional set<i32> f = [3, 1, 3] }\n"}, expect="any")
    add("set-dup-enum", {"prog.thrift": "enum E { A = 1, B = 2 }\nconst set<E> s = [E.A, 1, E.B]\n"}, expect="any")
    add("set-dup-ref", {"prog.thrift": "const i32 one = 1\nconst set<i32> s = [one, 1]\n"}, expect="any")
    add("map-dup-keys", {"prog.thrift": 'const map<string, i32> m = {"a": 1, "a": 2}\nstruct S { 1: optional map<i32, string> f = {1: "x", 1: "y"} }\n'}, expect="any")
    add("set-dup-unhashable", {"prog.thrift": "const set<list<i32>> s = [[1], [1]]\n"}, expect="any")
    # enums
    add("enum-dup-values", {"prog.thrift": "enum E { A = 1, B = 1, C = 2 }\nstruct S { 1: optional E e = E.C }\n"})
    add("enum-dup-values-2", {"prog.thrift": "enum E { A = 0, B = 0, C = 0, D = 5, F = 5, G = 7 }\nconst E c = E.G\n"})
    add("enum-empty", {"prog.thrift": "enum E { }\nstruct S { 1: optional E e }\n"})
    add("enum-negative", {"prog.thrift": "enum E { A = -1, B = 2147483647, C = -2147483648 }\nconst E c = E.C\n"})
    add("enum-labels", {"prog.thrift": 'enum E { A (go.label = "first"), B (go.label = "second") }\n'})
    add("enum-label-clash", {"prog.thrift": 'enum E { A (go.label = "x"), B (go.label = "x") }\n'}, expect="any")
    add("enum-keyword-items", {"prog.thrift": "enum E { type, func, range, select, chan, go, defer, fallthrough }\nconst E c = E.func\n"})
    # annotations
    add("goname", {"prog.thrift": 'struct s1 { 1: optional i32 f (go.name = "Renamed") } (go.name = "Structure")\n'
                                  'enum e1 { a (go.name = "First") } (go.name = "Enumeration")\ntypedef i32 t1 (go.name = "Number")\n'
                                  'const e1 c = e1.a\nconst s1 d = {"f": 1}\nconst t1 n = 1\n'})
    add("goname-lower", {"prog.thrift": 'struct S { 1: optional i32 f (go.name = "lower") }\n'}, expect="any")
    add("goname-underscore", {"prog.thrift": 'struct S { 1: optional i32 f (go.name = "With_Underscore") }\n'}, expect="any")
    add("goname-clash", {"prog.thrift": 'struct S { 1: optional i32 a (go.name = "Same"), 2: optional i32 b (go.name = "Same") }\n'}, expect="any")
    add("goname-keyword", {"prog.thrift": 'struct S { 1: optional i32 a (go.name = "String") }\n'}, expect="any")
    add("goname-type-clash", {"prog.thrift": 'struct A {} (go.name = "Same")\nstruct B {} (go.name = "Same")\n'}, expect="any")
    add("goname-nonident", {"prog.thrift": 'struct S { 1: optional i32 a (go.name = "Has Space") }\n'}, expect="any")
    add("goname-nonident-2", {"prog.thrift": 'struct S {} (go.name = "A-B")\n'}, expect="any")
    add("goname-nonident-3", {"prog.thrift": 'enum E { A (go.name = "X.Y") }\n'}, expect="any")
    add("gotag", {"prog.thrift": 'struct S { 1: optional i32 a (go.tag = \'json:"-" xml:"a,omitempty"\'), 2: required string b (go.tag = "foo:\\"bar\\"") }\n'})
    add("gotag-bad", {"prog.thrift": 'struct S { 1: optional i32 a (go.tag = "`") }\n'}, expect="any")
    add("golabel", {"prog.thrift": 'struct S { 1: optional i32 a (go.label = "alpha"), 2: optional i32 b (go.label = "beta") }\n'})
    add("golabel-clash", {"prog.thrift": 'struct S { 1: optional i32 a (go.label = "x"), 2: optional i32 b (go.label = "x") }\n'}, expect="any")
    add("golabel-quote", {"prog.thrift": 'struct S { 1: optional i32 a (go.label = "has\\"quote") }\nenum E { A (go.label = "has\\"quote") }\n'}, expect="any")
    # a typedef named like the included enum (or struct) it stands for: constants and defaults of the typedef type written as
    # items of the enum are values of ANOTHER Go type and need the conversion
    add("alias-named-like-included-enum", {"prog.thrift": 'include "./common/colors.thrift"\ntypedef colors.Color Color\ntypedef colors.Box Box\n'
                                                          'const Color DEFAULT_COLOR = colors.Color.GREEN\nconst list<Color> ALL = [colors.Color.RED, 2]\n'
                                                          'const map<Color, Color> NEXT = {colors.Color.RED: colors.Color.GREEN}\n'
                                                          'struct Bucket { 1: optional Color color = colors.Color.RED, 2: required Color second = 2, 3: optional Box box = {"w": 1} }\n',
                                           "common/colors.thrift": "enum Color { RED = 1, GREEN = 2 }\nstruct Box { 1: optional i32 w }\n"})
    add("gotype-slice", {"prog.thrift": 'struct S { 1: optional set<string> (go.type = "slice") a, 2: optional set<P> (go.type = "slice") b = [{"x": 1}] }\n'
                                        'struct P { 1: optional i32 x }\ntypedef set<binary> (go.type = "slice") BS\nstruct Q { 1: optional BS bs }\n'})
    add("redact", {"prog.thrift": 'struct S { 1: optional string a (go.redact), 2: required list<string> b (go.redact), 3: optional P p (go.nolog) }\n'
                                  'struct P { 1: optional i32 x }\nexception X { 1: optional string why (go.redact) }\n'})
    add("validate-annotations", {"prog.thrift": 'struct S { 1: optional i32 a (validate = "x", foo.bar = "y", empty) } (cpp.name = "x")\n'})
    # functions
    add("throws-success", {"prog.thrift": "exception X {}\nservice V { i32 f() throws (1: X success) }\n"}, expect="any")
    add("throws-methodname", {"prog.thrift": "exception X {}\nservice V { i32 f() throws (1: X method_name, 2: X envelope_type) }\n"}, expect="any")
    add("throws-void-success", {"prog.thrift": "exception X {}\nservice V { void f() throws (1: X success) }\n"}, expect="any")
    add("oneway", {"prog.thrift": "service V { oneway void f(1: i32 a), void g(), i32 h(1: optional i32 type, 2: i32 func) }\n"})
    add("service-names", {"prog.thrift": "service string_service { void to_wire(1: i32 tw), void String(), void error() }\nservice Error extends string_service {}\n"})
    add("param-reserved", {"prog.thrift": "service V { void f(1: i32 to_wire) }\n"}, expect="any")
    add("func-meets-func", {"prog.thrift": "service V { void foo_bar(), void fooBar() }\n"}, expect="any")
    add("inherit-cross-file", {"prog.thrift": 'include "./base.thrift"\nservice V extends base.Base { void f() }\n', "base.thrift": "service Base { void ping() }\n"})
    # helper names derived from type names (mangler), go.name on parameters and declared exceptions
    add("mangle-string", {"prog.thrift": "struct String { 1: optional i32 x }\nstruct S { 1: optional list<String> a, 2: optional list<string> b }\n"}, expect="any")
    add("mangle-i32", {"prog.thrift": "struct I32 { 1: optional i32 x }\nstruct S { 1: optional set<I32> a, 2: optional set<i32> b, 3: optional map<I32, I32> c, 4: optional map<i32, i32> d }\n"},
        expect="any")
    add("mangle-cross", {"prog.thrift": 'include "./dep.thrift"\nstruct Item { 1: optional i32 x }\nstruct S { 1: optional list<Item> a, 2: optional list<dep.Item> b }\n',
                         "dep.thrift": "struct Item { 1: optional string y }\n"})
    add("goname-param", {"prog.thrift": 'service V { i32 f(1: i32 a (go.name = "Renamed"), 2: optional string b (go.name = "Other")) }\n'}, expect="any")
    add("goname-throws", {"prog.thrift": 'exception X {}\nservice V { i32 f() throws (1: X x (go.name = "Failure")) }\n'}, expect="any")
    # a struct that looks like generated code
    add("helper-like", {"prog.thrift": "struct Default_S {}\nstruct S { 1: optional i32 a = 1 }\nstruct E_Values {}\nenum E { A }\nstruct V_F_Args {}\nservice V { void f() }\n"},
        expect="any")
    add("underscore-helpers", {"prog.thrift": "struct _List_I32_Encode {}\nstruct S { 1: optional list<i32> a, 2: optional _List_I32_Encode b }\n"}, expect="any")
    add("typedef-chain-names", {"prog.thrift": "typedef list<i32> List_I32\ntypedef list<List_I32> Outer\nstruct S { 1: optional list<list<i32>> a, 2: optional Outer b }\n"})
    add("many-containers", {"prog.thrift": "struct S { 1: optional map<string, list<set<i32>>> a = {\"k\": [[1]]}, 2: optional list<map<i32, list<string>>> b, "
                                           "3: optional set<list<i32>> c, 4: optional map<list<string>, set<binary>> d }\n"})
    add("self-ref", {"prog.thrift": "struct Node { 1: optional Node nxt, 2: optional list<Node> kids, 3: optional map<string, Node> m }\nunion U { 1: U u, 2: i32 i }\n"})
    add("keyword-everywhere", {"prog.thrift": "struct type { 1: optional i32 func, 2: optional i32 range, 3: optional i32 select, 4: optional i32 v, 5: optional i32 err, 6: optional i32 i }\n"
                                              "const i32 go = 1\nconst i32 chan = 2\ntypedef i32 fallthrough\nenum struct_ { const_ }\nservice defer { void fallthrough(1: i32 chan, 2: i32 go) }\n"})
    add("local-var-names", {"prog.thrift": "struct S { 1: required i32 v, 2: required i32 err, 3: required i32 w, 4: required i32 sr, 5: required i32 sw, 6: required i32 fields, "
                                           "7: required i32 i, 8: required i32 x, 9: required i32 rhs, 10: required i32 enc, 11: required list<i32> o }\n"})
    # option sets that split generation (the intended use of these flags): together they must build
    full = ("enum E { A }\nstruct P { 1: optional i32 x, 2: optional E e = E.A }\nconst P c = {\"x\": 1}\nconst list<E> es = [E.A]\n"
            "service V { P f(1: P p) }\n")
    add("split-types-constants", {"prog.thrift": full}, runs=[(["--no-constants"], "prog.thrift"), (["--no-types"], "prog.thrift")])
    add("no-types-only", {"prog.thrift": "const i32 c = 1\nconst string s = \"x\"\nconst list<i32> l = [1]\n"}, runs=[(["--no-types"], "prog.thrift")])
    inc = {"prog.thrift": 'include "./dep.thrift"\nstruct U { 1: optional dep.D d = {"v": 1} }\nservice V extends dep.Base { dep.D f() }\n',
           "dep.thrift": "struct D { 1: optional i32 v }\nservice Base { void ping() }\n"}
    add("no-recurse-both", inc, runs=[(["--no-recurse"], "prog.thrift"), (["--no-recurse"], "dep.thrift")])
    add("output-file", inc, runs=[(["--output-file", "out.go"], "prog.thrift"), (["--no-recurse"], "dep.thrift")])
    add("all-off", {"prog.thrift": full}, opts=["--no-zap", "--no-embed-idl", "--no-service-helpers", "--no-constants", "--enum-text-marshal-strict"])
    return progs


def run(ctx):
    drv = vlib.build_harness(ctx)
    if ctx.replay:
        rep = json.load(open(ctx.replay))
        progs = [rep["case"]]
    else:
        progs = names_cases(ctx) + shape_cases(ctx) + family_cases(ctx)
    rows = run_programs(ctx, drv, progs, "names")
    ctx.evals = len(rows)
    bycase = {p["id"]: p for p in progs}
    bad, drift = vlib.validate_trace(ctx, "C06Trace", rows, canary=canary, shard=300, timeout=3000)
    for row, why in bad:
        p = bycase[row["id"]]
        r = dict(row)
        r["_class"] = "import-alias-meets-template-local" if why == ["KNOWN-CLASS-import-alias-meets-a-template-local"] else "other"
        vlib.report_failure(ctx, r, {"failed": why, "id": row["id"], "thrift": p["files"], "opts": row["opts"], "gen_out": row["gen_out"][-600:],
                                     "build_out": row["build_out"][-600:]}, case=p)
    import collections
    dcls = collections.Counter(tuple(w) for _, w in drift)
    for k, n in dcls.items():
        vlib.log("drift class %s x%d" % (list(k), n))
    for row, why in drift:
        ctx.drift.append({"id": row["id"], "thrift": bycase[row["id"]]["files"], "opts": row["opts"], "accepted": row["accepted"], "built": row["built"],
                          "gen_out": row["gen_out"][-300:], "model_predicates": why})
    ctx.cov["programs"] = len(rows)
    ctx.cov["accepted"] = sum(1 for r in rows if r["accepted"])
    ctx.cov["rejected_by_generator"] = sum(1 for r in rows if not r["accepted"] and not r["compile_rejected"])
    ctx.cov["rejected_by_compiler"] = sum(1 for r in rows if r["compile_rejected"])
    ctx.cov["built"] = sum(1 for r in rows if r["built"])
    return vlib.finish(ctx, "programs = the naming model's program shapes (sampled) x CLI option sets; verdicts on compilation from go build",
                       exhaustive=False)
