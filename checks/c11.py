"""C11 -- the parser is total and returns a faithful AST with true positions.

Role A: MCLexer.tla explores the scanner's position / docstring bookkeeping and the
moments the grammar reads it over every layout of token skeletons; MCQuote.tla the
two unquoting routines over every escape sequence.  Role B: the layouts and literals
the models reach, rendered to documents by the independent pretty-printer
(lib/idlgen.py), plus random full-grammar documents and raw / token-mutated bytes.
Role C: C11Trace.tla recomputes, from the document's script, the position and
docstring of every node (truth and scanner model) and compares them, the tree and the
ast.Walk sequence with what the real parser returned."""
import base64, json, os, random
import vlib, idlgen


def canary(row, rng):
    if row.get("kind") != "script" or not row.get("ok") or len(row["nodes"]) < 2:
        return None
    i = rng.randrange(1, len(row["nodes"]))
    row["nodes"][i]["c"] += 1
    return row


def mutate(data, rng):
    b = bytearray(data)
    for _ in range(rng.choice([1, 1, 2, 3])):
        c = rng.random()
        pos = rng.randrange(0, len(b) + 1)
        if c < 0.3 and b:
            del b[min(pos, len(b) - 1)]
        elif c < 0.6:
            b[pos:pos] = rng.choice([b"{", b"}", b"(", b"\"", b"'", b"/*", b"/**", b"*/", b"\n", b"\\", b"struct ", b"if ", b"0x", b"\x00", b"\xff", b"=", b"1e", b"<"])
        elif b:
            b[min(pos, len(b) - 1)] = rng.randrange(256)
    return bytes(b)


def bytes_case(data, cid):
    return {"id": cid, "kind": "bytes", "b64": base64.b64encode(data).decode(), "linelens": idlgen.linelens(data),
            "emptybc": idlgen.has_emptybc(data)}


def run(ctx):
    rng = random.Random(ctx.seed)
    drv = vlib.build_harness(ctx)
    cases = []
    if ctx.replay:
        rep = json.load(open(ctx.replay))
        cases = [rep["case"]]
    else:
        nrand = 400 if ctx.quick() else 6000
        for i in range(nrand):
            cases.append(idlgen.random_case(ctx.seed * 1000003 + i, "r%d" % i, density=rng.choice([0.2, 0.5, 0.8]),
                                            emptybc_rate=0.3 if i % 25 == 0 else 0.0))
        nb = 1500 if ctx.quick() else 40000
        valid = [c["text"].encode("utf-8") for c in cases if c["kind"] == "script"]
        for i in range(nb):
            if i % 3 == 0:
                data = bytes(rng.randrange(256) for _ in range(rng.randrange(0, 40)))
            else:
                data = mutate(rng.choice(valid), rng)
            cases.append(bytes_case(data, "m%d" % i))
    rows, crashes = vlib.run_driver_batches(ctx, drv, "c11", cases, batch=400, timeout=600)
    for case, how, out in crashes:
        vlib.report_failure(ctx, {"op": "c11", "id": case.get("id"), "_class": "crash"}, {"failed": ["terminates"], "how": how, "out": out[-800:]},
                            case=case)
    ctx.evals = len(rows)
    bycase = {c["id"]: c for c in cases}
    bad, drift = vlib.validate_trace(ctx, "C11Trace", rows, canary=canary, shard=150, timeout=3000)
    known = {"KNOWN-CLASS-position-read-before-the-token": "position-read-before-the-token",
             "KNOWN-CLASS-equal-constants-share-a-position": "equal-constants-share-a-position",
             "KNOWN-CLASS-empty-block-comment-opens-a-docstring": "empty-block-comment-opens-a-docstring"}
    for row, why in bad:
        case = bycase.get(row.get("id"))
        rest = [w for w in why if w not in known]
        for w in why:
            if w in known:
                r = dict(row)
                r["_class"] = known[w]
                vlib.report_failure(ctx, r, {"failed": [w], "id": row.get("id")}, case=case)
        if rest:
            r = dict(row)
            r["_class"] = "other"
            vlib.report_failure(ctx, r, {"failed": rest, "id": row.get("id"), "text": (case or {}).get("text", (case or {}).get("b64")),
                                         "perrs": row.get("perrs"), "panic": row.get("panic")}, case=case)
    for row, why in drift:
        ctx.drift.append({"id": row.get("id"), "model_predicates": why})
    ctx.cov["documents_accepted"] = sum(1 for r in rows if r.get("ok"))
    ctx.cov["documents_rejected"] = sum(1 for r in rows if not r.get("ok"))
    ctx.cov["script_documents"] = sum(1 for r in rows if r.get("kind") == "script")
    ctx.cov["nodes_compared"] = sum(len(r.get("nodes", [])) for r in rows if r.get("kind") == "script")
    return vlib.finish(ctx, "documents = random full-grammar ASTs rendered with random layout; raw and token-mutated bytes", exhaustive=False)
