"""C11 -- the parser is total and returns a faithful AST with true positions.

Role A: MCLexer.tla explores the scanner's position / docstring bookkeeping and the
moments the grammar reads it over every layout of token skeletons; MCQuote.tla the
two unquoting routines over every escape sequence.  Role B: the layouts and literals
the models reach, rendered to documents by the independent pretty-printer
(lib/idlgen.py), plus random full-grammar documents and raw / token-mutated bytes.
Role C: C11Trace.tla recomputes, from the document's script, the position and
docstring of every node (truth and scanner model) and compares them, the tree and the
ast.Walk sequence with what the real parser returned."""
import base64, json, os, random
import vlib, idlgen


def canary(row, rng):
    if row.get("kind") == "lit" and row.get("ok"):
        row["lit"] = row["lit"] + [97]
        return row
    if row.get("kind") != "script" or not row.get("ok") or len(row["nodes"]) < 2:
        return None
    i = rng.randrange(1, len(row["nodes"]))
    row["nodes"][i]["c"] += 1
    return row


def mutate(data, rng):
    b = bytearray(data)
    for _ in range(rng.choice([1, 1, 2, 3])):
        c = rng.random()
        pos = rng.randrange(0, len(b) + 1)
        if c < 0.3 and b:
            del b[min(pos, len(b) - 1)]
        elif c < 0.6:
            b[pos:pos] = rng.choice([b"{", b"}", b"(", b"\"", b"'", b"/*", b"/**", b"*/", b"\n", b"\\", b"struct ", b"if ", b"0x", b"\x00", b"\xff", b"=", b"1e", b"<"])
        elif b:
            b[min(pos, len(b) - 1)] = rng.randrange(256)
    return bytes(b)


def bytes_case(data, cid):
    return {"id": cid, "kind": "bytes", "b64": base64.b64encode(data).decode(), "linelens": idlgen.linelens(data),
            "emptybc": idlgen.has_emptybc(data)}


def unesc(t):
    return t.replace('\\"', '"').replace("\\\\", "\\")


def parse_cases(out):
    res = []
    for line in out.splitlines():
        if line.startswith('<<"CASE", "') and line.endswith('">>'):
            res.append(json.loads(unesc(line[len('<<"CASE", "'):-3])))
    return res


def lexer_model(ctx):
    """Roles A and B for positions / docstrings: MCLexer over skeletons x layouts, with negative controls."""
    count, maxtoks = (10, 14) if ctx.quick() else (18, 18)
    seeds, covered = idlgen.pick_skeletons(count, maxtoks, seed0=ctx.seed * 100000)
    params = []
    for sd in seeds:
        r = random.Random(sd)
        params.append((sd, r.choice([0, 0, 1]), r.choice([1, 1, 2])))
    skels = [idlgen.export_skeleton(idlgen.skeleton(sd, nheaders=nh, ndefs=nd)) for sd, nh, nd in params]

    def stage(name):
        d = ctx.dir(name)
        vlib.write_ndjson(os.path.join(d, "skeletons.ndjson"), skels)
        vlib.write_ndjson(os.path.join(d, "gaps.ndjson"), idlgen.export_gaps())
        return d
    cfg = open(os.path.join(vlib.SPECS, "MCLexer.cfg")).read()
    mod = 40 if ctx.quick() else 200
    main = cfg.replace("EmitMod = 1", "EmitMod = %d" % mod).replace("EmitPick = 0", "EmitPick = %d" % (ctx.seed % mod))
    main = main.replace("DocsOK", "DocsOK EmitCase")
    if not ctx.quick():
        main = main.replace("MaxFancy = 2", "MaxFancy = 3")
    r = vlib.model_check(ctx, "MCLexer", main, workdir=stage("mclexer"), timeout=3000)
    for flag, inv in (("FixTokNl", "PositionsOK"), ("FixDocNl", "DocsOK"), ("FixDocLeak", "DocsOK")):
        neg = vlib.tlc(ctx, "MCLexer", cfg.replace("%s = TRUE" % flag, "%s = FALSE" % flag), workdir=stage("neg_" + flag),
                       timeout=900, allow_error=True)
        if "Invariant %s is violated" % inv not in neg["out"]:
            raise vlib.Inconclusive("negative control failed: %s = FALSE does not violate %s" % (flag, inv))
    neg = vlib.tlc(ctx, "MCLexer", cfg.replace("PositionsOK", "PositionsAllOK"), workdir=stage("neg_all"), timeout=900, allow_error=True)
    if "Invariant PositionsAllOK is violated" not in neg["out"]:
        raise vlib.Inconclusive("negative control failed: positions read before the token do not violate PositionsAllOK")
    ctx.notes.append("negative controls: the scanner as pinned (each of the three repairs switched off) violates PositionsOK / DocsOK; "
                     "the property without the recorded finding (PositionsAllOK) is violated by values that follow '=' / ':' / extends")
    cases = []
    for k, c in enumerate(parse_cases(r["out"])):
        sd, nh, nd = params[c["sk"] - 1]
        cases.append(idlgen.to_case(idlgen.skeleton(sd, gaps=c["gaps"], nheaders=nh, ndefs=nd), "L%d" % k))
    if not cases:
        raise vlib.Inconclusive("MCLexer printed no cases")
    ctx.cov["skeletons"] = len(skels)
    ctx.cov["skeleton_features"] = len(covered)
    ctx.cov["layout_cases_from_model"] = len(cases)
    return cases


def quote_model(ctx):
    """Roles A and B for literals: MCQuote over every body up to a length, both styles; negative control = pinned quote.go."""
    cfg = open(os.path.join(vlib.SPECS, "MCQuote.cfg")).read()
    mod = 40 if ctx.quick() else 150
    main = cfg.replace("EmitMod = 1", "EmitMod = %d" % mod).replace("EmitPick = 0", "EmitPick = %d" % (ctx.seed % mod))
    main = main.replace("INVARIANTS UnquoteIsDenotation", "INVARIANTS UnquoteIsDenotation EmitCase")
    if not ctx.quick():
        main = main.replace("MaxLen = 4", "MaxLen = 5")
    r = vlib.model_check(ctx, "MCQuote", main, timeout=3000)
    neg = vlib.tlc(ctx, "MCQuote", cfg.replace("UsePinned = FALSE", "UsePinned = TRUE"), timeout=900, allow_error=True)
    if "Invariant UnquoteIsDenotation is violated" not in neg["out"]:
        raise vlib.Inconclusive("negative control failed: the pinned unquoting does not violate UnquoteIsDenotation")
    ctx.notes.append("negative control: quote.go as pinned (ReplaceAll + quote swapping) violates UnquoteIsDenotation")
    cases = []
    for k, c in enumerate(parse_cases(r["out"])):
        q = chr(c["q"])
        text = "const string x = " + q + bytes(c["body"]).decode("latin-1") + q
        cases.append({"id": "q%d" % k, "kind": "lit", "q": c["q"], "body": c["body"], "text": text,
                      "linelens": idlgen.linelens(text.encode()), "emptybc": False})
    if not cases:
        raise vlib.Inconclusive("MCQuote printed no cases")
    ctx.cov["literal_cases_from_model"] = len(cases)
    return cases


def run(ctx):
    rng = random.Random(ctx.seed)
    drv = vlib.build_harness(ctx)
    cases = []
    if ctx.replay:
        rep = json.load(open(ctx.replay))
        cases = [rep["case"]]
    else:
        cases += lexer_model(ctx)
        cases += quote_model(ctx)
        nrand = 400 if ctx.quick() else 6000
        for i in range(nrand):
            cases.append(idlgen.random_case(ctx.seed * 1000003 + i, "r%d" % i, density=rng.choice([0.2, 0.5, 0.8]),
                                            emptybc_rate=0.3 if i % 25 == 0 else 0.0))
        nb = 1500 if ctx.quick() else 40000
        valid = [c["text"].encode("utf-8") for c in cases if c["kind"] == "script"]
        for i in range(nb):
            if i % 3 == 0:
                data = bytes(rng.randrange(256) for _ in range(rng.randrange(0, 40)))
            else:
                data = mutate(rng.choice(valid), rng)
            cases.append(bytes_case(data, "m%d" % i))
    rows, crashes = vlib.run_driver_batches(ctx, drv, "c11", cases, batch=400, timeout=600)
    for case, how, out in crashes:
        vlib.report_failure(ctx, {"op": "c11", "id": case.get("id"), "_class": "crash"}, {"failed": ["terminates"], "how": how, "out": out[-800:]},
                            case=case)
    ctx.evals = len(rows)
    bycase = {c["id"]: c for c in cases}
    bad, drift = vlib.validate_trace(ctx, "C11Trace", rows, canary=canary, shard=150, timeout=3000)
    known = {"KNOWN-CLASS-position-read-before-the-token": "position-read-before-the-token",
             "KNOWN-CLASS-equal-constants-share-a-position": "equal-constants-share-a-position",
             "KNOWN-CLASS-empty-block-comment-opens-a-docstring": "empty-block-comment-opens-a-docstring"}
    for row, why in bad:
        case = bycase.get(row.get("id"))
        rest = [w for w in why if w not in known]
        for w in why:
            if w in known:
                r = dict(row)
                r["_class"] = known[w]
                vlib.report_failure(ctx, r, {"failed": [w], "id": row.get("id")}, case=case)
        if rest:
            r = dict(row)
            r["_class"] = "other"
            vlib.report_failure(ctx, r, {"failed": rest, "id": row.get("id"), "text": (case or {}).get("text", (case or {}).get("b64")),
                                         "perrs": row.get("perrs"), "panic": row.get("panic")}, case=case)
    for row, why in drift:
        ctx.drift.append({"id": row.get("id"), "model_predicates": why})
    ctx.cov["documents_accepted"] = sum(1 for r in rows if r.get("ok"))
    ctx.cov["documents_rejected"] = sum(1 for r in rows if not r.get("ok"))
    ctx.cov["script_documents"] = sum(1 for r in rows if r.get("kind") == "script")
    ctx.cov["nodes_compared"] = sum(len(r.get("nodes", [])) for r in rows if r.get("kind") == "script")
    return vlib.finish(ctx, "documents = random full-grammar ASTs rendered with random layout; raw and token-mutated bytes", exhaustive=False)
