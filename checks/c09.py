"""C09 -- accepted programs are well-formed: no silent numeric wrap-around.

Role A: MCNumeric.tla (compileEnum / compileFields / ConstantInt.Link as step
functions on 64-bit limbs over all boundary literals, strict and non-strict;
negative control = the unchecked conversions of the pinned tree) and MCLinker's
self-definition families.  Role B: every numeric context x boundary literal
(decimal and hex) rendered and compiled by the real compiler.  Role C: C09Trace.tla
recomputes the numbers the source means and compares ids / enum values / constant
leaves limb by limb."""
import json, os
import vlib


def canary(row, rng):
    if row.get("op") != "c09" or not row["ok"] or not row["nums"]:
        return None
    row["nums"][0][3] = (row["nums"][0][3] + 1) % 65536
    return row


def run(ctx):
    drv = vlib.build_harness(ctx)
    if ctx.replay:
        rep = json.load(open(ctx.replay))
        cases = os.path.join(ctx.dir("replay"), "cases.ndjson")
        vlib.write_ndjson(cases, [{"id": "replay", "c": rep["obs"]["c"]}])
    else:
        vlib.model_check(ctx, "MCNumeric", "MCNumeric.cfg", timeout=1200)
        neg = vlib.tlc(ctx, "MCNumeric", "MCNumeric_negctl.cfg", timeout=600, allow_error=True)
        if "Invariant NoSilentWrap is violated" not in neg["out"]:
            raise vlib.Inconclusive("negative control failed: unchecked conversions do not violate NoSilentWrap")
        ctx.notes.append("negative control: MCNumeric with Checked = FALSE violates NoSilentWrap (as expected)")
        vlib.model_check(ctx, "MCLinker", "MCLinker_svcs.cfg", timeout=1200)
        cases = vlib.gen_cases(ctx, "MCNumericGen", "MCNumericGen.cfg", timeout=900)
    obs = os.path.join(ctx.dir("obs"), "obs.ndjson")
    vlib.run([drv, "c09", "-cases", cases, "-seed", str(ctx.seed), "-out", obs], timeout=1800, check=True)
    rows = vlib.read_ndjson(obs)
    ctx.evals = len(rows)
    bad, drift = vlib.validate_trace(ctx, "C09Trace", rows, canary=canary, shard=1500, timeout=1800)
    for row, why in bad:
        vlib.report_failure(ctx, row, {"failed": why, "id": row.get("id"), "text": row.get("text")}, case={"c": row["c"]})
    for row, why in drift:
        ctx.drift.append({"id": row.get("id"), "text": row.get("text"), "ok": row.get("ok"), "model_predicates": why})
    ctx.cov["distinct_nontrivial"] = vlib.distinct_count(rows, lambda r: r["c"])
    ctx.cov["accepted"] = sum(1 for r in rows if r["ok"])
    ctx.cov["rejected"] = sum(1 for r in rows if not r["ok"])
    ctx.cov["exhaustive_over"] = "every numeric context x every boundary literal of Numeric.tla"
    for r in rows[:1] + [x for x in rows if not x["ok"]][:1] + [x for x in rows if x["ok"] and len(x["nums"]) > 1][:1]:
        ctx.sample({k: r[k] for k in ("id", "text", "ok", "nums")})
    ctx.assumptions += ["boundary literals: 0, +-1, +-2 and neighbours of 2^7, 2^8, 2^15, 2^16, 2^31, 2^32, 2^63, decimal and hex"]
    return vlib.finish(ctx, "cases = numeric contexts (explicit/implicit enum values, strict and non-strict field ids incl. "
                       "auto-assigned negative ids, i8/byte/i16/i32/i64 constants, defaults, list elements, map keys, typedef'd "
                       "constants) x 115 boundary literal spellings, plus duplicate id/name/item and self-definition programs",
                       exhaustive=True)
