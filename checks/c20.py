"""C20 -- thriftbreak flags exactly the documented breaking changes.

Role A: MCBreak.tla -- a base program (two files, one in a subdirectory) and every edit
script of up to 2 (3 thorough) edits of every kind (add optional / required field,
optional <-> required, type change, field removal, field reordering, struct deletion, new
struct, method / service removal and addition, file deletion and addition): the tool's
algorithm as transcribed reports exactly what the property demands (negative control: a
deleted service attributed to the base name of its file).  Role B: the (old, new) pairs of
the model are rendered to IDL, committed as HEAD~ / HEAD of scratch git repositories and
the real thriftbreak binary is run in readable and -json mode, several times.
Role C: C20Trace.tla."""
import json, os, random, shutil, subprocess
import vlib


def render(prog, rng, parents=None):
    prog = prog or {}          # an empty program is serialised as [] by the model
    files = {}
    for path, f in prog.items():
        defs = []
        for st, fs in (f["structs"] or {}).items():
            kind = {"V": "union", "E": "exception"}.get(st, "struct")      # MCBreak's V is a union, E an exception
            if kind == "union":
                lines = ["  %d: %s %s" % (x["id"], x["ty"], x["name"]) for x in fs]
            else:
                lines = ["  %d: %s %s %s" % (x["id"], "required" if x["req"] else "optional", x["ty"], x["name"]) for x in fs]
            defs.append("%s %s {\n%s\n}\n" % (kind, st, "\n".join(lines)))
        for s, ms in (f["services"] or {}).items():
            par = (parents or {}).get(s)
            ext = " extends %s" % par if par and par in (f["services"] or {}) else ""      # MCBreak's ParentOf, while the parent is in the file
            defs.append("service %s%s {\n%s\n}\n" % (s, ext, "\n".join("  void %s()" % m for m in ms)))
        # every file has the same two aliases (MCBreak's field types TI and TL): a field that moves onto or off an alias
        # changes its type name, whatever the alias stands for
        defs += ["typedef i32 TI\n", "typedef list<i32> TL\n"]
        rng.shuffle(defs)                      # the order of definitions in a file must not matter
        files[path] = "".join(defs) or "// empty\n"
    return files


def git(repo, *args):
    env = dict(os.environ, GIT_AUTHOR_NAME="v", GIT_AUTHOR_EMAIL="v@example.com", GIT_COMMITTER_NAME="v",
               GIT_COMMITTER_EMAIL="v@example.com", GIT_CONFIG_GLOBAL="/dev/null", GIT_CONFIG_SYSTEM="/dev/null")
    p = subprocess.run(["git", "-C", repo] + list(args), env=env, stdout=subprocess.PIPE, stderr=subprocess.STDOUT)
    if p.returncode != 0:
        raise RuntimeError("git %s: %s" % (args, p.stdout.decode()[-500:]))


def write_tree(repo, files):
    for name in os.listdir(repo):
        if name != ".git":
            p = os.path.join(repo, name)
            shutil.rmtree(p) if os.path.isdir(p) else os.remove(p)
    for rel, text in files.items():
        p = os.path.join(repo, rel)
        os.makedirs(os.path.dirname(p), exist_ok=True)
        open(p, "w").write(text)
    open(os.path.join(repo, "README"), "w").write("x")     # keeps the tree non-empty


def observe(ctx, tb, case, i, rng):
    row = {"op": "c20", "id": case.get("id", "b%d" % i), "old": case["old"], "new": case["new"], "parents": case.get("parents") or {}, "setup": "", "crashed": False,
           "base": {p: os.path.basename(p) for p in list(case["old"]) + list(case["new"])},
           "lines": [], "nlines": 0, "jlines": [], "code": 0, "jcode": 0, "repeats": []}
    repo = os.path.join(ctx.dir("repos"), "r%d" % i)
    try:
        os.makedirs(repo)
        git(repo, "init", "-q")
        write_tree(repo, render(case["old"], rng, case.get("parents")))
        git(repo, "add", "-A")
        git(repo, "commit", "-q", "-m", "old")
        write_tree(repo, render(case["new"], rng, case.get("parents")))
        open(os.path.join(repo, "README"), "w").write("y")   # the commit is never empty
        git(repo, "add", "-A")
        git(repo, "commit", "-q", "-m", "new")
    except Exception as e:          # noqa
        row["setup"] = str(e)[:300]
        return row
    def run(extra):
        p = subprocess.run([tb, "-C", repo] + extra, stdout=subprocess.PIPE, stderr=subprocess.PIPE, timeout=120)
        return p.returncode, p.stdout.decode("utf-8", "replace"), p.stderr.decode("utf-8", "replace")
    rc, out, err = run([])
    row["code"] = rc
    row["lines"] = [x for x in out.splitlines() if x]
    row["nlines"] = len(row["lines"])
    row["crashed"] = rc not in (0, 1) or "panic" in err
    row["stderr"] = err[:300]
    rc, out, err = run(["-json"])
    row["jcode"] = rc
    for x in out.splitlines():
        try:
            row["jlines"].append(json.loads(x))
        except ValueError:
            row["jlines"].append({"FilePath": "?unparsable", "Message": x})
    for _ in range(2):
        row["repeats"].append([x for x in run([])[1].splitlines() if x])
    shutil.rmtree(repo, ignore_errors=True)
    return row


def canary(row, rng):
    if row.get("op") != "c20":
        return None
    row["lines"] = row["lines"] + ["a.thrift:deleting service \"Nope\""]
    row["nlines"] += 1
    return row


def run(ctx):
    rng = random.Random(ctx.seed)
    tb = vlib.build_repo_bin(ctx, "./cmd/thriftbreak", "thriftbreak", tags="")
    if ctx.replay:
        rep = json.load(open(ctx.replay))
        cases = [rep["case"]]
    else:
        cfg = open(os.path.join(vlib.SPECS, "MCBreak.cfg")).read()
        mod = 12 if ctx.quick() else 1
        if ctx.quick():
            cfg = cfg.replace("MultiMod = 1", "MultiMod = 2")        # half of the multi-diagnostic pairs (all of them took 150 s)
        if not ctx.quick():
            cfg = cfg.replace("MaxEdits = 2", "MaxEdits = 3").replace("MultiMod = 1", "MultiMod = 12")
            mod = 25
        cfg = cfg.replace("EmitMod = 1", "EmitMod = %d" % mod).replace("EmitPick = 0", "EmitPick = %d" % (ctx.seed % mod))
        cfg = cfg.replace("INVARIANTS ToolMatchesModuloKnown IdenticalIsSilent", "INVARIANTS ToolMatchesModuloKnown IdenticalIsSilent EmitCase")
        r = vlib.model_check(ctx, "MCBreak", cfg, timeout=3000)
        vlib.model_check(ctx, "MCBreak", open(os.path.join(vlib.SPECS, "MCBreak_ideal.cfg")).read(), timeout=900)
        neg = vlib.tlc(ctx, "MCBreak", "MCBreak_negctl.cfg", timeout=900, allow_error=True)
        if "Invariant ToolMatchesProperty is violated" not in neg["out"]:
            raise vlib.Inconclusive("negative control failed: the base-name attribution does not violate ToolMatchesProperty")
        neg2 = vlib.tlc(ctx, "MCBreak", "MCBreak_negctl2.cfg", timeout=900, allow_error=True)
        if "Invariant ToolMatchesModuloKnown is violated" not in neg2["out"]:
            raise vlib.Inconclusive("negative control failed: the twice-relative method path does not violate ToolMatchesModuloKnown")
        ctx.notes.append("negative controls: the tool as it is violates the property as stated (known finding, deleted-service base name); "
                         "the pre-9ec733b method path violates the property modulo that finding")
        cases = []
        unesc = lambda t: t.replace('\\"', '"').replace("\\\\", "\\")
        for line in r["out"].splitlines():
            if line.startswith('<<"CASE", "') and line.endswith('">>'):
                cases.append(json.loads(unesc(line[len('<<"CASE", "'):-3])))
        if not cases:
            raise vlib.Inconclusive("MCBreak printed no cases")
        base = cases[0]["old"]
        cases.append({"old": base, "new": base, "id": "identical", "parents": cases[0].get("parents")})
    import concurrent.futures
    with concurrent.futures.ThreadPoolExecutor(max_workers=12) as ex:
        rows = list(ex.map(lambda ic: observe(ctx, tb, ic[1], ic[0], random.Random(ctx.seed * 1000 + ic[0])), enumerate(cases)))
    ctx.evals = len(rows)
    bad, _ = vlib.validate_trace(ctx, "C20Trace", rows, canary=canary, shard=400, timeout=3000)
    for row, why in bad:
        row = dict(row)
        row["_class"] = "deleted-service-base-name" if why == ["KNOWN-CLASS-deleted-service-base-name"] else "other"
        vlib.report_failure(ctx, row, {"failed": why, "id": row.get("id"), "lines": row["lines"], "stderr": row.get("stderr", "")},
                            case={"old": row["old"], "new": row["new"], "parents": row["parents"]})
    ctx.cov["distinct_nontrivial"] = vlib.distinct_count(rows, lambda r: r["new"])
    ctx.cov["runs_with_diagnostics"] = sum(1 for r in rows if r["lines"])
    ctx.cov["runs_silent"] = sum(1 for r in rows if not r["lines"])
    for r in [x for x in rows if x["lines"]][:2] + [x for x in rows if not x["lines"]][:1]:
        ctx.sample({"id": r["id"], "new": r["new"], "lines": r["lines"], "code": r["code"]})
    ctx.assumptions += ["git CLI to build the scratch repositories", "diagnostics compared as sets of exact 'file:message' strings"]
    return vlib.finish(ctx, "cases = (old, new) pairs reachable in MCBreak.tla by up to 2 (3) edits of 15 kinds from a two-file base "
                       "program (deterministic sample by the seed), definitions shuffled inside files, committed as HEAD~/HEAD; the "
                       "binary run 3x readable + 1x -json; non-trivial = distinct new versions", exhaustive=False)
