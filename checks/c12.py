"""C12 -- RPC envelopes: framing detected, echoed, round-trips exactly.

Role A: MCEnvelope.tla (three framings x two request APIs, peek segmentation as an
environment action, damaged requests) with a negative-control config (single-Read
peek) that must violate ApisAgree.  Role B: envelopes x expected types from the
model are encoded by the real encoders and replayed (plus the model's Damage
variants and random envelopes / byte strings).  Role C: C12Trace.tla."""
import json, os
import vlib


def canary(row, rng):
    if row.get("op") != "c12" or not row["ra"]["ok"] or not row.get("intact"):
        return None
    k = rng.choice(["seq", "reply", "fr"])
    if k == "seq" and row["ra"]["fr"] != "bare":
        row["ra"]["seq"] = row["ra"]["seq"] + 1 if row["ra"]["seq"] < 100 else 0
    elif k == "reply" and row["ra"]["reply"]:
        row["ra"]["reply"][-1] = (row["ra"]["reply"][-1] + 1) % 256
    else:
        row["ra"]["fr"] = "legacy" if row["ra"]["fr"] != "legacy" else "strict"
    return row


def run(ctx):
    tier = "quick" if ctx.quick() else "thorough"
    drv = vlib.build_harness(ctx)
    if ctx.replay:
        rep = json.load(open(ctx.replay))
        o = rep["obs"]
        cases = os.path.join(ctx.dir("replay"), "cases.ndjson")
        vlib.write_ndjson(cases, [{"id": "replay", "req": o["req"], "et": o["et"]}] +
                          ([{"id": "replay-env", "env": o["env"], "et": o["et"]}] if "env" in o else []))
        nrand, damage = 0, 0
    else:
        vlib.model_check(ctx, "MCEnvelope", "MCEnvelope_%s.cfg" % tier, timeout=3000)
        neg = vlib.tlc(ctx, "MCEnvelope", "MCEnvelope_negctl.cfg", timeout=600, allow_error=True)
        if "Invariant ApisAgree is violated" not in neg["out"]:
            raise vlib.Inconclusive("negative control failed: the single-Read peek model does not violate ApisAgree")
        ctx.notes.append("negative control: MCEnvelope with a single-Read peek violates ApisAgree (as expected)")
        cases = vlib.gen_cases(ctx, "MCEnvelopeGen", "MCEnvelopeGen_%s.cfg" % tier, timeout=900)
        nrand, damage = (1500, 2) if ctx.quick() else (12000, 4)      # (every damaged variant of 60000 random envelopes wrote > 100 GB)
    obs = os.path.join(ctx.dir("obs"), "obs.ndjson")
    vlib.run([drv, "c12", "-cases", cases, "-random", str(nrand), "-damage", str(damage),
              "-seed", str(ctx.seed), "-out", obs], timeout=3000, check=True)
    rows = vlib.read_ndjson(obs)
    ctx.evals = len(rows)
    bad, drift = vlib.validate_trace(ctx, "C12Trace", rows, canary=canary, shard=3000, timeout=3000)
    for row, why in bad:
        vlib.report_failure(ctx, row, {"failed": why, "id": row.get("id")},
                            case={"req": row.get("req"), "et": row.get("et"), "env": row.get("env")})
    for row, why in drift:
        ctx.drift.append({"id": row.get("id"), "req": row.get("req", [])[:64], "et": row.get("et"), "model_predicates": why})
    ctx.cov["distinct_nontrivial"] = vlib.distinct_count([r for r in rows if r.get("op") == "c12" and r["ra"]["ok"]],
                                                         lambda r: (r["req"], r["et"]))
    ctx.cov["accepted"] = sum(1 for r in rows if r.get("op") == "c12" and r["ra"]["ok"])
    ctx.cov["rejected"] = sum(1 for r in rows if r.get("op") == "c12" and not r["ra"]["ok"])
    for r in rows[:2] + rows[-1:]:
        ctx.sample({k: r.get(k) for k in ("id", "env", "et", "req", "intact")})
    ctx.assumptions += ["TLC 1.8.0 and the CommunityModules Json reader", "the harness projection wj",
                        "a legacy envelope with an empty method name is outside the property (names are 1..2^16 bytes)"]
    return vlib.finish(ctx, "cases = Envs x Expect of MCEnvelope.tla (names incl. ':' and non-UTF8, types incl. unknown positive, "
                       "seqid boundaries, 3 framings) encoded by the real encoders, each also damaged as in the model's Damage "
                       "action, plus random envelopes (names up to 2^16 bytes) and raw byte strings; each request goes through "
                       "DecodeRequest and through ReadRequest under 5 reader kinds; non-trivial = distinct accepted (request, "
                       "expected type)", exhaustive=False)
