"""C17 -- generated output is confined, conflict-free and all-or-nothing on failure.

Role A: Generate.tla (module walk, plugin completion and write loop as nondeterministic
choices; path shapes with a Clean table; failing modules; invariants Confined,
ConflictIsError, AllOrNothing, DeterministicOutput; negative control = conflicts
detected on the raw path string) and Plugin.tla's WriteOnlyOnSuccess.  Role B: the real
thriftrw binary with scripted fake plugins answering with every path shape (relative,
absolute, '..', '.', repeated separators, equal to a core path, equal to another
plugin's path), programs whose k-th of n modules fails to generate, and thrift-root /
out-dir layouts; the sandbox around the output directory is listed before and after.
Role C: C16Trace.tla (CLI predicates)."""
import json, os, random
import vlib
import c16

SHAPES = ["ok", "nested", "abs", "dotdot", "dotdot-inner", "samepath", "samepath-dot", "samepath-same", "samepath-empty", "corepath", "corepath-dot",
          "corepath-slash", "corepath-abs"]

BAD = "struct foo_bar { 1: optional string s }\nstruct FooBar { 1: optional string s }\n"


def layout_cases():
    cases = []
    good = lambda n: "struct %s { 1: optional string s }\nservice %sSvc { void ping() }\n" % (n.upper(), n.upper())
    # k-th of n modules fails to generate (name collision after mapping to Go), every position
    names = ["m1", "m2", "m3", "m4"]
    for n in (2, 3, 4):
        for k in range(0, n + 1):          # k = 0: none fails
            thrift = {}
            incs = "".join('include "./%s.thrift"\n' % x for x in names[1:n])
            for i, x in enumerate(names[:n]):
                body = BAD if (i + 1) == k else good(x)
                thrift["idl/%s.thrift" % x] = (incs if i == 0 else "") + body
            paths = sorted("out/%s/%s.go" % (x, x) for x in names[:n])
            cases.append({"id": "modfail-%d-of-%d" % (k, n), "mode": "cli", "plugins": [], "thrift": thrift, "root": "idl/m1.thrift",
                          "expect": {"fail": k != 0, "paths": paths if k == 0 else []}})
    # the same with a healthy plugin attached: a failing module must also leave the plugin's files unwritten
    thrift = {"idl/m1.thrift": 'include "./m2.thrift"\n' + good("m1"), "idl/m2.thrift": BAD}
    cases.append({"id": "modfail-with-plugin", "mode": "cli", "thrift": thrift, "root": "idl/m1.thrift",
                  "plugins": [{"name": "p1", "hs": "ok", "gen": "ok", "bye": "ok", "files": {"p1/x.go": "package p1"}, "truncAt": 0, "onebyte": False}],
                  "expect": {"fail": True, "paths": []}})
    # layouts: nested directories, included file above the root file, default root = common ancestor
    thrift = {"idl/a/b/x.thrift": 'include "../../common/y.thrift"\nstruct X { 1: optional y.Y y }\n',
              "idl/common/y.thrift": "struct Y { 1: optional string s }\n"}
    cases.append({"id": "layout-common-ancestor", "mode": "cli", "plugins": [], "thrift": thrift, "root": "idl/a/b/x.thrift",
                  "expect": {"fail": False, "paths": ["out/a/b/x/x.go", "out/common/y/y.go"]}})
    cases.append({"id": "layout-explicit-root", "mode": "cli", "plugins": [], "thrift": thrift, "root": "idl/a/b/x.thrift",
                  "args": ["--thrift-root", "idl"], "expect": {"fail": False, "paths": ["out/a/b/x/x.go", "out/common/y/y.go"]}})
    cases.append({"id": "layout-root-above", "mode": "cli", "plugins": [], "thrift": thrift, "root": "idl/a/b/x.thrift",
                  "args": ["--thrift-root", "."], "expect": {"fail": False, "paths": ["out/idl/a/b/x/x.go", "out/idl/common/y/y.go"]}})
    cases.append({"id": "layout-include-outside-root", "mode": "cli", "plugins": [], "thrift": thrift, "root": "idl/a/b/x.thrift",
                  "args": ["--thrift-root", "idl/a"], "expect": {"fail": True, "paths": []}})
    cases.append({"id": "layout-no-recurse", "mode": "cli", "plugins": [], "thrift": thrift, "root": "idl/a/b/x.thrift",
                  "args": ["--no-recurse"], "expect": {"fail": False, "paths": ["out/a/b/x/x.go"]}})
    cases.append({"id": "layout-nested-outdir", "mode": "cli", "plugins": [], "thrift": thrift, "root": "idl/a/b/x.thrift", "outdir": "deep/er/out",
                  "expect": {"fail": False, "paths": ["deep/er/out/a/b/x/x.go", "deep/er/out/common/y/y.go"]}})
    cases.append({"id": "layout-outdir-inside-idl", "mode": "cli", "plugins": [], "thrift": thrift, "root": "idl/a/b/x.thrift", "outdir": "idl/gen",
                  "expect": {"fail": False, "paths": ["idl/gen/a/b/x/x.go", "idl/gen/common/y/y.go"]}})
    # --output-file with every way of naming a place: the single file stays inside the output directory (the generator
    # cleans the path as if the output directory were the root)
    import posixpath
    for k, of in enumerate(["single.go", "sub/single.go", "./single.go", "../single.go", "../../../single.go", "../../../../single.go",
                            "../../../../../../../single.go", "x/../../../../../single.go", "/abs/single.go", "a//b.go"]):
        for outdir in ("out", "deep/er/out"):
            want = outdir + "/" + posixpath.normpath("/a/b/x/" + of).lstrip("/")
            cases.append({"id": "output-file-%d-%s" % (k, outdir.replace("/", "_")), "mode": "cli", "plugins": [], "thrift": thrift, "root": "idl/a/b/x.thrift",
                          "outdir": outdir, "args": ["--output-file", of], "expect": {"fail": False, "paths": [want]}})
    # a ServiceGenerator handed to gen.Generate directly (no process, no transport check in between) answering with every
    # kind of path: everything it writes stays inside the output directory; two spellings of one place conflict
    for k, paths in enumerate([["p/ok.go"], ["../sibling/evil.go"], ["a/../../evil.go"], ["./../evil.go"], ["../../../../evil.go"], ["/abs/evil.go"],
                               ["x/./y//z.go"], ["p/a.go", "p/./a.go"], ["p/a.go", "p/b/../a.go"], ["a/b/x/x.go"], ["./a/b/x/x.go"]]):
        locs = [posixpath.normpath("/" + p).lstrip("/") for p in paths]
        core = ["a/b/x/x.go", "common/y/y.go"]
        conflict = len(set(locs)) < len(locs) or any(l in core for l in locs)
        cases.append({"id": "direct-%d" % k, "mode": "direct", "plugins": [], "thrift": thrift, "root": "idl/a/b/x.thrift",
                      "direct": {p: "package p\n" for p in paths},
                      "expect": {"fail": conflict, "paths": [] if conflict else sorted("out/" + l for l in locs + core)}})
    # library use without any plugin: the k-th of n modules fails to generate, nothing may be left behind
    names = ["m1", "m2", "m3", "m4"]
    for n in (2, 3, 4):
        for kbad in range(0, n + 1):
            th = {}
            incs = "".join('include "./%s.thrift"\n' % x for x in names[1:n])
            for i, x in enumerate(names[:n]):
                th["idl/%s.thrift" % x] = (incs if i == 0 else "") + (BAD if (i + 1) == kbad else good(x))
            cases.append({"id": "noplugin-modfail-%d-of-%d" % (kbad, n), "mode": "direct", "noplugin": True, "plugins": [], "thrift": th, "root": "idl/m1.thrift",
                          "expect": {"fail": kbad != 0, "paths": sorted("out/%s/%s.go" % (x, x) for x in names[:n]) if kbad == 0 else []}})
    # a failing run on top of the output of an earlier successful run: nothing of the earlier output is touched
    bad_plugin = {"name": "p1", "hs": "ok", "gen": "exception", "bye": "ok", "files": {}, "truncAt": 0, "onebyte": False}
    dot_plugin = {"name": "p1", "hs": "ok", "gen": "dotdot", "bye": "ok", "files": {"../x.go": "package x"}, "truncAt": 0, "onebyte": False}
    for k, (pre, args, plugins) in enumerate([([[]], ["--output-file", "types.go"], [bad_plugin]), ([[]], [], [bad_plugin]), ([[]], ["--output-file", "types.go"], [dot_plugin]),
                                              ([["--output-file", "types.go"]], [], [bad_plugin]), ([[], ["--no-recurse"]], ["--output-file", "all.go"], [bad_plugin]),
                                              ([[]], ["--no-recurse", "--output-file", "x.go"], [bad_plugin])]):
        cases.append({"id": "rerun-fails-%d" % k, "mode": "cli", "plugins": plugins, "thrift": thrift, "root": "idl/a/b/x.thrift", "pre": pre,
                      "args": ["--thrift-root", "idl"] + args})
    cases.append({"id": "compile-error", "mode": "cli", "plugins": [], "thrift": {"idl/x.thrift": "struct X { 1: optional Nope n }\n"},
                  "root": "idl/x.thrift", "expect": {"fail": True, "paths": []}})
    return cases


def run(ctx):
    drv, fake, thriftrw = c16.build_bins(ctx)
    rng = random.Random(ctx.seed)
    if ctx.replay:
        rep = json.load(open(ctx.replay))
        cases = [rep["case"]]
    else:
        jobs = [("Generate", "MCGenerate.cfg", None), ("Generate", "MCGenerate_fail.cfg", None),
                ("Plugin", "MCPlugin_quick.cfg", None)]
        if not ctx.quick():
            jobs.append(("Generate", "MCGenerate_big.cfg", None))
        vlib.model_check_many(ctx, jobs, workers_each=6)
        neg = vlib.tlc(ctx, "Generate", "MCGenerate_negctl.cfg", timeout=900, allow_error=True)
        if "Invariant ConflictIsError is violated" not in neg["out"] and "Invariant DeterministicOutput is violated" not in neg["out"]:
            raise vlib.Inconclusive("negative control failed: raw-string conflict detection does not violate ConflictIsError")
        ctx.notes.append("negative control: Generate.tla with CleanCompare = FALSE violates ConflictIsError (as expected)")
        cases = layout_cases()
        # every pair of path shapes for two plugins (quick: every shape against 3 partners)
        k = 0
        for a in SHAPES:
            # quick: three partners, "ok", the shape itself and every same-path shape (the pairs that have to conflict)
            partners = SHAPES if not ctx.quick() else sorted(set(rng.sample(SHAPES, 3) + ["ok", a] + ([x for x in SHAPES if x.startswith("samepath")] if a.startswith("samepath") else [])))
            for b in partners:
                base = {"id": "paths-%d" % k, "plugins": [{"name": "p1", "hs": "ok", "gen": a, "bye": "ok"},
                                                           {"name": "p2", "hs": "ok", "gen": b, "bye": "ok"}]}
                cases.append(c16.expand(base, "cli", rng))
                k += 1
        # plugin failures around a successful core generation
        for hs, gen in (("wrongname", "ok"), ("ok", "exception"), ("ok", "trunc"), ("garbage", "ok"), ("ok", "garbage"), ("nofeature", "dotdot")):
            base = {"id": "fail-%s-%s" % (hs, gen), "plugins": [{"name": "p1", "hs": "ok", "gen": "ok", "bye": "ok"},
                                                                  {"name": "p2", "hs": hs, "gen": gen, "bye": "ok"}]}
            cases.append(c16.expand(base, "cli", rng))
    rows = c16.run_cases(ctx, drv, fake, thriftrw, cases)
    ctx.cov["distinct_nontrivial"] = vlib.distinct_count(rows, lambda r: r["case"])
    ctx.cov["runs_failed"] = sum(1 for r in rows if r["failed"])
    ctx.cov["runs_ok"] = sum(1 for r in rows if not r["failed"])
    for r in rows[:1] + [x for x in rows if x["id"].startswith("paths-")][:2]:
        ctx.sample({"id": r["id"], "plugins": [[p["name"], p["gen"], sorted(p.get("files", {}))] for p in r["case"]["plugins"]],
                    "failed": r["failed"], "created": r["created"], "stderr": r["stderr"][:200]})
    ctx.assumptions += ["I/O failure during the write loop (e.g. a path naming an existing directory) is outside the property's antecedent",
                        "the sandbox (parent of the output directory, thrift sources, plugin directory) is listed before and after each run"]
    return vlib.finish(ctx, "cases = layouts (k-th of n modules failing for n = 2..4, nested directories, explicit / default / too narrow "
                       "thrift roots, no-recurse, nested output dirs) with the expected path set computed from file locations, and two "
                       "plugins answering with every pair of 11 path shapes, and plugin handshake/generate failures; all through the "
                       "real thriftrw binary; non-trivial = distinct cases", exhaustive=False)
