"""C05 -- schema evolution: unknown/retyped fields ignored, required fields enforced.

Role A: MCEvolve.tla -- every writer schema obtained from the reader schema by per-field
evolution (unchanged, removed, renamed, requiredness flipped, retyped with the same or
another wire type, container element retyped) plus new fields, every writer value, and
every injection of 5 foreign fields (incl. a known id with another wire type, nested
containers) at every field boundary of every depth; a second reader Rc whose containers of
fixed-width elements are retyped among element types of the same width: the declarative Project(W, R, v)
equals the reference deserializer and both path machines on the writer's bytes.
Role B: the states of that model are printed as cases and replayed on code generated for
the reader schema (both decoding paths, 4 segmentations).  Role C: C05Trace.tla."""
import json, os, random, re
import vlib, genlab
import c01


def canary(row, rng):
    if row.get("op") != "bytes" or not row["fw"]["ok"]:
        return None
    if row["case"]["tn"] == "Rc":
        row["fw"]["ok"] = False                # the value path reports a failure where the projection is a value
    else:
        row["fw"]["g"] = {"g": "struct", "f": [{"n": "a", "v": {"g": "str", "b": [1, 2, 3, 4, 5]}}]}
    return row


def emit_cases(ctx):
    """Model-check MCEvolve; its invariant EmitCase prints a deterministic sample of the states as cases."""
    cfg = open(os.path.join(vlib.SPECS, "MCEvolve.cfg")).read()
    mod = 12 if ctx.quick() else 2
    cfg = cfg.replace("EmitMod = 40", "EmitMod = %d" % mod).replace("EmitPick = 0", "EmitPick = %d" % (ctx.seed % mod))
    r = vlib.model_check(ctx, "MCEvolve", cfg, timeout=3300)
    cases, rschema = [], None
    pre, post = '<<"CASE", "', '">>'
    unesc = lambda t: t.replace('\\"', '"').replace("\\\\", "\\")
    for line in r["out"].splitlines():
        if line.startswith('<<"RSCHEMA", "') and line.endswith(post):
            rschema = json.loads(unesc(line[len('<<"RSCHEMA", "'):-len(post)]))
        elif line.startswith(pre) and line.endswith(post):
            cases.append(json.loads(unesc(line[len(pre):-len(post)])))
    if not cases or rschema is None:
        raise vlib.Inconclusive("MCEvolve printed no cases")
    out = []
    for i, c in enumerate(cases):
        if c["inj"] and c["inj"][2]["id"] in (90, 91, 92):
            # a deeply nested foreign value: kept as text (the JSON reader of the trace checker stops at 255 levels; the
            # oracle needs the writer's value and the bytes only)
            c["inj"] = [c["inj"][0], c["inj"][1], {"id": c["inj"][2]["id"], "deep": json.dumps(c["inj"][2]["v"], separators=(",", ":"))}]
        W = [dict(d, fields=c["wf"]) if d["name"] == c["tn"] else d for d in rschema]
        out.append({"id": "e%d" % i, "op": "bytes", "S": rschema, "tn": c["tn"], "W": W, "v": c["v"], "inj": c["inj"], "b": c["b"]})
    return out


def run(ctx):
    rng = random.Random(ctx.seed)
    if ctx.replay:
        rep = json.load(open(ctx.replay))
        cases = [rep["case"]]
        fam = c01.load_family(ctx)
    else:
        cases = emit_cases(ctx)
        ctx.cov["model_states_as_cases"] = len(cases)
        fam = c01.load_family(ctx)
    # a wide reader: Rd with 12 more optional fields nobody writes (generated code may take another shape beyond some
    # number of fields); a sample of the cases is decoded by it as well
    if not ctx.replay:
        rd = [d for d in cases[0]["S"] if d["name"] == "Rd"][0]
        pad = [{"id": 100 + k, "name": "pad%d" % k, "t": {"k": "i32"}, "req": False, "def": {"k": "none"}} for k in range(1, 13)]
        rdw = dict(rd, name="RdW", fields=list(rd["fields"]) + pad)
        wide = []
        for c in [c for c in cases if c["tn"] == "Rd"][:: (7 if ctx.quick() else 2)]:
            wide.append(dict(c, id=c["id"] + "w", S=list(c["S"]) + [rdw], tn="RdW", wtn="Rd"))
        cases = cases + wide
    defs = genlab.collect_defs(fam + [{"S": c["S"]} for c in cases if c.get("tn") == "RdW"][:1] + [{"S": cases[0]["S"]}])
    lab, mod = genlab.build_lab(ctx, defs)
    rows = c01.run_lab(ctx, lab, cases, name="c05")
    ctx.evals = len(rows)
    bad, _ = vlib.validate_trace(ctx, "C05Trace", rows, canary=canary, shard=500, timeout=3000)
    for row, why in bad:
        vlib.report_failure(ctx, row, {"failed": why, "id": row.get("id"), "writer": [d for d in row["case"]["W"] if d["name"] == row["case"].get("wtn", row["case"]["tn"])],
                                       "v": row["case"]["v"], "b": row["case"]["b"]}, case=row["case"])
    ctx.cov["distinct_nontrivial"] = vlib.distinct_count(rows, lambda r: r["case"]["b"])
    ctx.cov["decoded_ok"] = sum(1 for r in rows if r["fw"]["ok"])
    ctx.cov["rejected"] = sum(1 for r in rows if not r["fw"]["ok"])
    ctx.cov["with_injection"] = sum(1 for r in rows if r["case"]["inj"])
    for r in [x for x in rows if x["fw"]["ok"]][:1] + [x for x in rows if not x["fw"]["ok"]][:1] + [x for x in rows if x["case"]["inj"]][:1]:
        ctx.sample({"id": r["id"], "writer_fields": [d for d in r["case"]["W"] if d["name"] == r["case"].get("wtn", r["case"]["tn"])][0]["fields"], "v": r["case"]["v"],
                    "inj": r["case"]["inj"], "b": r["case"]["b"], "fw": r["fw"]})
    ctx.assumptions += ["the reflection projection", "the writer side is the reference encoder of GenCodec.tla (the generated code under "
                        "test is only the reader)"]
    return vlib.finish(ctx, "cases = the reachable states of MCEvolve.tla: writer schemas = per-field variants of the reader struct "
                       "(7 variants for each of 4 fields incl. removal) x 3 sets of new fields, 3 writer values each, and for every "
                       "such encoding the injection of 5 foreign fields at every boundary/depth (sampled in quick tier); decoded by "
                       "the generated reader on both paths; non-trivial = distinct encodings", exhaustive=False)
