"""C16 -- plugin protocol: handshake gates generation; every plugin is shut down.

Role A: Plugin.tla (host + 2..3 plugin processes, one goroutine per plugin and phase,
every assignment of fault scripts, all interleavings; invariants + NeverStuck +
liveness Terminates; negative control = goodbye failures not naming the plugin).
Role B: every script assignment of the model drives the scripted fake plugin
(harness/cmd/fakeplugin) against the real host, in-process (internal/plugin via the
verifhook package: pipes, reaping observable) and through the real thriftrw binary.
Role C: C16Trace.tla judges per-plugin event logs, reaping, failure and naming.
Frames under arbitrary segmentation: Frame conformance cases (1-byte writes,
truncation at every offset, oversize prefix).
The plugin side: PluginLib.tla (the Serve loop of a plugin built with the library, the
host as environment sending any request sequence or closing stdin; negative control =
a Stop() that also closes the writer); its finished runs drive a real plugin built with
plugin.Main (harness/cmd/libplugin) from a hand-written host; C16LibTrace.tla."""
import json, os, random
import vlib

PATHS = {
    "ok": lambda name: {"%s/gen_%s.go" % (name, name): "package %s" % name},
    "exception": lambda name: {},
    "garbage": lambda name: {},
    "trunc": lambda name: {"%s/t.go" % name: "package t"},
    "exit": lambda name: {},
    "oversize": lambda name: {"%s/o.go" % name: "package o"},
    "dotdot": lambda name: {"../escape_%s.go" % name: "package x"},
    "dotdot-inner": lambda name: {"%s/../%s/in.go" % (name, name): "package x"},
    "samepath": lambda name: {"shared/same.go": "package shared // %s" % name},
    # the same path with byte-identical (or empty) contents is as much a conflict as with different ones
    "samepath-same": lambda name: {"shared/same.go": "package shared\n"},
    "samepath-empty": lambda name: {"shared/same.go": ""},
    "samepath-dot": lambda name: {("./shared/same.go" if name.endswith("2") else "shared/same.go"): "package shared // %s" % name},
    "corepath": lambda name: {"svc/svc.go": "package svc // plugin"},
    "corepath-dot": lambda name: {"./svc/svc.go": "package svc // plugin"},
    "corepath-slash": lambda name: {"svc//svc.go": "package svc // plugin"},
    "corepath-abs": lambda name: {"/svc/svc.go": "package svc // plugin"},
    "abs": lambda name: {"/abs_%s/a.go" % name: "package a"},
    "nested": lambda name: {"%s/deep/er/n.go" % name: "package er", "%s/n2.go" % name: "package x"},
}


def expand(case, mode, rng, trunc_at=None, onebyte=False):
    c = {"id": "%s-%s" % (case["id"], mode), "mode": mode, "plugins": []}
    for p in case["plugins"]:
        q = dict(p)
        q["files"] = PATHS.get(p["gen"], PATHS["ok"])(p["name"] + p.get("inst", ""))
        q["truncAt"] = trunc_at if trunc_at is not None else rng.randrange(0, 40)
        q["onebyte"] = onebyte or rng.random() < 0.2
        c["plugins"].append(q)
    return c


def canary(row, rng):
    if row.get("op") != "c16" or not row["per"]:
        return None
    k = rng.choice(["failed", "events", "reaped"])
    if k == "failed":
        row["failed"] = not row["failed"]
    elif k == "events":
        row["per"][0]["events"] = ["start", "Plugin:handshake", "Plugin:goodbye", "Plugin:goodbye", "exit"]
    else:
        row["per"][0]["reaped"] = False
        row["per"][0]["started"] = True
    return row


def build_bins(ctx):
    drv = vlib.build_harness(ctx)
    fake = vlib.build_harness_cmd(ctx, "./cmd/fakeplugin", "fakeplugin")
    thriftrw = vlib.build_repo_bin(ctx, ".", "thriftrw", tags="")
    return drv, fake, thriftrw


def run_cases(ctx, drv, fake, thriftrw, cases, module="C16Trace", canary_fn=canary):
    rows, crashes = vlib.run_driver_batches(ctx, drv, "c16", cases, args=["-fakeplugin", fake, "-thriftrw", thriftrw],
                                            batch=max(4, len(cases) // 48 + 1), timeout=1500)
    for case, how, out in crashes:
        vlib.report_failure(ctx, case, {"failed": ["process-died:" + how], "output": out[:700]}, case=case)
    ctx.evals += len(rows)
    bad, drift = vlib.validate_trace(ctx, module, rows, canary=canary_fn, shard=1500, timeout=3000)
    for row, why in bad:
        vlib.report_failure(ctx, row, {"failed": why, "id": row.get("id"), "stderr": row.get("stderr", "")[:300],
                                       "errs": [row.get("openerr"), row.get("generr"), row.get("closeerr")]}, case=row["case"])
    for row, why in drift:
        ctx.drift.append({"id": row.get("id"), "plugins": row["case"]["plugins"], "per": row["per"], "model_predicates": why})
    return rows


def lib_canary(row, rng):
    if row.get("op") != "c16lib" or not row["replies"]:
        return None
    k = rng.choice(["drop", "ty", "seq"])
    if k == "drop":
        row["replies"] = row["replies"][:-1]
    elif k == "ty":
        row["replies"][0]["ty"] = 5 - row["replies"][0]["ty"]
    else:
        row["replies"][-1]["seq"] += 1
    return row


def library_side(ctx, drv):
    """PluginLib.tla: the plugin library's side of the protocol; its finished runs drive a real plugin built with plugin.Main."""
    import c06
    lib = vlib.build_harness_cmd(ctx, "./cmd/libplugin", "libplugin")
    r = vlib.model_check(ctx, "PluginLib", "MCPluginLib%s.cfg" % ("" if ctx.quick() else "_thorough"), timeout=1500, workers=8)
    neg = vlib.tlc(ctx, "PluginLib", "MCPluginLib_negctl.cfg", timeout=600, allow_error=True)
    if "Invariant OneReplyPerRequest is violated" not in neg["out"]:
        raise vlib.Inconclusive("negative control failed: a Stop() that closes the writer still answers goodbye in PluginLib.tla")
    ctx.notes.append("negative control: PluginLib.tla with StopClosesWriter = TRUE violates OneReplyPerRequest (as expected)")
    cases = c06.parse_cases(r["out"])
    if len(cases) < 100:
        raise vlib.Inconclusive("PluginLib.tla emitted %d cases" % len(cases))
    for i, c in enumerate(cases):
        c["id"] = "lib%d" % i
    d = ctx.dir("c16lib")
    cf, of = os.path.join(d, "cases.ndjson"), os.path.join(d, "obs.ndjson")
    vlib.write_ndjson(cf, cases)
    vlib.run([drv, "c16lib", "-cases", cf, "-out", of, "-libplugin", lib], timeout=3000, check=True)
    rows = vlib.read_ndjson(of)
    ctx.evals += len(rows)
    bad, drift = vlib.validate_trace(ctx, "C16LibTrace", rows, canary=lib_canary, shard=3000, timeout=3000)
    for row, why in bad:
        vlib.report_failure(ctx, row, {"failed": why, "id": row.get("id"), "script": row["case"]["script"], "gen": row["case"]["gen"],
                                       "replies": [[x["name"], x["ty"]] for x in row["replies"]], "exit": row["exit"]}, case=row["case"])
    for row, why in drift:
        ctx.drift.append({"id": row.get("id"), "script": row["case"]["script"], "exit": row["exit"], "model_predicates": why})
    ctx.cov["library_plugin_scripts"] = len(rows)
    return rows


def run(ctx):
    tier = "quick" if ctx.quick() else "thorough"
    drv, fake, thriftrw = build_bins(ctx)
    rng = random.Random(ctx.seed)
    if ctx.replay:
        rep = json.load(open(ctx.replay))
        cases = [rep["case"]]
    else:
        jobs = [("Plugin", "MCPlugin_%s.cfg" % tier, None)]
        if not ctx.quick():
            jobs.append(("Plugin", "MCPlugin_three.cfg", None))
        vlib.model_check_many(ctx, jobs, workers_each=8)
        neg = vlib.tlc(ctx, "Plugin", "MCPlugin_negctl.cfg", timeout=900, allow_error=True)
        if "Invariant FailureNamesPlugin is violated" not in neg["out"]:
            raise vlib.Inconclusive("negative control failed: unnamed goodbye failures do not violate FailureNamesPlugin")
        ctx.notes.append("negative control: Plugin.tla with NamesGoodbyeFailure = FALSE violates FailureNamesPlugin (as expected)")
        base = vlib.read_ndjson(vlib.gen_cases(ctx, "MCPluginGen", "MCPluginGen_%s.cfg" % tier, timeout=900))
        if not ctx.quick():
            base += vlib.read_ndjson(vlib.gen_cases(ctx, "MCPluginGen", "MCPluginGen_three.cfg", timeout=900))
        # plugins that keep writing to their stdout and never read their stdin again (Plugin.tla: Lingers): the host is rid of
        # them because it detaches stdout before it waits
        vlib.model_check(ctx, "Plugin", "MCPlugin_flood.cfg", timeout=900, workers=8)
        neg2 = vlib.tlc(ctx, "Plugin", "MCPlugin_negctl2.cfg", timeout=900, allow_error=True)
        if "Invariant NeverStuck is violated" not in neg2["out"]:
            raise vlib.Inconclusive("negative control failed: a host that waits without detaching stdout is never stuck in Plugin.tla")
        ctx.notes.append("negative control: Plugin.tla with DetachesStdout = FALSE violates NeverStuck (as expected)")
        flood = [c for c in vlib.read_ndjson(vlib.gen_cases(ctx, "MCPluginGen", "MCPluginGen_flood.cfg", timeout=900))
                 if any(p["hs"] == "garbageflood" or p["bye"] == "flood" for p in c["plugins"])]
        ctx.cov["script_assignments"] = len(base)
        ctx.cov["lingering_plugin_assignments"] = len(flood)
        pick = rng.sample(base, min(len(base), 220)) if ctx.quick() else base
        cases = [expand(c, "inproc", rng) for c in pick]
        cli = rng.sample(base, min(len(base), 60 if ctx.quick() else 1500))
        cases += [expand(c, "cli", rng) for c in cli]
        for c in (rng.sample(flood, min(len(flood), 24)) if ctx.quick() else flood):
            c = dict(c, id=c["id"] + "-linger")
            cases.append(expand(c, "inproc", rng))
            if rng.random() < (0.25 if ctx.quick() else 1):
                cases.append(expand(c, "cli", rng))
        # the same plugin asked for more than once (-p "p1" -p "p1 --inst=2"): told apart by position only
        for c in rng.sample(base, min(len(base), 60 if ctx.quick() else 600)):
            if len(c["plugins"]) < 2:
                continue
            d = {"id": c["id"] + "-samename", "plugins": [dict(p, name="p1", **({"inst": str(i + 1)} if i else {}))
                                                          for i, p in enumerate(c["plugins"])]}
            cases.append(expand(d, "inproc", rng))
            if rng.random() < 0.3:
                cases.append(expand(d, "cli", rng))
        for n in (2, 3):
            for gens in (["ok"] * n, ["samepath"] * n, ["ok"] * (n - 1) + ["nested"], ["samepath", "ok", "samepath"][:n], ["nested"] * n):
                d = {"id": "samename-%d-%s" % (n, "-".join(gens)),
                     "plugins": [dict({"name": "p1", "hs": "ok", "gen": g, "bye": "ok"}, **({"inst": str(i + 1)} if i else {}))
                                 for i, g in enumerate(gens)]}
                cases.append(expand(d, "inproc", rng))
                cases.append(expand(d, "cli", rng))
        for g1, g2 in (("samepath-same", "samepath-same"), ("samepath-empty", "samepath-empty"), ("samepath", "samepath-same"), ("samepath-same", "ok")):
            d = {"id": "identical-%s-%s" % (g1, g2), "plugins": [{"name": "p1", "hs": "ok", "gen": g1, "bye": "ok"}, {"name": "p2", "hs": "ok", "gen": g2, "bye": "ok"}]}
            cases.append(expand(d, "inproc", rng))
            cases.append(expand(d, "cli", rng))
        # a reply frame whose length prefix has the top bit set
        for f in ("neglen", "neglen2"):
            for step in ("hs", "gen"):
                d = {"id": "neglen-%s-%s" % (f, step), "plugins": [{"name": "p1", "hs": f if step == "hs" else "ok", "gen": f if step == "gen" else "ok", "bye": "ok"},
                                                                     {"name": "p2", "hs": "ok", "gen": "ok", "bye": "ok"}]}
                cases.append(expand(d, "inproc", rng))
                cases.append(expand(d, "cli", rng))
        # a handshake that is well-formed but names another API version, newer or older
        for f in ("wrongversion", "olderversion", "zeroversion", "negversion"):
            for others in ([], [{"name": "p2", "hs": "ok", "gen": "ok", "bye": "ok"}]):
                d = {"id": "apiversion-%s-%d" % (f, len(others)), "plugins": [{"name": "p1", "hs": f, "gen": "ok", "bye": "ok"}] + others}
                cases.append(expand(d, "inproc", rng))
                cases.append(expand(d, "cli", rng))
        # frames under arbitrary segmentation: truncation at every byte offset, 1-byte writes, oversize prefix
        offs = range(0, 70, 7) if ctx.quick() else range(0, 120)
        for k in offs:
            for step in ("hs", "gen"):
                s = {"id": "trunc-%s-%d" % (step, k), "plugins": [
                    {"name": "p1", "hs": "trunc" if step == "hs" else "ok", "gen": "trunc" if step == "gen" else "ok", "bye": "ok"},
                    {"name": "p2", "hs": "ok", "gen": "ok", "bye": "ok"}]}
                cases.append(expand(s, "inproc", rng, trunc_at=k))
        for f in ("oversize",):
            cases.append(expand({"id": "oversize-gen", "plugins": [{"name": "p1", "hs": "ok", "gen": f, "bye": "ok"}]}, "inproc", rng))
        cases.append(expand({"id": "onebyte-all", "plugins": [{"name": "p1", "hs": "ok", "gen": "ok", "bye": "ok"},
                                                               {"name": "p2", "hs": "nofeature", "gen": "ok", "bye": "ok"}]},
                            "cli", rng, onebyte=True))
    librows = []
    if ctx.replay and cases[0].get("script") is not None:
        # a replayed library-side case
        lib = vlib.build_harness_cmd(ctx, "./cmd/libplugin", "libplugin")
        d = ctx.dir("c16lib")
        cf, of = os.path.join(d, "cases.ndjson"), os.path.join(d, "obs.ndjson")
        vlib.write_ndjson(cf, cases)
        vlib.run([drv, "c16lib", "-cases", cf, "-out", of, "-libplugin", lib], timeout=600, check=True)
        librows = vlib.read_ndjson(of)
        ctx.evals += len(librows)
        bad, _ = vlib.validate_trace(ctx, "C16LibTrace", librows, canary=None, shard=3000, timeout=600)
        for row, why in bad:
            vlib.report_failure(ctx, row, {"failed": why, "id": row.get("id"), "script": row["case"]["script"]}, case=row["case"])
        cases = []
    elif not ctx.replay:
        librows = library_side(ctx, drv)
    rows = run_cases(ctx, drv, fake, thriftrw, cases) if cases else []
    ctx.cov["distinct_nontrivial"] = vlib.distinct_count(rows, lambda r: (r["mode"], [[p["hs"], p["gen"], p["bye"]] for p in r["case"]["plugins"]]))
    ctx.cov["runs_failed"] = sum(1 for r in rows if r["failed"])
    ctx.cov["runs_ok"] = sum(1 for r in rows if not r["failed"])
    ctx.cov["modes"] = {m: sum(1 for r in rows if r["mode"] == m) for m in ("inproc", "cli")}
    for r in rows[:1] + [x for x in rows if x["mode"] == "cli"][:1]:
        ctx.sample({"id": r["id"], "scripts": [[p["name"], p["hs"], p["gen"], p["bye"]] for p in r["case"]["plugins"]],
                    "events": [p["events"] for p in r["per"]], "failed": r["failed"], "stderr": r.get("stderr", "")[:200]})
    ctx.assumptions += ["environment assumption: a plugin that leaves a frame incomplete closes its stdout / exits (the host has no "
                        "timeouts); the fake plugin always does", "reaping is observed in-process (cmd.ProcessState set by Wait); in CLI "
                        "mode the plugin log ending in 'exit' stands for it", "'names the plugin' = the error text contains the plugin "
                        "name in quotes or the path of its executable"]
    return vlib.finish(ctx, "cases = every assignment of (handshake, generate, goodbye) faults to the plugins of MCPlugin (sampled in "
                       "quick tier), run in-process through internal/plugin and through the thriftrw binary, plus truncation of the "
                       "reply frame at every byte offset, 1-byte writes and oversize length prefixes; non-trivial = distinct (mode, "
                       "script assignment)", exhaustive=False)
