"""C03 -- decoders are total and canonical on arbitrary bytes.

Role A: MCReader.tla checks Canonical / SkipAgrees / ReadersAgree / Linear on every
byte string over an alphabet up to a length and on every one-byte substitution and
truncation of the encodings of a small value universe.  Role B: the reachable states
of that model (TLC -dump) are the inputs replayed on the real decoders, for every
requested type; the driver adds seeded grammar-aware mutants of larger random values.
Role C: C03Trace.tla judges each observation (property predicates -> bad,
model conformance -> drift)."""
import json, os, random
import vlib


def canary(row, rng):
    if row.get("op") != "c03" or not row["ra"]["ok"] or row["ra"]["n"] < 1:
        return None
    k = rng.choice(["n", "sk", "v"])
    if k == "n":
        row["ra"]["n"] -= 1
    elif k == "sk":
        row["sk"]["n"] += 1
    else:
        row["ra"]["v"] = {"t": 3, "n": 77} if row["ra"]["v"] != {"t": 3, "n": 77} else {"t": 3, "n": 78}
    row.pop("reenc", None)
    return row


def run(ctx):
    tier = "quick" if ctx.quick() else "thorough"
    drv = vlib.build_harness(ctx)
    rng = random.Random(ctx.seed)
    cases = []
    nrand = 0
    if ctx.replay:
        rep = json.load(open(ctx.replay))
        cases = [{"id": "replay", "b": rep["obs"]["b"], "t": rep["obs"]["t"]}]
    else:
        d = ctx.dir("mcreader")
        r = vlib.model_check(ctx, "MCReader", "MCReader_%s.cfg" % tier, workdir=d, timeout=3000,
                             extra=["-dump", "states.dump"])
        if not ctx.quick():
            vlib.model_check(ctx, "MCReader", "MCReader_deep.cfg", timeout=3000)
        sts = list(vlib.parse_dump(os.path.join(d, "states.dump")))
        strings = [vlib.parse_int_seq(s["bs"]) for s in sts]
        kinds = [s["kind"] for s in sts]
        grow = [s for s, k in zip(strings, kinds) if k == '"grow"']
        mut = [s for s, k in zip(strings, kinds) if k != '"grow"']
        ctx.cov["model_inputs"] = {"strings": len(grow), "mutants": len(mut)}
        if ctx.quick():
            grow = rng.sample(grow, min(len(grow), 700))
            mut = rng.sample(mut, min(len(mut), 2500))
        else:
            mut = rng.sample(mut, min(len(mut), 120000))
        cases = [{"id": "g%d" % i, "b": s} for i, s in enumerate(grow)]
        # mutants: requested with the 11 defined types only (keeps the trace small)
        cases += [{"id": "u%d" % i, "b": s, "odd": False} for i, s in enumerate(mut)]
        # count edits: containers of fixed-width elements whose declared count times the element width passes 2^31 / 2^32
        # (skipping multiplies them), at the top level, inside a struct field and nested
        def be32(n):
            return [(n >> 24) & 255, (n >> 16) & 255, (n >> 8) & 255, n & 255]
        k = 0
        for cnt in (0x08000001, 0x10000000, 0x1fffffff, 0x20000000, 0x40000000, 0x40000001, 0x7fffffff):
            for et in (2, 3, 4, 6, 8, 10):
                body = [et] + be32(cnt) + [0, 0, 0, 0, 0, 0, 0, 1, 0, 0, 0, 0, 0, 0, 0, 2, 0]
                for t in (15, 14):
                    cases.append({"id": "c%d" % k, "b": body, "t": t, "odd": False}); k += 1
                    cases.append({"id": "c%d" % k, "b": [t, 0, 1] + body + [0], "t": 12, "odd": False}); k += 1
                cases.append({"id": "c%d" % k, "b": [15, 0, 0, 0, 1] + body, "t": 15, "odd": False}); k += 1
            for kt, vt in ((8, 10), (10, 10), (4, 8), (3, 2), (6, 6)):
                body = [kt, vt] + be32(cnt) + [0] * 17
                cases.append({"id": "c%d" % k, "b": body, "t": 13, "odd": False}); k += 1
                cases.append({"id": "c%d" % k, "b": [13, 0, 2] + body + [0], "t": 12, "odd": False}); k += 1
        # values nested deeper than any schema: chains of lists, of structs, and a struct holding such a chain before another field
        def lchain(d):
            return [2, 0, 0, 0, 1, 1] if d == 0 else [15, 0, 0, 0, 1] + lchain(d - 1)
        def schain(d):
            return [0] if d == 0 else [12, 0, 1] + schain(d - 1) + [0]
        for d in (63, 64, 65, 66, 70):
            cases.append({"id": "deep-l%d" % d, "b": lchain(d), "t": 15, "odd": False})
            cases.append({"id": "deep-s%d" % d, "b": schain(d), "t": 12, "odd": False})
            cases.append({"id": "deep-sl%d" % d, "b": [15, 0, 1] + lchain(d) + [3, 0, 2, 7, 0], "t": 12, "odd": False})
            cases.append({"id": "deep-m%d" % d, "b": [11, 12, 0, 0, 0, 1, 0, 0, 0, 1, 107] + schain(d), "t": 13, "odd": False})
        # values that skipping accepts and reading rejects (a bool byte other than 0 / 1 inside a container of fixed-width
        # items), wrapped in structs inside structs / lists / maps: forcing has to reach them wherever they sit
        def be32b(n):
            return [(n >> 24) & 255, (n >> 16) & 255, (n >> 8) & 255, n & 255]
        inner = {"lb": (15, [2] + be32b(1) + [2]), "sb": (14, [2] + be32b(1) + [7]), "mib": (13, [8, 2] + be32b(1) + [0, 0, 0, 1, 255]),
                 "mbi": (13, [2, 3] + be32b(1) + [2, 1]), "lsb": (15, [12] + be32b(1) + [2, 0, 1, 5, 0])}
        def st(t, body):                # struct { 1: <t> body }
            return [t, 0, 1] + body + [0]
        for name, (t, body) in sorted(inner.items()):
            wraps = {"s": (12, st(t, body)), "ss": (12, st(12, st(t, body))), "sss": (12, st(12, st(12, st(t, body)))),
                     "lss": (15, [12] + be32b(1) + st(12, st(t, body))), "mss": (13, [3, 12] + be32b(1) + [1] + st(12, st(t, body))),
                     "sls": (12, st(15, [12] + be32b(1) + st(t, body)))}
            for w, (wt, wb) in sorted(wraps.items()):
                cases.append({"id": "force-%s-%s" % (w, name), "b": wb, "t": wt, "odd": False})
        nrand = 6000 if ctx.quick() else 400000
    plain = [c for c in cases if c.get("odd", True)]
    noodd = [c for c in cases if not c.get("odd", True)]
    rows, crashes = [], []
    for part, extra in ((plain, []), (noodd, ["-oddtypes=false"])):
        if part:
            rr, cc = vlib.run_driver_batches(ctx, drv, "c03", part, args=extra, batch=1500, timeout=900)
            rows += rr
            crashes += cc
    if nrand:
        per = max(1, nrand // vlib.NCPU)
        for k in range(vlib.NCPU):
            pass
        rr, cc = vlib.run_driver_batches(ctx, drv, "c03", [], timeout=1800,
                                         random_args=["-random", str(nrand)])
        rows += rr
        crashes += cc
    for case, how, out in crashes:
        vlib.report_failure(ctx, case, {"failed": ["process-died:" + how], "output": out[:700]}, case=case)
    ctx.evals = len(rows)
    bad, drift = vlib.validate_trace(ctx, "C03Trace", rows, canary=canary, shard=5000, timeout=3000)
    for row, why in bad:
        vlib.report_failure(ctx, row, {"failed": why, "id": row.get("id")}, case={"b": row["b"], "t": row["t"]})
    for row, why in drift:
        ctx.drift.append({"id": row.get("id"), "b": row["b"], "t": row["t"], "model_predicates": why})
    ctx.cov["distinct_nontrivial"] = vlib.distinct_count([r for r in rows if r["ra"]["ok"] and len(r["b"]) > 1],
                                                         lambda r: (r["b"], r["t"]))
    ctx.cov["decoded_ok"] = sum(1 for r in rows if r["ra"]["ok"])
    ctx.cov["rejected"] = sum(1 for r in rows if not r["ra"]["ok"])
    oks = [r for r in rows if r["ra"]["ok"] and len(r["b"]) > 4]
    for r in oks[:2] + [r for r in rows if not r["ra"]["ok"]][:2]:
        ctx.sample({k: r[k] for k in ("id", "src", "b", "t", "ra", "sk")})
    ctx.assumptions += ["TLC 1.8.0 and the CommunityModules Json reader", "the harness projection wj",
                        "hang detection = wall-clock timeout of the child process running a batch"]
    return vlib.finish(ctx, "inputs = reachable states of MCReader.tla (all strings over the alphabet up to MaxLen; every "
                       "1-byte substitution/truncation of encodings of the small universe), each requested with every wire type "
                       "(and unknown codes), plus seeded mutants (bit/byte flips, type swaps, length edits incl. -1 and 2^31-1, "
                       "truncation, insert/delete) of random nested values; non-trivial = distinct (bytes,type) that decode "
                       "successfully with more than one byte", exhaustive=False)
