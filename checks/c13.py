"""C13 -- decoding cost is bounded by the size of the input.

Role A: MCCost.tla (every 4-byte window of short bare/enveloped/framed messages
overwritten with 2^16..2^32-1; models of all decoding APIs stay within
C + K*N allocation and linear steps; negative control = pre-allocating legacy
envelope name).  Role B: the model's reachable messages replayed on every real
decoding API (random-access, stream, skip, envelope/request readers, framed
reader, generated Decode/FromWire of plugin/api types) in child processes with an
address-space limit.  Role C: C13Trace.tla judges measured allocation and source
calls."""
import json, os, random, subprocess
import vlib, genlab


LAB_APIS = ("lab-decode", "lab-decode-seek", "lab-fromwire")


def lab_schema(fields):
    """MCCost.tla's LabFields as IDL: struct Cost with one field per (container, item type)."""
    lines = []
    for f in sorted(fields, key=lambda f: f["id"]):
        t = f["idl"]
        ty = {"list": "list<%s>" % t, "set": "set<%s>" % t, "sliceset": 'set<%s> (go.type = "slice")' % t, "map": "map<%s, %s>" % (t, t)}[f["c"]]
        lines.append("  %d: optional %s f%d" % (f["id"], ty, f["id"]))
    return "enum E { A = 1, B = 2 }\nstruct Empty {}\nstruct Cost {\n%s\n}\n" % "\n".join(lines)


def run_cost_lab(ctx, lab, cases):
    """Runs the lab's cost op under an address-space limit.  A decode that exhausts it kills the process: the case after the
    last row written is the one, and the run goes on behind it.  Returns (rows, crashes)."""
    rows, crashes = [], []
    d = ctx.dir("costlab")
    n = max(1, vlib.NCPU)
    parts = [cases[i::n] for i in range(n)]
    for rnd in range(40):
        procs = []
        for i, part in enumerate(parts):
            if not part:
                continue
            cf, of = os.path.join(d, "cases_%d_%d.ndjson" % (rnd, i)), os.path.join(d, "obs_%d_%d.ndjson" % (rnd, i))
            vlib.write_ndjson(cf, part)
            cmd = "ulimit -v %d; exec %s -cases %s -out %s -seed %d" % (3 * 1024 * 1024, lab, cf, of, ctx.seed)
            procs.append((i, subprocess.Popen(["/bin/sh", "-c", cmd], stdout=subprocess.PIPE, stderr=subprocess.STDOUT), of, part))
        nxt = [[] for _ in parts]
        for i, p, of, part in procs:
            try:
                out, _ = p.communicate(timeout=1200)
            except subprocess.TimeoutExpired:
                p.kill()
                raise vlib.Inconclusive("cost lab timed out")
            got = vlib.read_ndjson(of, tolerant=True) if os.path.exists(of) else []
            rows += got
            if p.returncode != 0:
                if len(got) >= len(part):
                    raise vlib.Inconclusive("cost lab died after its last case:\n" + out.decode("utf-8", "replace")[-1500:])
                crashes.append((part[len(got)], "rc=%d" % p.returncode, out.decode("utf-8", "replace")[:900]))
                nxt[i] = part[len(got) + 1:]
        parts = nxt
        if not any(parts):
            break
    return rows, crashes


def canary(row, rng):
    if row.get("op") != "c13":
        return None
    if rng.random() < 0.5:
        row["alloc"] = 12582912 + 64 * row["n"] + 1 + rng.randrange(1000)
    else:
        row["calls"] = 16 + 8 * row["n"] + 1
    return row


def run(ctx):
    tier = "quick" if ctx.quick() else "thorough"
    drv = vlib.build_harness(ctx)
    rng = random.Random(ctx.seed)
    if ctx.replay:
        rep = json.load(open(ctx.replay))
        o = rep["obs"]
        cases = [{"id": "replay", "b": o["b"], "api": o["api"]}] if o["api"] not in LAB_APIS else []
    else:
        d = ctx.dir("mccost")
        mc = vlib.model_check(ctx, "MCCost", "MCCost_quick.cfg", workdir=d, timeout=3000, extra=["-dump", "states.dump"])
        neg = vlib.tlc(ctx, "MCCost", "MCCost_negctl.cfg", timeout=900, allow_error=True)
        if "Invariant CostOK is violated" not in neg["out"]:
            raise vlib.Inconclusive("negative control failed: pre-allocating the legacy name does not violate CostOK")
        ctx.notes.append("negative control: MCCost with LegacyPrealloc violates CostOK (as expected)")
        msgs = [(s["kind"], vlib.parse_int_seq(s["msg"]), s["inflated"]) for s in vlib.parse_dump(os.path.join(d, "states.dump"))]
        infl = [m for m in msgs if m[2] == "1"]
        base = [m for m in msgs if m[2] == "0"]
        ctx.cov["model_messages"] = {"base": len(base), "inflated": len(infl)}
        k = 900 if ctx.quick() else 40000
        shaped = [m for m in infl if m[0] == '"shaped"']
        other = [m for m in infl if m[0] not in ('"shaped"', '"lab"')]
        labmsgs = [m for m in msgs if m[0] == '"lab"']
        base = [m for m in base if m[0] != '"lab"']
        ctx.cov["model_messages"]["shaped_inflated"] = len(shaped)
        pick = shaped + rng.sample(other, min(k, len(other))) + rng.sample(base, min(k // 10, len(base)))
        cases = [{"id": "m%d" % i, "b": m[1]} for i, m in enumerate(pick)]
    rows, crashes = vlib.run_driver_batches(ctx, drv, "c13", cases, batch=max(50, len(cases) // 32 + 1), timeout=1200,
                                            mem_kb=3 * 1024 * 1024)
    # freshly generated code: MCCost.tla's "lab" messages (every container x item type of the Cost struct, counts inflated)
    # decoded by what the generator under test emits
    if ctx.replay:
        labcases = [{"op": "cost", "tn": "Cost", "id": "replay", "b": o["b"], "api": o["api"]}] if o["api"] in LAB_APIS else []
        fields = rep.get("case", {}).get("labfields") or []
        if labcases:
            rows, crashes = [], []
    else:
        fields = None
        for line in mc["out"].splitlines():
            if line.startswith('<<"LABFIELDS", "'):
                fields = json.loads(line[len('<<"LABFIELDS", "'):-3].replace('\\"', '"').replace("\\\\", "\\"))
        if not fields:
            raise vlib.Inconclusive("MCCost.tla did not print its LabFields")
        picked = labmsgs if not ctx.quick() else [m for m in labmsgs if m[2] == "0"] + rng.sample([m for m in labmsgs if m[2] == "1"], 1200)
        labcases = [{"op": "cost", "tn": "Cost", "id": "l%d-%s" % (i, a), "b": m[1], "api": a} for i, m in enumerate(picked) for a in LAB_APIS]
        ctx.cov["model_messages"]["lab"] = len(labmsgs)
    if labcases:
        lab, _ = genlab.build_lab(ctx, [], extra_thrift=lab_schema(fields), name="costlab", extra_structs=["Cost"])
        lrows, lcrashes = run_cost_lab(ctx, lab, labcases)
        for r in lrows:
            rows.append({"op": "c13", "id": r["id"], "api": r["api"], "n": r["n"], "b": r["b"], "alloc": r["alloc"], "calls": 0,
                         "ok": r["ok"], "panic": r["panic"], "declared": 0})
        for case, how, out in lcrashes:
            crashes.append(({"b": case["b"], "api": case["api"], "labfields": fields}, how, out))
        ctx.cov["lab_rows"] = len(lrows)
    for case, how, out in crashes:
        case.pop("alloc", None); case.pop("calls", None); case.pop("ok", None)
        vlib.report_failure(ctx, case, {"failed": ["process-died:" + how], "output": out[:700]}, case=case)
    # re-run the remaining cases of crashed batches one by one is unnecessary: each crash identifies its input;
    # the rest of that batch is simply not covered in this run (reported)
    ctx.cov["crashed_batches"] = len(crashes)
    ctx.evals = len(rows)
    bad, _ = vlib.validate_trace(ctx, "C13Trace", rows, canary=canary, shard=8000, timeout=3000)
    for row, why in bad:
        vlib.report_failure(ctx, row, {"failed": why, "id": row.get("id"), "alloc": row["alloc"], "calls": row["calls"]},
                            case={"b": row["b"], "api": row["api"], "labfields": fields if row["api"] in LAB_APIS else None})
    ctx.cov["distinct_nontrivial"] = vlib.distinct_count(rows, lambda r: (r["b"], r["api"]))
    ctx.cov["max_alloc"] = max([r["alloc"] for r in rows] or [0])
    ctx.cov["apis"] = sorted({r["api"] for r in rows})
    for r in rows[:2] + sorted(rows, key=lambda r: -r["alloc"])[:2]:
        ctx.sample({k: r[k] for k in ("id", "api", "n", "b", "alloc", "calls", "ok")})
    ctx.assumptions += ["C = 12 MiB (10 MiB frame fast path + 1 MiB binary threshold + slack), K = 64",
                        "work = calls on the underlying byte source; wall time is recorded nowhere and never judged",
                        "allocation = runtime.MemStats.TotalAlloc delta around the call in a single-goroutine driver"]
    return vlib.finish(ctx, "messages = reachable states of MCCost.tla (struct bodies of the small universe, bare / strict / "
                       "legacy / framed, every 4-byte window overwritten by 6 large values), each run through 25 decoding APIs; "
                       "non-trivial = distinct (message, API)", exhaustive=False)
