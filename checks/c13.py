"""C13 -- decoding cost is bounded by the size of the input.

Role A: MCCost.tla (every 4-byte window of short bare/enveloped/framed messages
overwritten with 2^16..2^32-1; models of all decoding APIs stay within
C + K*N allocation and linear steps; negative control = pre-allocating legacy
envelope name).  Role B: the model's reachable messages replayed on every real
decoding API (random-access, stream, skip, envelope/request readers, framed
reader, generated Decode/FromWire of plugin/api types) in child processes with an
address-space limit.  Role C: C13Trace.tla judges measured allocation and source
calls."""
import json, os, random
import vlib


def canary(row, rng):
    if row.get("op") != "c13":
        return None
    if rng.random() < 0.5:
        row["alloc"] = 12582912 + 64 * row["n"] + 1 + rng.randrange(1000)
    else:
        row["calls"] = 16 + 8 * row["n"] + 1
    return row


def run(ctx):
    tier = "quick" if ctx.quick() else "thorough"
    drv = vlib.build_harness(ctx)
    rng = random.Random(ctx.seed)
    if ctx.replay:
        rep = json.load(open(ctx.replay))
        o = rep["obs"]
        cases = [{"id": "replay", "b": o["b"], "api": o["api"]}]
    else:
        d = ctx.dir("mccost")
        vlib.model_check(ctx, "MCCost", "MCCost_quick.cfg", workdir=d, timeout=3000, extra=["-dump", "states.dump"])
        neg = vlib.tlc(ctx, "MCCost", "MCCost_negctl.cfg", timeout=900, allow_error=True)
        if "Invariant CostOK is violated" not in neg["out"]:
            raise vlib.Inconclusive("negative control failed: pre-allocating the legacy name does not violate CostOK")
        ctx.notes.append("negative control: MCCost with LegacyPrealloc violates CostOK (as expected)")
        msgs = [(s["kind"], vlib.parse_int_seq(s["msg"]), s["inflated"]) for s in vlib.parse_dump(os.path.join(d, "states.dump"))]
        infl = [m for m in msgs if m[2] == "1"]
        base = [m for m in msgs if m[2] == "0"]
        ctx.cov["model_messages"] = {"base": len(base), "inflated": len(infl)}
        k = 900 if ctx.quick() else 40000
        shaped = [m for m in infl if m[0] == '"shaped"']
        other = [m for m in infl if m[0] != '"shaped"']
        ctx.cov["model_messages"]["shaped_inflated"] = len(shaped)
        pick = shaped + rng.sample(other, min(k, len(other))) + rng.sample(base, min(k // 10, len(base)))
        cases = [{"id": "m%d" % i, "b": m[1]} for i, m in enumerate(pick)]
    rows, crashes = vlib.run_driver_batches(ctx, drv, "c13", cases, batch=max(50, len(cases) // 32 + 1), timeout=1200,
                                            mem_kb=3 * 1024 * 1024)
    for case, how, out in crashes:
        case.pop("alloc", None); case.pop("calls", None); case.pop("ok", None)
        vlib.report_failure(ctx, case, {"failed": ["process-died:" + how], "output": out[:700]}, case=case)
    # re-run the remaining cases of crashed batches one by one is unnecessary: each crash identifies its input;
    # the rest of that batch is simply not covered in this run (reported)
    ctx.cov["crashed_batches"] = len(crashes)
    ctx.evals = len(rows)
    bad, _ = vlib.validate_trace(ctx, "C13Trace", rows, canary=canary, shard=8000, timeout=3000)
    for row, why in bad:
        vlib.report_failure(ctx, row, {"failed": why, "id": row.get("id"), "alloc": row["alloc"], "calls": row["calls"]},
                            case={"b": row["b"], "api": row["api"]})
    ctx.cov["distinct_nontrivial"] = vlib.distinct_count(rows, lambda r: (r["b"], r["api"]))
    ctx.cov["max_alloc"] = max([r["alloc"] for r in rows] or [0])
    ctx.cov["apis"] = sorted({r["api"] for r in rows})
    for r in rows[:2] + sorted(rows, key=lambda r: -r["alloc"])[:2]:
        ctx.sample({k: r[k] for k in ("id", "api", "n", "b", "alloc", "calls", "ok")})
    ctx.assumptions += ["C = 12 MiB (10 MiB frame fast path + 1 MiB binary threshold + slack), K = 64",
                        "work = calls on the underlying byte source; wall time is recorded nowhere and never judged",
                        "allocation = runtime.MemStats.TotalAlloc delta around the call in a single-goroutine driver"]
    return vlib.finish(ctx, "messages = reachable states of MCCost.tla (struct bodies of the small universe, bare / strict / "
                       "legacy / framed, every 4-byte window overwritten by 6 large values), each run through 25 decoding APIs; "
                       "non-trivial = distinct (message, API)", exhaustive=False)
