"""C04 -- value-based and streaming paths of generated code agree on every input.

Role A: MCGenPaths.tla (two machines -- Decode+FromWire with lazily forced containers vs
the streaming Decode -- on every byte string over a 9-symbol alphabet up to length 5 (7 in
thorough tier) for 8 schemas: NeverDifferent, WireImpliesStream, agreement with the
reference deserializer; length 8 = 387 M states was checked once, see DESIGN.md).
Role B: those schemas with all strings up to length 3-4, and the F1 / multi-field types
with their valid encodings and byte-level mutants (substitution at every offset,
truncation at every offset, insertion/deletion), go through the lab binary built from
the generator under test.  Role C: C04Trace.tla (property + the two machines as model)."""
import json, os, random
import vlib, genlab
import c01

ALPHA = [0, 1, 2, 3, 8, 11, 12, 13, 14, 15, 127, 128, 255]


def mutants(b, rng, k):
    out = []
    for _ in range(k):
        m = list(b)
        r = rng.random()
        if r < 0.45 and m:
            m[rng.randrange(len(m))] = rng.choice(ALPHA)
        elif r < 0.65 and m:
            m = m[:rng.randrange(len(m))]
        elif r < 0.8:
            m.insert(rng.randrange(len(m) + 1), rng.choice(ALPHA))
        elif r < 0.9 and m:
            del m[rng.randrange(len(m))]
        elif len(m) >= 4:
            i = rng.randrange(len(m) - 3)
            m[i:i + 4] = rng.choice([[255, 255, 255, 255], [127, 255, 255, 255], [0, 0, 0, 0], [0, 0, 1, 0]])
        out.append(m)
    return out


def canary(row, rng):
    if row.get("op") != "bytes" or not row["fw"]["ok"] or not row["sd"]:
        return None
    row["sd"][0]["ok"] = False           # the streaming path fails where the value path decoded
    return row


def run(ctx):
    tier = "quick" if ctx.quick() else "thorough"
    rng = random.Random(ctx.seed)
    vlib.model_check(ctx, "MCGenPaths", "MCGenPaths_%s.cfg" % tier, timeout=3300)
    fam = c01.load_family(ctx)
    gencfg = open(os.path.join(vlib.SPECS, "MCGenPathsGen.cfg")).read()
    if not ctx.quick():
        gencfg = gencfg.replace("GenLen = 3", "GenLen = 4")
    pcases = vlib.read_ndjson(vlib.gen_cases(ctx, "MCGenPathsGen", gencfg, timeout=1800))
    # wide readers: the same single-field types with 16 more optional fields (generated code may take another shape
    # beyond some number of fields); they read encodings written for another type of the family (known id, other wire type)
    def widen(d):
        pad = [{"id": 200 + k, "name": "pad%d" % k, "t": {"k": "i32"}, "req": False, "def": {"k": "none"}} for k in range(1, 17)]
        return dict(d, name="W" + d["name"], fields=list(d["fields"]) + pad)
    wide_cases = []
    if not ctx.replay:
        def shape0(c):
            d = [x for x in c["S"] if x["name"] == c["tn"]][0]
            return d if len(d["fields"]) == 1 and d["kind"] != "union" else None
        singles = [c for c in fam if shape0(c) is not None and c["v"]["f"]]
        seen = {}
        for c in singles:
            seen.setdefault(c["tn"], c)
        chosen = [seen[k] for k in sorted(seen)][:: max(1, len(seen) // (8 if ctx.quick() else 40))]
        for rc in chosen:
            wd = widen(shape0(rc))
            S = list(rc["S"]) + [wd]
            for w in [rc] + rng.sample(singles, min(len(singles), 10 if ctx.quick() else 60)):
                wide_cases.append({"id": "w%d" % len(wide_cases), "op": "bytes", "S": S, "tn": wd["name"], "b": w["b"]})
    defs = genlab.collect_defs(fam + pcases + wide_cases)
    lab, mod = genlab.build_lab(ctx, defs)
    if ctx.replay:
        rep = json.load(open(ctx.replay))
        cases = [rep["case"]]
    else:
        cases = list(pcases) + wide_cases
        base = fam
        n = 0
        for c in base:
            # (the long encodings are the deeply nested values of the recursive types: judged as they are, one mutant only --
            # the oracle re-runs both path machines on every row and they are slow on deep terms)
            for b in [c["b"]] + mutants(c["b"], rng, (4 if ctx.quick() else 25) if len(c["b"]) <= 150 else 1):
                n += 1
                cases.append({"id": "m%d" % n, "op": "bytes", "S": c["S"], "tn": c["tn"], "b": b})
        # evolved-schema inputs: encodings written for another type of the family with the same field id --
        # preferably one whose field has the same container kind (element / key / value types differ)
        def shape(c):
            d = [x for x in c["S"] if x["name"] == c["tn"]][0]
            return d["fields"][0]["t"] if len(d["fields"]) == 1 else None
        def rootk(t):
            return t["k"] if t else None
        single = [c for c in fam if shape(c) is not None and c["v"]["f"]]
        by_kind = {}
        for c in single:
            by_kind.setdefault(rootk(shape(c)), []).append(c)
        readers = {}
        for c in single:
            readers.setdefault(c["tn"], c)
        for tn, rc in sorted(readers.items()):
            pool = [w for w in by_kind.get(rootk(shape(rc)), []) if w["tn"] != tn] if rootk(shape(rc)) in ("map", "list", "set") else single
            for w in rng.sample(pool, min(len(pool), 6 if ctx.quick() else 40)):
                n += 1
                cases.append({"id": "x%d" % n, "op": "bytes", "S": rc["S"], "tn": tn, "b": w["b"]})
    if not ctx.replay:
        rng.shuffle(cases)              # spreads the few expensive rows (deeply nested values) over the shards of the oracle
    rows = c01.run_lab(ctx, lab, cases, name="c04")
    ctx.evals = len(rows)
    bad, drift = vlib.validate_trace(ctx, "C04Trace", rows, canary=canary, shard=600, timeout=3000)
    for row, why in bad:
        vlib.report_failure(ctx, row, {"failed": why, "id": row.get("id"), "tn": row.get("tn"), "b": row["case"]["b"]}, case=row["case"])
    for row, why in drift:
        ctx.drift.append({"id": row.get("id"), "tn": row["tn"], "b": row["case"]["b"], "fw": row["fw"], "sd": row["sd"], "model_predicates": why})
    ctx.cov["distinct_nontrivial"] = vlib.distinct_count([r for r in rows if r["fw"]["ok"] or any(s["ok"] for s in r["sd"])],
                                                         lambda r: (r["tn"], r["case"]["b"]))
    ctx.cov["value_path_accepts"] = sum(1 for r in rows if r["fw"]["ok"])
    ctx.cov["stream_only_accepts"] = sum(1 for r in rows if not r["fw"]["ok"] and any(s["ok"] for s in r["sd"]))
    ctx.cov["both_reject"] = sum(1 for r in rows if not r["fw"]["ok"] and not any(s["ok"] for s in r["sd"]))
    for r in [x for x in rows if x["fw"]["ok"]][:2] + [x for x in rows if not x["fw"]["ok"]][:1]:
        ctx.sample({"id": r["id"], "tn": r["tn"], "b": r["case"]["b"], "fw": r["fw"], "sd": r["sd"]})
    ctx.assumptions += ["the projection of Go values by reflection", "the IDL renderer"]
    return vlib.finish(ctx, "inputs = all byte strings over a 9-symbol alphabet up to length 3 (4) for the 8 schemas of MCGenPaths, and "
                       "valid encodings plus byte-level mutants of the F1 / multi-field types; each decoded on the value path and on the "
                       "stream path under 4 read segmentations, survivors re-serialized on both paths; non-trivial = distinct inputs "
                       "accepted by at least one path", exhaustive=False)
