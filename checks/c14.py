"""C14 -- equality on generated and wire values is a sound equivalence.

Role A: MCEquals.tla -- wire.ValuesAreEqual transcribed branch for branch (hashable fast
paths, quadratic unhashable paths, struct field maps) against an independent structural
equality on all same-typed pairs of a bounded universe of decodable values, plus symmetry
and transitivity.  Role B: TLC writes, for every type of family F1, triples (value,
permuted re-encoding, another value); the generated code decodes them and the full
Equals matrix, the ValuesAreEqual matrix of the ToWire forms and the nil behaviour are
recorded; pairs of wire values from the universe and seeded perturbations go through
wire.ValuesAreEqual.  Role C: C14Trace.tla."""
import json, os, random
import vlib, genlab
import c01


def canary(row, rng):
    if row.get("op") == "equals" and row.get("decoded") and row["n"] >= 2:
        row["nilarg"] = "panic"
        return row
    if row.get("op") == "weq" and row["ab"] in ("true", "false") and row["a"].get("t") in (2, 3, 6, 8):
        row["ab"] = "false" if row["ab"] == "true" else "true"
        return row
    return None


def run(ctx):
    rng = random.Random(ctx.seed)
    drv = vlib.build_harness(ctx)
    vlib.model_check(ctx, "MCEquals", "MCEquals.cfg" if ctx.quick() else "MCEquals_thorough.cfg", timeout=3300)
    fam = c01.load_family(ctx)
    triples = vlib.read_ndjson(vlib.gen_cases(ctx, "MCEqualsGen", "MCEqualsGen.cfg", timeout=1800))
    defs = genlab.collect_defs(fam)
    lab, mod = genlab.build_lab(ctx, defs)
    if ctx.replay:
        rep = json.load(open(ctx.replay))
        triples = [rep["case"]] if rep["case"] else []
    rows = c01.run_lab(ctx, lab, triples, name="c14")
    # wire pairs
    ucases = vlib.gen_cases(ctx, "MCWireGen", "MCWireGen_quick.cfg", timeout=900)
    obs = os.path.join(ctx.dir("obs"), "weq.ndjson")
    vlib.run([drv, "c14w", "-cases", ucases, "-random", "3000" if ctx.quick() else "200000", "-seed", str(ctx.seed), "-out", obs],
             timeout=3000, check=True)
    wrows = vlib.read_ndjson(obs)
    ctx.evals = len(rows) + len(wrows)
    bad, drift = vlib.validate_trace(ctx, "C14Trace", rows, canary=canary, shard=500, timeout=3000)
    bad2, drift2 = vlib.validate_trace(ctx, "C14Trace", wrows, canary=canary, shard=5000, timeout=3000)
    for row, why in bad + bad2:
        vlib.report_failure(ctx, row, {"failed": why, "id": row.get("id"), "tn": row.get("tn")}, case=row.get("case"))
    for row, why in drift + drift2:
        ctx.drift.append({"id": row.get("id"), "a": row.get("a"), "b": row.get("b"), "ab": row.get("ab"), "model_predicates": why})
    ctx.cov["distinct_nontrivial"] = vlib.distinct_count(rows, lambda r: (r["tn"], r["case"]["bs"])) + vlib.distinct_count(wrows, lambda r: (r["a"], r["b"]))
    ctx.cov["generated_triples"] = len(rows)
    ctx.cov["wire_pairs"] = len(wrows)
    ctx.cov["wire_pairs_equal"] = sum(1 for r in wrows if r["ab"] == "true")
    for r in rows[:1] + wrows[:1]:
        ctx.sample({k: r.get(k) for k in ("id", "tn", "eq", "weq", "nilarg", "nilrecv", "a", "b", "ab", "ba") if k in r})
    ctx.assumptions += ["the claimed domain: values obtained by decoding -- no NaN, duplicate-free sets, map keys and field ids",
                        "the reflection projection of generated values"]
    return vlib.finish(ctx, "generated types: for every type of family F1 every ordered pair of its values as a triple (v1, permuted "
                       "re-encoding of v1, v2), incl. unset vs zero, nil vs empty, unhashable keys, slice-backed sets; wire values: "
                       "universe values paired with same-typed peers and one-step perturbations, plus seeded random nested values; "
                       "non-trivial = distinct triples/pairs", exhaustive=False)
