"""C01 -- generated types serialize and deserialize exactly per the Thrift schema.

Role A: MCGenCodec.tla (reference codec self-consistent over family F1; readers invert
its encodings).  Role B: TLC enumerates F1 (every field shape x requiredness x default x
struct/union/exception, plus multi-field types) with reference encodings; the thriftrw
under test generates Go code for all of it, which is compiled into a lab binary and run on
every case (value path, stream path under 4 segmentations, both serializers).  Role C:
C01Trace.tla interprets the schema: projected Go values and both serializers' bytes are
compared with the logical value (defaults filled in) through the reference codec."""
import json, os, random
import vlib, genlab


def canary(row, rng):
    if row.get("op") != "codec" or not row["fw"]["ok"] or not row["tw"]["b"]:
        return None
    k = rng.choice(["tw", "fw"])
    if k == "tw":
        row["tw"]["b"] = row["tw"]["b"][:-1] + [2, 0]        # damage the stop byte: a field header cut short
    else:
        row["fw"]["ok"] = False                              # the value path reports a failure
    return row


def invalid_cases(cases):
    """Schema-violating Go values built by mutation of decoded valid ones."""
    out = []
    by_tn = {}
    for c in cases:
        by_tn.setdefault(c["tn"], []).append(c)
    for tn, cs in sorted(by_tn.items()):
        d = [x for x in cs[0]["S"] if x["name"] == tn][0]
        f0 = d["fields"][0]
        root_kind = f0["t"]["k"]
        nillable = root_kind in ("list", "set", "map", "binary") or (root_kind == "ref")
        full = [c for c in cs if c["v"]["f"]]
        if not full:
            continue
        c = full[-1]
        base = {"S": c["S"], "tn": tn, "op": "invalid"}
        if d["kind"] == "union":
            out.append(dict(base, id="inv-zero-" + tn, mut="zero"))
        elif len(d["fields"]) == 1 and f0["req"] and f0["def"].get("k") == "none" and root_kind in ("set", "map", "binary"):
            # required lists may be nil (encoded as empty); every other required non-primitive must be set
            out.append(dict(base, id="inv-nilfield-" + tn, mut="nil-field", b=c["b"]))
        # a required list-rooted field (plain or through typedefs) set to a nil slice: valid, encoded as empty
        if len(d["fields"]) == 1 and f0["req"] and f0["def"].get("k") == "none":
            t = f0["t"]
            seen = 0
            while t["k"] == "ref" and seen < 5:
                tgt = [x for x in c["S"] if x["name"] == t["n"]][0]
                if tgt["kind"] != "typedef":
                    break
                t = tgt["target"]
                seen += 1
            if t["k"] == "list":
                out.append(dict(base, id="nil-list-" + tn, mut="nil-list", b=c["b"],
                                v={"k": "struct", "f": [{"n": f0["name"], "v": {"k": "list", "e": []}}]}))
        if len(d["fields"]) == 1 and root_kind in ("list", "map") and json.dumps(f0["t"]).find('"n": "Inner"') >= 0 and c["v"]["f"]:
            out.append(dict(base, id="inv-nilelem-" + tn, mut="nil-elem", b=c["b"]))
    ch = by_tn.get("Choice", [])
    if len(ch) >= 2:
        out.append({"S": ch[0]["S"], "tn": "Choice", "op": "invalid", "id": "inv-two-members", "mut": "merge", "b": ch[0]["b"], "b2": ch[1]["b"]})
    return out


def load_family(ctx):
    vlib.model_check(ctx, "MCGenCodec", "MCGenCodec.cfg", timeout=1800)
    return vlib.read_ndjson(vlib.gen_cases(ctx, "MCGenCodecGen", "MCGenCodecGen.cfg", timeout=1800))


def run_lab(ctx, lab, cases, name="obs"):
    import time
    _t0 = time.time()
    d = ctx.dir("lab_" + name)
    n = max(1, vlib.NCPU // 2)
    parts = [cases[i::n] for i in range(n)]
    import subprocess
    procs = []
    for i, part in enumerate(parts):
        cf, of = os.path.join(d, "cases_%d.ndjson" % i), os.path.join(d, "obs_%d.ndjson" % i)
        vlib.write_ndjson(cf, part)
        procs.append((subprocess.Popen([lab, "-cases", cf, "-out", of, "-seed", str(ctx.seed)], stdout=subprocess.PIPE,
                                       stderr=subprocess.STDOUT), of, part))
    rows = []
    for p, of, part in procs:
        try:
            out, _ = p.communicate(timeout=1800)
        except subprocess.TimeoutExpired:
            p.kill()
            raise vlib.Inconclusive("lab driver timed out")
        if p.returncode != 0:
            vlib.report_failure(ctx, {"op": "labcrash", "out": out.decode("utf-8", "replace")[:2000]},
                                {"failed": ["process-died:rc=%d" % p.returncode], "output": out.decode("utf-8", "replace")[:700]})
        if os.path.exists(of):
            with open(of) as fh:
                for line in fh:
                    try:
                        rows.append(json.loads(line))
                    except Exception:
                        pass          # a line cut short by a crash of the driver (reported above)
    vlib.log("lab run %s: %d cases, %.1fs" % (name, len(cases), time.time() - _t0))
    return rows


def run(ctx):
    rng = random.Random(ctx.seed)
    fam = load_family(ctx)
    defs = genlab.collect_defs(fam)
    lab, mod = genlab.build_lab(ctx, defs)
    ctx.notes.append("lab: %d definitions generated and compiled" % len(defs))
    if ctx.replay:
        rep = json.load(open(ctx.replay))
        cases = [rep["case"]]
    else:
        cases = list(fam)
        # field-order permutations of the multi-field types: the reversed reference encoding
        for c in fam:
            if c["b"] != c["brev"]:
                cases.append(dict(c, id=c["id"] + "-rev", b=c["brev"]))
        cases += invalid_cases(fam)
        # the defaults the generated readers fill in: the same value as written by a writer that omits every unset field
        # (the reference encoding writes the default of an unset optional field, so the generated literal is never asked for)
        for c in fam:
            if not c["v"]["f"]:
                cases.append(dict(c, id=c["id"] + "-omitted", b=[0]))
    for c in cases:
        c.pop("brev", None)
    if not ctx.replay:
        rng.shuffle(cases)              # spreads the few expensive rows (deeply nested values) over the shards of the oracle
    rows = run_lab(ctx, lab, cases)
    ctx.evals = len(rows)
    bad, _ = vlib.validate_trace(ctx, "C01Trace", rows, canary=canary, shard=100, timeout=3000)
    for row, why in bad:
        vlib.report_failure(ctx, row, {"failed": why, "id": row.get("id"), "tn": row.get("tn")}, case=row["case"])
    ctx.cov["distinct_nontrivial"] = vlib.distinct_count(rows, lambda r: (r["tn"], r["case"].get("b"), r["case"].get("mut")))
    ctx.cov["types_generated"] = len([d for d in defs if d["kind"] in ("struct", "union", "exception")])
    ctx.cov["invalid_value_cases"] = sum(1 for r in rows if r["op"] == "invalid")
    for r in rows[:2] + [x for x in rows if x["op"] == "invalid"][:1]:
        ctx.sample({"id": r["id"], "tn": r["tn"], "type": [d for d in r["case"]["S"] if d["name"] == r["tn"]][0],
                    "v": r["case"].get("v"), "b": r["case"].get("b"), "fw": r.get("fw")})
    ctx.assumptions += ["the projection of Go values by reflection (labmain.go: json tags give the Thrift field names)",
                        "the IDL renderer (lib/genlab.py)", "this check covers the default option set; zap / strict-enum / single-file "
                        "options are exercised by C10, C15 and C06"]
    return vlib.finish(ctx, "types = family F1 of SchemaFamily.tla (8 base types, enum, struct, typedefs of each, lists/sets/maps over "
                       "them incl. unhashable keys and elements, x required/optional x with/without default x struct/union/exception) "
                       "plus multi-field types; values = boundary scalars, 0-2 element containers, unset optionals; each value's "
                       "reference encoding (and reversed field order) decoded on both paths and re-serialized on both; invalid Go "
                       "values by mutation; non-trivial = distinct (type, encoding)", exhaustive=False)
