"""C07 -- references resolve to the right definitions, independent of ordering.

Role A: MCLinker.tla over five program families (types, consts, svcs, mixed,
modules) x all link orders.  Role B: the families are rendered to Thrift IDL and
compiled by the real compiler under every link order (CompileWithLinkOrder hook),
under natural map order, with the definitions shuffled inside each file.  Role C:
C07Trace.tla compares outcome and typedef roots with Denote(prog) (property) and
with the model run under the same order (conformance)."""
import json, os, random
import vlib

FAMILIES = ["types", "consts", "svcs", "mixed", "modules", "modsvcs", "dotted", "aliasitem", "lists", "selfstruct"]
# no defaults in these programs: judged against Denote alone (C07Trace_light.cfg; executing the model per link order is too slow in TLC)
MODEL_ONLY = ["xcycle"]


def canary(row, rng):
    if row.get("op") != "c07" or row.get("panic"):
        return None
    # the program must not be in the known hazard class for the canary to be decisive:
    # flip the outcome of a services-only or roots of a types-only program
    pid = row.get("id", "")
    if not (pid.startswith("svcs-") or pid.startswith("modules-") or pid.startswith("modsvcs-")):
        return None
    row["ok"] = not row["ok"]
    if row["ok"]:
        row["dump"] = {"roots": [], "targets": [], "consts": [], "parents": [], "shared": True, "mods": []}
    return row


def xfile_typedef_cycle(row):
    """typedefs of two files that name each other through include-qualified names"""
    inc = row["prog"]["inc"]
    if "b" not in inc.get("a", []) or "a" not in inc.get("b", []):
        return False
    td = {tuple(t["key"]): t["def"].get("tgt") for t in row["prog"]["ty"] if t["def"].get("k") == "td"}
    for (m, n), tgt in td.items():
        if tgt and tgt.get("q") in ("a", "b") and tgt["q"] != m:
            back = td.get((tgt["q"], tgt["n"]))
            if back and back.get("q") == m and back.get("n") == n:
                return True
    return False


def linker_models(ctx, families, negctl=True):
    families = list(families) + [f for f in MODEL_ONLY if f not in families]
    vlib.model_check_many(ctx, [("MCLinker", "MCLinker_%s.cfg" % f, None) for f in families], workers_each=4)
    if negctl:
        cfg = open(os.path.join(vlib.SPECS, "MCLinker_types.cfg")).read().replace("Repaired = TRUE", "Repaired = FALSE")
        neg = vlib.tlc(ctx, "MCLinker", cfg, timeout=900, allow_error=True)
        if "is violated" not in neg["out"]:
            raise vlib.Inconclusive("negative control failed: the model of the pinned linker satisfies all invariants")
        ctx.notes.append("negative control: MCLinker with Repaired = FALSE (pinned linker) violates an invariant (as expected)")


def gen_programs(ctx, families, per_family, rng):
    cases = []
    total = {}
    res = vlib.model_check_many(ctx, [("MCLinkerGen", "MCLinkerGen_%s.cfg" % f, {"workers": 1}) for f in families])
    ctx.states -= sum(r["distinct"] for r in res)        # generator runs are not design models
    ctx.transitions -= sum(r["generated"] for r in res)
    ctx.notes = [n for n in ctx.notes if "MCLinkerGen" not in n]
    for f, r in zip(families, res):
        rows = vlib.read_ndjson(os.path.join(r["dir"], "cases.ndjson"))
        total[f] = len(rows)
        if per_family and len(rows) > max(per_family, 500):         # small families are taken whole
            # programs with a reference cycle are where the link order can matter: take them first
            cyc = [r for r in rows if r.get("cyc")]
            rest = [r for r in rows if not r.get("cyc")]
            # cycles that leave the file and come back are rare in the family: some of them are always taken
            xf = [r for r in cyc if xfile_typedef_cycle(r)]
            take_x = rng.sample(xf, min(len(xf), 16))
            total[f + "_cycles_across_files_taken"] = len(take_x)
            cyc = [r for r in cyc if r not in take_x]
            take_c = take_x + rng.sample(cyc, min(len(cyc), (2 * per_family) // 3))
            rows = take_c + rng.sample(rest, min(len(rest), max(0, per_family - len(take_c))))
        total[f + "_with_ref_cycle"] = sum(1 for r in rows if r.get("cyc"))
        cases += rows
    ctx.cov["family_sizes"] = total
    return cases


def judge(ctx, rows, module="C07Trace", canary_fn=canary, cfg=None):
    bad, drift = vlib.validate_trace(ctx, module, rows, canary=canary_fn, shard=1500, timeout=3000, cfg=cfg)
    for row, why in bad:
        obs = dict(row)
        obs["_failed"] = sorted(why)
        obs["_class"] = "known-default-cast" if why == ["KNOWN-CLASS-default-cast-while-linking"] else "other"
        vlib.report_failure(ctx, obs, {"failed": why, "id": row.get("id")},
                            case={"prog": row["prog"], "order": row["order"], "light": str(row.get("id", "")).split("-")[0] in MODEL_ONLY})
    for row, why in drift:
        ctx.drift.append({"id": row.get("id"), "files": row.get("files"), "order": row.get("order"), "ok": row.get("ok"),
                          "model_predicates": why})


def run(ctx):
    drv = vlib.build_harness(ctx)
    rng = random.Random(ctx.seed)
    if ctx.replay and "files" in json.load(open(ctx.replay))["case"]:
        # a DefaultCycle.tla program: judged by the outcome the model computed
        rep = json.load(open(ctx.replay))
        dcases = [{"id": "replay", "files": rep["case"]["files"], "nonstrict": False}]
        drows, dcrashes = vlib.run_driver_batches(ctx, drv, "c08", dcases, batch=20, timeout=600)
        for case, how, out in dcrashes:
            vlib.report_failure(ctx, case, {"failed": ["process-died:" + how], "output": out[:700]}, case=case)
        ctx.evals = len(drows)
        dbad, _ = vlib.validate_trace(ctx, "C08Trace", drows, cfg="C08Trace_strict.cfg", shard=4000, timeout=600)
        for row, why in dbad:
            vlib.report_failure(ctx, row, {"failed": why, "files": row["files"], "cerr": row["cerr"][:200]}, case={"files": row["files"]})
        return vlib.finish(ctx, "replay of one DefaultCycle program", exhaustive=False)
    if ctx.replay:
        rep = json.load(open(ctx.replay))
        cases = [{"id": "replay", "prog": rep["case"]["prog"], "order": rep["case"]["order"]}]
        extra = ["-natural", "0"]
    else:
        linker_models(ctx, FAMILIES)
        cases = gen_programs(ctx, FAMILIES + MODEL_ONLY, 160 if ctx.quick() else 6000, rng)
        extra = ["-orders", "12" if ctx.quick() else "36", "-natural", "2" if ctx.quick() else "6"]
    rows, crashes = vlib.run_driver_batches(ctx, drv, "c07", cases, args=extra, batch=max(20, len(cases) // 32 + 1), timeout=1200)
    for case, how, out in crashes:
        vlib.report_failure(ctx, case, {"failed": ["process-died:" + how], "output": out[:700]}, case=case)
    ctx.evals = len(rows)
    light = [r for r in rows if str(r.get("id", "")).split("-")[0] in MODEL_ONLY or (ctx.replay and rep["case"].get("light"))]
    lightids = {id(r) for r in light}
    judge(ctx, [r for r in rows if id(r) not in lightids])
    if light:
        judge(ctx, light, cfg="C07Trace_light.cfg", canary_fn=lambda row, r: (dict(row, ok=not row["ok"], dump={"roots": [], "targets": [], "consts": [], "parents": [], "shared": True, "mods": []}) if row.get("op") == "c07" and not row.get("panic") else None))
    if not ctx.replay:
        # field defaults written in terms of the enclosing struct (DefaultCycle.tla): accepted exactly when no literal leaves the
        # field out -- the meaning does not depend on what else was linked before (other defaulted fields, earlier literals)
        import c08
        dcases = [c for c in c08.default_cycle_cases(ctx, rng) if "#expect" in c["files"]]
        drows, dcrashes = vlib.run_driver_batches(ctx, drv, "c08", dcases, batch=max(20, len(dcases) // 32 + 1), timeout=1500)
        for case, how, out in dcrashes:
            vlib.report_failure(ctx, case, {"failed": ["process-died:" + how], "output": out[:700]}, case=case)
        ctx.evals += len(drows)
        dbad, _ = vlib.validate_trace(ctx, "C08Trace", drows, cfg="C08Trace_strict.cfg", shard=4000, timeout=1800,
                                      canary=lambda row, r: (dict(row, cok=not row["cok"], cerr="" if not row["cok"] else "boom") if row.get("op") == "c08" else None))
        for row, why in dbad:
            vlib.report_failure(ctx, row, {"failed": why, "id": row.get("id"), "files": row["files"], "cerr": row["cerr"][:200]}, case={"files": row["files"]})
        ctx.cov["default_cycle_programs"] = len(drows)
    ctx.cov["distinct_nontrivial"] = vlib.distinct_count(rows, lambda r: (r["prog"], r["order"]))
    ctx.cov["programs"] = vlib.distinct_count(rows, lambda r: r["prog"])
    ctx.cov["compiled_ok"] = sum(1 for r in rows if r["ok"])
    ctx.cov["rejected"] = sum(1 for r in rows if not r["ok"])
    for r in rows[:2] + rows[-1:]:
        ctx.sample({"id": r["id"], "files": r["files"], "order": r["order"], "ok": r["ok"], "roots": r["dump"].get("roots")})
    ctx.assumptions += ["TLC 1.8.0, Json module", "the renderer of abstract programs (harness/cmd/vdriver/linkcmd.go)",
                        "link orders are forced through the verif hook compile.CompileWithLinkOrder, which pre-links the named "
                        "entities in schedule order and then runs the unmodified link pass"]
    return vlib.finish(ctx, "programs = the five families of MCLinker.tla (3 type definitions of every shape; 3 constants over "
                       "every type/value shape incl. mutual references; 3 services with arbitrary parents; struct defaults <-> "
                       "constants <-> structs; two files with every include shape and qualified/bare references), sampled per "
                       "family in quick tier; each program compiled under up to N link orders (all if fewer) plus natural-order "
                       "runs, definitions shuffled in the files; non-trivial = distinct (program, order)", exhaustive=False)
