"""genlab: render schemas (the terms of specs/GenCodec.tla) to Thrift IDL, run the thriftrw
under test on them, and build the lab driver (harness/labtmpl) together with the generated
packages into one binary."""
import json, os, shutil, struct
import vlib


def texpr(t):
    k = t["k"]
    if k in ("bool", "i8", "i16", "i32", "i64", "double", "string", "binary"):
        return k
    if k == "list":
        return "list<%s>" % texpr(t["e"])
    if k == "set":
        return "set<%s>%s" % (texpr(t["e"]), ' (go.type = "slice")' if t.get("slice") else "")
    if k == "map":
        return "map<%s, %s>" % (texpr(t["kt"]), texpr(t["vt"]))
    if k == "ref":
        return t["n"]
    raise ValueError(t)


def limbs_to_int(l, signed=True):
    u = (l[0] << 48) | (l[1] << 32) | (l[2] << 16) | l[3]
    if signed and u >= 1 << 63:
        u -= 1 << 64
    return u


def literal(v):
    k = v["k"]
    if k == "int":
        return str(v["n"])
    if k == "i64":
        return str(limbs_to_int(v["l"]))
    if k == "dbl":
        f = struct.unpack(">d", struct.pack(">Q", limbs_to_int(v["l"], signed=False)))[0]
        return repr(f)
    if k == "bin":
        return '"%s"' % "".join(chr(c) if 32 <= c < 127 and chr(c) not in '"\\' else "\\x%02x" % c for c in v["b"])
    if k in ("list", "set"):
        return "[%s]" % ", ".join(literal(e) for e in v["e"])
    if k == "map":
        return "{%s}" % ", ".join("%s: %s" % (literal(m["k"]), literal(m["v"])) for m in v["m"])
    if k == "struct":
        return "{%s}" % ", ".join('"%s": %s' % (f["n"], literal(f["v"])) for f in v["f"])
    raise ValueError(v)


def render_def(d, annotations=None):
    kind = d["kind"]
    ann = (annotations or {}).get(d["name"], {})
    if kind == "enum":
        return "enum %s {\n%s\n}\n" % (d["name"], ",\n".join("  %s = %d" % (i["name"], i["value"]) for i in d["items"]))
    if kind == "typedef":
        return "typedef %s %s\n" % (texpr(d["target"]), d["name"])
    lines = []
    for f in d["fields"]:
        req = "" if kind == "union" else ("required " if f["req"] else "optional ")
        dflt = "" if f["def"].get("k") == "none" else " = " + literal(f["def"])
        fa = ann.get(f["name"], "") or f.get("ann", "")
        lines.append("  %d: %s%s %s%s%s" % (f["id"], req, texpr(f["t"]), f["name"], dflt, (" (%s)" % fa) if fa else ""))
    return "%s %s {\n%s\n}\n" % (kind, d["name"], "\n".join(lines))


def collect_defs(cases):
    """Union of the mini-schemas of the cases, in dependency-friendly order (first occurrence)."""
    seen, out = {}, []
    for c in cases:
        for d in c.get("S", []):
            key = d["name"]
            if key in seen:
                if seen[key] != json.dumps(d, sort_keys=True):
                    raise vlib.Inconclusive("two different definitions named %s in the case family" % key)
                continue
            seen[key] = json.dumps(d, sort_keys=True)
            out.append(d)
    return out


def build_lab(ctx, defs, pkg="lab", extra_thrift="", flags=(), services="", annotations=None, name="labdrv", extra_go=None,
              extra_files=None, helpers=(), extra_structs=()):
    """Generate code for defs with the thriftrw binary built from /repo and build the lab driver.
    Returns (binary path, module dir)."""
    import time
    _t0 = time.time()
    thriftrw = os.path.join(ctx.dir("bin"), "thriftrw")
    if not os.path.exists(thriftrw):
        thriftrw = vlib.build_repo_bin(ctx, ".", "thriftrw", tags="")
    mod = ctx.dir("labmod_" + name)
    idl = os.path.join(mod, "idl")
    os.makedirs(idl, exist_ok=True)
    text = extra_thrift + "\n" + "\n".join(render_def(d, annotations) for d in defs) + "\n" + services
    with open(os.path.join(idl, pkg + ".thrift"), "w") as f:
        f.write(text)
    for rel, content in (extra_files or {}).items():
        os.makedirs(os.path.dirname(os.path.join(idl, rel)), exist_ok=True)
        with open(os.path.join(idl, rel), "w") as f:
            f.write(content)
    with open(os.path.join(mod, "go.mod"), "w") as f:
        f.write("module labmod\n\ngo 1.22.1\n\nrequire go.uber.org/thriftrw v0.0.0\n\nreplace go.uber.org/thriftrw => %s\n" % vlib.REPO)
    shutil.copy(os.path.join(vlib.REPO, "go.sum"), os.path.join(mod, "go.sum"))
    rc, out = vlib.run([thriftrw, "--out", os.path.join(mod, "gen"), "--pkg-prefix", "labmod/gen", "--thrift-root", idl,
                        "--no-version-check"] + list(flags) + [os.path.join(idl, pkg + ".thrift")], cwd=mod, timeout=600)
    if rc != 0:
        raise vlib.Inconclusive("thriftrw rejected the lab schema (rc=%d):\n%s\n--- thrift:\n%s" % (rc, out[-3000:], text[:3000]))
    tm = os.path.join(vlib.HARNESS, "labtmpl")
    for fn in os.listdir(tm):
        if fn.endswith(".go.txt"):
            shutil.copy(os.path.join(tm, fn), os.path.join(mod, fn[:-4]))
    for fn, content in (extra_go or {}).items():
        with open(os.path.join(mod, fn), "w") as f:
            f.write(content)
    structs = [d["name"] for d in defs if d["kind"] in ("struct", "union", "exception") and d.get("pkg", pkg) == pkg] + list(extra_structs)
    with open(os.path.join(mod, "registry.go"), "w") as f:
        f.write('package main\n\nimport lab "labmod/gen/%s"\n\nvar registry = map[string]func() labType{\n' % pkg)
        for n in structs:
            f.write('\t"%s": func() labType { return &lab.%s{} },\n' % (n, go_name(n)))
        f.write("}\n\nvar helpers = map[string]interface{}{\n")
        for hname in helpers:
            f.write('\t"%s": lab.%s,\n' % (hname, hname))
        f.write("}\n")
    out_bin = os.path.join(ctx.dir("bin"), name)
    rc, out = vlib.run(["go", "build", "-o", out_bin, "."], cwd=mod, env=vlib.env_go(), timeout=1200)
    if rc != 0:
        # generated code that does not build is a finding for C06, here it only stops the lab
        raise vlib.Inconclusive("generated lab code does not build:\n" + out[-4000:])
    vlib.log("lab build %s: %d definitions, %.1fs" % (name, len(defs), time.time() - _t0))
    return out_bin, mod


def go_name(n):
    return n[0].upper() + n[1:]
