"""Common machinery of the /verif checks: scratch dirs, harness build, TLC runs
(design models, case generation, trace validation), canaries, known findings,
evidence files and the verdict lines.

Exit codes: 0 property held on everything explored (known findings printed),
1 VIOLATION (a property-level predicate failed on an observation of the real
code), 2 inconclusive (machinery failure: build, TLC error, timeout, vacuous
oracle) -- never reported as a violation.
"""
import json, os, re, shutil, subprocess, sys, tempfile, time, hashlib, random

VERIF = os.path.dirname(os.path.dirname(os.path.abspath(__file__)))
REPO = os.environ.get("VERIF_REPO", "/repo")
SPECS = os.path.join(VERIF, "specs")
HARNESS = os.path.join(VERIF, "harness")
NCPU = os.cpu_count() or 4

GOENV = {
    "GOFLAGS": "-mod=mod", "GOPROXY": "off", "GOSUMDB": "off", "GOTOOLCHAIN": "local",
}


class Inconclusive(Exception):
    pass


def log(*a):
    print("[check]", *a, file=sys.stderr, flush=True)


class Ctx:
    def __init__(self, prop, tier, seed, keep=False):
        self.prop = prop
        self.tier = tier
        self.seed = seed
        self.t0 = time.time()
        self.scratch = tempfile.mkdtemp(prefix="verif-%s-" % prop.lower())
        # everything a child process (driver, TLC, go) or a later mkdtemp creates goes under the scratch directory,
        # which is removed at the end of the check: nothing is left behind in /tmp
        tmp = os.path.join(self.scratch, "tmp")
        os.makedirs(tmp, exist_ok=True)
        if "VERIF_OUTER_TMPDIR" not in os.environ:
            os.environ["VERIF_OUTER_TMPDIR"] = tempfile.gettempdir()
            os.environ["TMPDIR"] = tmp
            tempfile.tempdir = tmp
        self.keep = keep
        self.cov = {"samples": []}
        self.assumptions = []
        self.violations = []      # list of dicts {id, what, obs, case}
        self.known = []           # known findings hit
        self.drift = []           # conformance drift notes
        self.notes = []
        self.states = 0
        self.transitions = 0
        self.traces = 0
        self.evals = 0
        self.level = "model_checking"
        self._n = 0

    def dir(self, name):
        d = os.path.join(self.scratch, name)
        os.makedirs(d, exist_ok=True)
        return d

    def cleanup(self):
        if not self.keep:
            shutil.rmtree(self.scratch, ignore_errors=True)
        else:
            log("scratch kept at", self.scratch)

    def quick(self):
        return self.tier == "quick"

    def sample(self, s):
        if len(self.cov["samples"]) < 6:
            self.cov["samples"].append(s)


def env_go():
    e = dict(os.environ)
    e.update(GOENV)
    return e


def run(cmd, cwd=None, timeout=None, env=None, check=False, stdin=None):
    """Run a command, returning (rc, stdout+stderr).  rc = -9 on timeout."""
    try:
        p = subprocess.run(cmd, cwd=cwd, env=env, timeout=timeout, stdout=subprocess.PIPE,
                           stderr=subprocess.STDOUT, input=stdin)
        out = p.stdout.decode("utf-8", "replace")
        if check and p.returncode != 0:
            raise Inconclusive("command failed rc=%d: %s\n%s" % (p.returncode, " ".join(cmd), out[-4000:]))
        return p.returncode, out
    except subprocess.TimeoutExpired as e:
        out = (e.stdout or b"").decode("utf-8", "replace")
        if check:
            raise Inconclusive("command timed out: %s" % " ".join(cmd))
        return -9, out


# --------------------------------------------------------------------------
# building the real code

def build_harness(ctx, race=False):
    """Build vdriver (-tags verif) against the repository's current working tree (REPO), in a private copy of the
    harness module so that concurrent checks, and checks run against a snapshot of the repository, do not interfere."""
    src = harness_copy(ctx)
    out = os.path.join(ctx.dir("bin"), "vdriver" + ("-race" if race else ""))
    cmd = ["go", "build", "-tags", "verif"]
    if race:
        cmd.append("-race")
    cmd += ["-o", out, "./cmd/vdriver"]
    rc, o = run(cmd, cwd=src, env=env_go(), timeout=900)
    if rc != 0:
        raise Inconclusive("harness build failed (the working tree may not compile):\n" + o[-6000:])
    return out


def harness_copy(ctx):
    src = os.path.join(ctx.scratch, "harness_src")
    if not os.path.exists(src):
        shutil.copytree(HARNESS, src, ignore=shutil.ignore_patterns("go.sum"))
        gm = open(os.path.join(src, "go.mod")).read()
        gm = re.sub(r"replace go\.uber\.org/thriftrw => .*", "replace go.uber.org/thriftrw => %s" % REPO, gm)
        open(os.path.join(src, "go.mod"), "w").write(gm)
        shutil.copy(os.path.join(REPO, "go.sum"), os.path.join(src, "go.sum"))
    return src


def build_repo_bin(ctx, pkg, name, tags="verif"):
    out = os.path.join(ctx.dir("bin"), name)
    rc, o = run(["go", "build", "-tags", tags, "-o", out, pkg], cwd=REPO, env=env_go(), timeout=900)
    if rc != 0:
        raise Inconclusive("build of %s failed:\n%s" % (pkg, o[-6000:]))
    return out


def build_harness_cmd(ctx, pkg, name):
    out = os.path.join(ctx.dir("bin"), name)
    rc, o = run(["go", "build", "-tags", "verif", "-o", out, pkg], cwd=harness_copy(ctx), env=env_go(), timeout=900)
    if rc != 0:
        raise Inconclusive("build of %s failed:\n%s" % (pkg, o[-6000:]))
    return out


# --------------------------------------------------------------------------
# TLC

TLC_CP = "/opt/veriftools/tla/tla2tools.jar:/opt/veriftools/tla/CommunityModules-deps.jar"


def _tlc_cmd(args, heap=None, dfs=False, gcthreads=None):
    cmd = ["java", "-XX:+UseParallelGC", "-XX:ParallelGCThreads=%d" % (gcthreads or 4), "-Xss512m",
           "-Djava.io.tmpdir=%s" % tempfile.gettempdir()]
    if heap:
        cmd.append("-Xmx%s" % heap)
    if dfs:
        cmd.append("-Dtlc2.tool.queue.IStateQueue=StateDeque")
    cmd += ["-cp", TLC_CP, "tlc2.TLC"] + args
    return cmd


def stage_specs(d):
    for f in os.listdir(SPECS):
        if f.endswith(".tla") or f.endswith(".cfg"):
            shutil.copy(os.path.join(SPECS, f), os.path.join(d, f))


RE_STATES = re.compile(r"(\d+) states generated, (\d+) distinct states found")


def tlc(ctx, module, cfg, workdir=None, workers=None, timeout=1800, extra=None, heap=None,
        dfs=False, consts=None, allow_error=False, simulate=None):
    """Run TLC on module with cfg (a file name in specs/ or literal cfg text).
    Returns dict(ok, generated, distinct, out)."""
    ctx._n += 1
    d = workdir or ctx.dir("tlc%d" % ctx._n)
    stage_specs(d)
    cfgname = cfg
    if "\n" in cfg:
        cfgname = "%s_run%d.cfg" % (module, ctx._n)
        with open(os.path.join(d, cfgname), "w") as f:
            f.write(cfg)
    args = ["-metadir", os.path.join(d, "meta%d" % ctx._n), "-workers", str(workers or NCPU),
            "-config", cfgname]
    if simulate:
        args += ["-simulate", simulate]
    args += (extra or []) + [module + ".tla"]
    t0 = time.time()
    rc, out = run(_tlc_cmd(args, heap=heap, dfs=dfs), cwd=d, timeout=timeout)
    m = None
    for m in RE_STATES.finditer(out):
        pass
    res = {"rc": rc, "out": out, "generated": int(m.group(1)) if m else 0,
           "distinct": int(m.group(2)) if m else 0, "wall": time.time() - t0, "dir": d}
    res["ok"] = (rc == 0 and "Error:" not in out and "is violated" not in out)
    if rc == -9:
        raise Inconclusive("TLC timed out on %s/%s after %ds" % (module, cfgname, timeout))
    if not res["ok"] and not allow_error:
        raise Inconclusive("TLC reported an error on %s/%s (model or tooling problem, not a verdict):\n%s"
                           % (module, cfgname, _tail(out)))
    return res


def _tail(out, n=60):
    lines = [l for l in out.splitlines() if not re.match(r"^(Parsing|Semantic|Linting) ", l)]
    return "\n".join(lines[-n:])[-6000:]


def model_check(ctx, module, cfg, **kw):
    """Role A: exhaustive check of a design config; accumulates state counts."""
    r = tlc(ctx, module, cfg, **kw)
    ctx.states += r["distinct"]
    ctx.transitions += r["generated"]
    ctx.notes.append("model %s/%s: %d distinct states, %d generated, %.1fs"
                     % (module, cfg if "\n" not in cfg else "(inline cfg)", r["distinct"], r["generated"], r["wall"]))
    log(ctx.notes[-1])
    return r


def model_check_many(ctx, jobs, workers_each=4, timeout=3000):
    """Run several independent design configs concurrently.  jobs = [(module, cfg, extra_kwargs)]."""
    import threading
    results = [None] * len(jobs)
    errors = []
    dirs = []
    for i, job in enumerate(jobs):
        ctx._n += 1
        dirs.append(ctx.dir("tlcp%d" % ctx._n))

    def work(i):
        module, cfg, kw = jobs[i]
        try:
            kw = dict(kw or {})
            kw.setdefault("workers", workers_each)
            kw.setdefault("timeout", timeout)
            results[i] = tlc(ctx, module, cfg, workdir=dirs[i], **kw)
        except Exception as e:      # noqa
            errors.append(e)

    ths = [threading.Thread(target=work, args=(i,)) for i in range(len(jobs))]
    for t in ths:
        t.start()
    for t in ths:
        t.join()
    if errors:
        raise errors[0]
    for (module, cfg, _), r in zip(jobs, results):
        ctx.states += r["distinct"]
        ctx.transitions += r["generated"]
        ctx.notes.append("model %s/%s: %d distinct states, %d generated, %.1fs"
                         % (module, cfg if "\n" not in cfg else "(inline cfg)", r["distinct"], r["generated"], r["wall"]))
        log(ctx.notes[-1])
    return results


def gen_cases(ctx, module, cfg, outname="cases.ndjson", **kw):
    """Role B: TLC writes cases (ndJsonSerialize in an ASSUME or an invariant)."""
    kw.setdefault("workers", 1)
    r = tlc(ctx, module, cfg, **kw)
    path = os.path.join(r["dir"], outname)
    if not os.path.exists(path):
        raise Inconclusive("TLC did not write %s for %s:\n%s" % (outname, module, _tail(r["out"])))
    return path


def read_ndjson(path, tolerant=False):
    """tolerant: skip lines cut short by a crash of the writer (the crash itself is reported separately)."""
    out = []
    with open(path) as f:
        for line in f:
            line = line.strip()
            if line:
                try:
                    out.append(json.loads(line))
                except ValueError:
                    if not tolerant:
                        raise
    return out


def write_ndjson(path, rows):
    with open(path, "w") as f:
        for r in rows:
            f.write(json.dumps(r, separators=(",", ":")))
            f.write("\n")


def validate_trace(ctx, module, obs_rows, cfg=None, shard=4000, timeout=1800, workers_per=1,
                   canary=None, dfs=False, extra_files=None):
    """Role C: validate observation rows against <module>.tla.

    The trace spec writes verdict.json = [n, bad, drift] (line numbers, 1-based).
    canary(row, rng) -> corrupted copy or None; planted canaries must be
    rejected, otherwise the oracle is vacuous (Inconclusive).
    Returns (bad_rows, drift_rows) as lists of (row, reasons)."""
    _t0 = time.time()
    rng = random.Random(ctx.seed * 7919 + 17)
    shards = [obs_rows[i:i + shard] for i in range(0, len(obs_rows), shard)] or [[]]
    procs = []
    ncanary_total = 0
    for si, rows in enumerate(shards):
        d = ctx.dir("trace_%s_%d_%d" % (module, ctx._n, si))
        stage_specs(d)
        rows = list(rows)
        canaries = set()
        if canary and rows:
            for _ in range(3):
                src = rows[rng.randrange(len(rows))]
                if src.get("canary"):
                    continue
                c = canary(json.loads(json.dumps(src)), rng)
                if c is not None:
                    c["canary"] = True
                    rows.append(c)
                    canaries.add(len(rows))
        ncanary_total += len(canaries)
        write_ndjson(os.path.join(d, "obs.ndjson"), rows)
        for name, content in (extra_files or {}).items():
            with open(os.path.join(d, name), "w") as f:
                f.write(content)
        cfgname = cfg or (module + ".cfg")
        args = ["-metadir", os.path.join(d, "meta"), "-workers", str(workers_per), "-config", cfgname,
                module + ".tla"]
        p = subprocess.Popen(_tlc_cmd(args, dfs=dfs, gcthreads=2, heap="3g"), cwd=d, stdout=subprocess.PIPE, stderr=subprocess.STDOUT)
        procs.append((p, d, rows, canaries))
        # bound parallelism
        while sum(1 for q in procs if q[0].poll() is None) >= max(1, NCPU // 2):
            time.sleep(0.05)
    ctx._n += 1
    bad_rows, drift_rows = [], []
    deadline = time.time() + timeout
    for p, d, rows, canaries in procs:
        try:
            out, _ = p.communicate(timeout=max(1, deadline - time.time()))
        except subprocess.TimeoutExpired:
            p.kill()
            raise Inconclusive("trace validation with %s timed out" % module)
        out = out.decode("utf-8", "replace")
        vpath = os.path.join(d, "verdict.json")
        if not os.path.exists(vpath):
            raise Inconclusive("trace validation with %s did not reach the end of the trace "
                               "(malformed observation or spec error):\n%s" % (module, _tail(out)))
        v = json.load(open(vpath))
        if v["n"] != len(rows):
            raise Inconclusive("trace validation consumed %s of %d lines" % (v["n"], len(rows)))
        bad = {}
        for item in v.get("bad", []):
            bad.setdefault(item[0], []).append(item[1])
        drift = {}
        for item in v.get("drift", []):
            drift.setdefault(item[0], []).append(item[1])
        for c in canaries:
            if c not in bad:
                raise Inconclusive("oracle vacuous: planted canary (line %d of %s) was accepted by %s"
                                   % (c, d, module))
        for ln, why in sorted(bad.items()):
            if ln not in canaries:
                bad_rows.append((rows[ln - 1], why))
        for ln, why in sorted(drift.items()):
            if ln not in canaries:
                drift_rows.append((rows[ln - 1], why))
        ctx.traces += len(rows) - len(canaries)
    ctx.cov["canaries_planted_and_rejected"] = ctx.cov.get("canaries_planted_and_rejected", 0) + ncanary_total
    log("trace validation %s: %d rows in %d shards, %.1fs" % (module, len(obs_rows), len(shards), time.time() - _t0))
    return bad_rows, drift_rows


# --------------------------------------------------------------------------
# known findings, verdicts, evidence

def load_known():
    p = os.path.join(VERIF, "known_findings.json")
    if not os.path.exists(p):
        return []
    return json.load(open(p)).get("findings", [])


def _get(obj, path):
    cur = obj
    for part in path.split("."):
        if isinstance(cur, dict) and part in cur:
            cur = cur[part]
        else:
            return None
    return cur


def match_known(prop, obs):
    for k in load_known():
        if k.get("property") != prop or k.get("status", "open") != "open":
            continue
        def one(p, v):
            if p.endswith("^"):      # prefix match on a string field
                got = _get(obs, p[:-1])
                return isinstance(got, str) and got.startswith(v)
            return _get(obs, p) == v
        if all(one(p, v) for p, v in k.get("match", {}).items()):
            return k
    return None


def report_failure(ctx, obs, what, case=None):
    """A property-level predicate failed on an observation of the real code."""
    k = match_known(ctx.prop, obs)
    if k is not None:
        if k["id"] not in [x["id"] for x in ctx.known]:
            ctx.known.append(k)
        return
    ctx.violations.append({"what": what, "obs": obs, "case": case})


def finish(ctx, rule, exhaustive=False, extra_cov=None):
    wall = time.time() - ctx.t0
    for k in ctx.known:
        print("KNOWN-FINDING: property=%s %s" % (ctx.prop, k["what"]), flush=True)
    rdir = os.path.join(VERIF, "replays", ctx.prop)
    if os.path.isdir(rdir) and not getattr(ctx, "replay", None):
        for fn in os.listdir(rdir):            # replay files of earlier runs are stale
            if fn.endswith(".json"):
                os.remove(os.path.join(rdir, fn))
    paths = []
    for i, v in enumerate(ctx.violations[:20]):
        os.makedirs(rdir, exist_ok=True)
        h = hashlib.sha1(json.dumps(v["obs"], sort_keys=True).encode()).hexdigest()[:12]
        p = os.path.join(rdir, "%s.json" % h)
        with open(p, "w") as f:
            json.dump({"property": ctx.prop, "what": v["what"], "case": v["case"], "obs": v["obs"],
                       "tier": ctx.tier, "seed": ctx.seed}, f, indent=1)
        paths.append(p)
        print("VIOLATION property=%s replay=%s" % (ctx.prop, p), flush=True)
        print("  what: %s" % json.dumps(v["what"])[:600], flush=True)
    summ = {}
    for v in ctx.violations:
        key = json.dumps([v["obs"].get("api", v["obs"].get("op", "")), v["what"].get("failed")])
        summ[key] = summ.get(key, 0) + 1
    for k2, n in sorted(summ.items(), key=lambda kv: -kv[1])[:15]:
        log("violation class %s x%d" % (k2, n))
    cov = dict(ctx.cov)
    cov.update({
        "states": ctx.states, "transitions": ctx.transitions,
        "traces_validated_against_impl": ctx.traces,
        "evaluations": ctx.evals or ctx.traces,
        "distinct_nontrivial": ctx.cov.get("distinct_nontrivial", 0),
        "rule": rule, "exhaustive": exhaustive,
        "known_findings_hit": [k["id"] for k in ctx.known],
        "conformance_drift": ctx.drift[:20],
        "notes": ctx.notes,
    })
    if extra_cov:
        cov.update(extra_cov)
    if not cov["samples"]:
        cov["samples"] = ["(no sample recorded)"]
    ev = {"property_id": ctx.prop, "tier": ctx.tier, "seed": ctx.seed, "level": ctx.level,
          "coverage": cov, "assumptions": ctx.assumptions, "wall_s": round(wall, 2),
          "violations": len(ctx.violations)}
    if not getattr(ctx, "replay", None):          # a replay of one recorded input is not a run of the check: it leaves the evidence alone
        os.makedirs(os.path.join(VERIF, "evidence"), exist_ok=True)
        with open(os.path.join(VERIF, "evidence", "%s.json" % ctx.prop), "w") as f:
            json.dump(ev, f, indent=1)
    for dnote in ctx.drift[:5]:
        log("CONFORMANCE-DRIFT:", json.dumps(dnote)[:400])
    log("%s %s: %d states, %d observations validated, %d violations, %d known findings, %.1fs"
        % (ctx.prop, ctx.tier, ctx.states, ctx.traces, len(ctx.violations), len(ctx.known), wall))
    return 1 if ctx.violations else 0


def distinct_count(rows, key):
    return len({json.dumps(key(r), sort_keys=True) for r in rows})


# --------------------------------------------------------------------------
# TLC state dumps (Role B: walk the reachable states of a design model)

def parse_dump(path):
    """Yield {var: value_text} for every state of a TLC -dump file (values may
    wrap over several lines)."""
    cur, name = {}, None
    with open(path) as f:
        for line in f:
            line = line.rstrip("\n")
            if line.startswith("State ") and line.endswith(":"):
                if cur:
                    yield cur
                cur, name = {}, None
                continue
            m = re.match(r"^/\\ (\w+) = (.*)$", line)
            if m:
                name = m.group(1)
                cur[name] = m.group(2)
            elif name is not None and line.strip():
                cur[name] += " " + line.strip()
    if cur:
        yield cur


def parse_dump_var(path, var):
    for st in parse_dump(path):
        yield st[var]


def parse_int_seq(txt):
    txt = txt.strip()
    assert txt.startswith("<<") and txt.endswith(">>"), txt
    body = txt[2:-2].strip()
    return [int(x) for x in body.split(",")] if body else []


# --------------------------------------------------------------------------
# running the driver on cases in crash-isolated child processes

def run_driver_batches(ctx, drv, sub, cases, args=(), batch=5000, timeout=600, random_args=None,
                       mem_kb=4 * 1024 * 1024, reconfirm=True):
    """Runs `drv sub -cases <batch> -out <obs>` per batch of cases, each in its
    own process under a timeout and an address-space limit.  A batch that dies
    or hangs is attributed to the case in flight (inflight file), which is then
    re-run alone; if it reproduces it is returned in `crashes`.
    Returns (rows, crashes) where crashes = [(case, how, output_tail)]."""
    rows, crashes = [], []
    d = ctx.dir("drv_%s" % sub)
    jobs = []
    for i in range(0, len(cases), batch):
        jobs.append((cases[i:i + batch], []))
    if random_args:
        jobs.append(([], list(random_args)))
    if not jobs:
        jobs = [([], [])]
    running = []

    def launch(j, part, extra):
        cf = os.path.join(d, "cases_%d.ndjson" % j)
        of = os.path.join(d, "obs_%d.ndjson" % j)
        inf = os.path.join(d, "inflight_%d.json" % j)
        write_ndjson(cf, part)
        cmd = "ulimit -v %d; exec %s %s -cases %s -out %s -inflight %s -seed %d %s" % (
            mem_kb, drv, sub, cf, of, inf, ctx.seed, " ".join(list(args) + extra))
        p = subprocess.Popen(["/bin/sh", "-c", cmd], stdout=subprocess.PIPE, stderr=subprocess.STDOUT)
        return (p, of, inf, time.time(), part)

    pending = list(enumerate(jobs))
    results = []
    while pending or running:
        while pending and len(running) < NCPU:
            j, (part, extra) = pending.pop(0)
            running.append(launch(j, part, extra))
        still = []
        for (p, of, inf, t0, part) in running:
            rc = p.poll()
            if rc is None:
                if time.time() - t0 > timeout:
                    p.kill()
                    p.wait()
                    results.append((of, inf, "timeout", "", part))
                else:
                    still.append((p, of, inf, t0, part))
                continue
            out = p.stdout.read().decode("utf-8", "replace")
            results.append((of, inf, "ok" if rc == 0 else "rc=%d" % rc, out, part))
        running = still
        time.sleep(0.02)
    for of, inf, how, out, part in results:
        if os.path.exists(of):
            try:
                rows += read_ndjson(of)
            except Exception:
                # a truncated last line after a crash
                with open(of) as f:
                    for line in f:
                        try:
                            rows.append(json.loads(line))
                        except Exception:
                            pass
        if how != "ok":
            case = None
            if os.path.exists(inf):
                try:
                    case = json.load(open(inf))
                except Exception:
                    case = None
            if case is None:
                raise Inconclusive("driver %s died (%s) with no case in flight:\n%s" % (sub, how, out[-3000:]))
            crashes.append((case, how, out[:1200] + "\n...\n" + out[-800:]))
    return rows, crashes
