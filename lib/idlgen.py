"""Independent pretty-printer for Thrift IDL (C11).

Builds random ASTs over the full grammar and renders them as a *script*: a
sequence of layout atoms and tokens (see specs/Lexer.tla for the item
vocabulary), together with the node list the parser is expected to return
(pre-order: kind, depth, name, value) and, per node, which grammar marker
records its position and docstring.  The text is the concatenation of the
items; positions are never computed here - TLC derives them from the script.
"""
import random
import struct

KEYWORDS = {"include", "cpp_include", "namespace", "void", "bool", "byte", "i8", "i16", "i32", "i64", "double", "string",
            "binary", "map", "list", "set", "oneway", "typedef", "struct", "union", "exception", "extends", "throws",
            "service", "enum", "const", "required", "optional", "true", "false"}
RESERVED = set("""BEGIN END __CLASS__ __DIR__ __FILE__ __FUNCTION__ __LINE__ __METHOD__ __NAMESPACE__ abstract alias and args as
assert begin break case catch class clone continue declare def default del delete do dynamic elif else elseif elsif end
enddeclare endfor endforeach endif endswitch endwhile ensure except exec finally float for foreach from function global goto
if implements import in inline instanceof interface is lambda module native new next nil not or package pass public print
private protected raise redo rescue retry register return self sizeof static super switch synchronized then this throw
transient try undef unless unsigned until use var virtual volatile when while with xor yield""".split())

IDENTS = ["a", "b", "Foo", "foo_bar", "x1", "_u", "shared.Baz", "a.b.c", "structure", "i32x", "trueish", "constant",
          "includes", "voided", "i8_", "list_", "ifx", "newer", "T", "Value", "K9", "__x__", "bool_", "optionally"]
BASES = ["bool", "byte", "i8", "i16", "i32", "i64", "double", "string", "binary"]


class Script:
    def __init__(self, rng, layout):
        self.rng = rng
        self.layout = layout          # callable(script, left_token, right_token_or_None) -> list of atoms
        self.items = []               # atoms and tokens in document order
        self.nodes = []               # expected nodes in pre-order
        self.docs = {}                # docstring id -> expected text
        self.pending_pre = []         # markers waiting for the next token
        self.last_tok = None
        self.ndoc = 0
        self.emptybc_rate = 0.0       # how often a block comment is the empty one, "/**/" (known finding: it opens a docstring)

    # ---- nodes
    def node(self, kind, depth, name="", val="", mk="la", hasdoc=False, isnode=True):
        n = {"i": len(self.nodes) + 1, "k": kind, "d": depth, "n": name, "v": val, "mk": mk, "hasdoc": hasdoc, "node": isnode}
        self.nodes.append(n)
        return n["i"]

    def mark(self, m, node):
        self.pending_pre.append({"m": m, "node": node})

    # ---- tokens
    def tok(self, txt, kw=False, wordy=None, post="none", postnode=0):
        if wordy is None:
            wordy = txt[0].isalnum() or txt[0] in "_+-."
        t = {"k": "tok", "txt": txt, "kw": kw, "w": len(txt.encode("utf-8", "surrogateescape")), "pre": self.pending_pre,
             "post": post, "postnode": postnode, "wordy": wordy, "nls": 0, "lw": 0, "id": 0}
        self.pending_pre = []
        gap = self.layout(self, self.last_tok, t)
        self.items.extend(gap)
        self.items.append(t)
        self.last_tok = t
        return t

    def finish(self):
        self.items.extend(self.layout(self, self.last_tok, None))

    def text(self):
        return "".join(it["txt"] for it in self.items)


# ---- layout atoms -----------------------------------------------------------
def sp(txt=" "):
    return {"k": "sp", "txt": txt, "w": len(txt), "nls": 0, "lw": 0, "id": 0}


def nl():
    return {"k": "nl", "txt": "\n", "w": 1, "nls": 1, "lw": 0, "id": 0}


def lc(txt):
    assert "\n" not in txt and (txt.startswith("#") or txt.startswith("//"))
    return {"k": "lc", "txt": txt, "w": len(txt.encode()), "nls": 0, "lw": 0, "id": 0}


def _ml(kind, txt, id=0):
    b = txt.encode()
    n = b.count(b"\n")
    lw = len(b) - (b.rfind(b"\n") + 1) if n else len(b)
    return {"k": kind, "txt": txt, "w": len(b), "nls": n, "lw": lw, "id": id}


def bc(txt):
    assert txt.startswith("/*") and txt.endswith("*/") and (not txt.startswith("/**") or txt == "/**/") and "*/" not in txt[2:-2]
    return _ml("bc", txt)


DOC_SHAPES = [
    # (template with {i} = indentation of continuation lines, expected text)
    ("/** d{n} */", "d{n}"),
    ("/**d{n}*/", "d{n}"),
    ("/***/", ""),
    ("/**\n{i} * first {n}\n{i} * second\n{i} */", "first {n}\nsecond"),
    ("/**\n{i} * a{n}\n{i} *\n{i} *   b\n{i} */", "a{n}\n\n  b"),
    ("/**\n{i} * only {n}\n{i} */", "only {n}"),
    ("/** café {n} */", "café {n}"),
    # continuation lines indented with different kinds of whitespace: the dedent removes as many characters as the first
    # content line is indented, whatever they are
    ("/**\n\t * mixed {n}\n  * second\n */", "mixed {n}\nsecond"),
    ("/**\n\tplain {n}\n    more\n */", "plain {n}\n   more"),
    ("/**\n  * sp {n}\n\t * tab\n\t\t* deeper\n */", "sp {n}\ntab\ndeeper"),
    # blocks of several lines without any text: the docstring is empty
    ("/**\n{i} */", ""),
    ("/**\n\n  \n*/", ""),
    ("/** \n{i}\n{i} */", ""),
]


def doc(script, shape=None, indent="", id=None):
    if id is None:
        script.ndoc += 1
        n, label = script.ndoc, str(script.ndoc)
    else:
        n, label = id, "%02d" % id
    tpl, exp = DOC_SHAPES[shape if shape is not None else script.rng.randrange(len(DOC_SHAPES))]
    txt = tpl.replace("{i}", indent).replace("{n}", label)
    script.docs[str(n)] = exp.replace("{n}", label)
    return _ml("doc", txt, id=n)


# ---- the layout alphabet explored exhaustively by MCLexer.tla -----------------
GAPS = [
    [("sp", " ")], [("nl",)], [("nl",), ("nl",)], [("sp", " "), ("lc", "// c"), ("nl",)], [("bc", "/* c */")], [("bc", "/* a\n b */")],
    [("doc", 0)], [("doc", 0), ("nl",)], [("doc", 0), ("nl",), ("nl",)], [("doc", 3), ("nl",)],
    [("nl",), ("doc", 0), ("sp", " "), ("bc", "/* c */"), ("nl",)], [("doc", 0), ("nl",), ("lc", "// c"), ("nl",)],
    [("sp", "\r"), ("nl",)], [("sp", "\t")], [("doc", 4), ("nl",)], [("bc", "/* a\n b */"), ("nl",)], [("doc", 2), ("nl",)],
    [("doc", 0), ("bc", "/*\n*/")],
    [("doc", 7), ("nl",)], [("doc", 8), ("nl",)], [("doc", 10), ("nl",)],
]


def gap_atoms(script, g, i):
    """the atoms of gap number g (1-based) standing in front of token i"""
    out = []
    for a in GAPS[g - 1]:
        if a[0] == "sp":
            out.append(sp(a[1]))
        elif a[0] == "nl":
            out.append(nl())
        elif a[0] == "lc":
            out.append(lc(a[1]))
        elif a[0] == "bc":
            out.append(bc(a[1]))
        else:
            out.append(doc(script, shape=a[1], id=i))
    return out


def fixed_layout(gaps):
    """layout callback that puts gap gaps[i-1] (0 = trivial) in front of token i, the last one at the end"""
    state = {"i": 0}

    def layout(script, left, right):
        state["i"] += 1
        i = state["i"]
        g = gaps[i - 1] if i <= len(gaps) else 0
        if g == 0:
            return [sp()] if needs_sep(left, right) else []
        return gap_atoms(script, g, i)
    return layout


def export_gaps():
    class _S:
        docs = {}
    return [{"atoms": [strip_item(a) for a in gap_atoms(_S(), g, 0)]} for g in range(1, len(GAPS) + 1)]


def skeleton(seed, gaps=(), **kw):
    rng = random.Random(seed)
    g = Gen(rng, fixed_layout(list(gaps)))
    return g.program(**kw)


def export_skeleton(script):
    toks, prev = [], None
    for it in script.items:
        if it["k"] != "tok":
            continue
        t = strip_item(it)
        t["sep"] = needs_sep(prev, it)
        toks.append(t)
        prev = it
    return {"toks": toks,
            "posnodes": [n["i"] for n in script.nodes if n["mk"] != "none"],
            "nextnodes": [n["i"] for n in script.nodes if n["mk"] == "next"],
            "docnodes": [n["i"] for n in script.nodes if n["hasdoc"]]}


def pick_skeletons(count, maxtoks, seed0=0, tries=4000):
    """small documents that together cover every node kind / marker kind / first-token kind"""
    cands = []
    for sd in range(seed0, seed0 + tries):
        rng = random.Random(sd)
        s = skeleton(sd, nheaders=rng.choice([0, 0, 1]), ndefs=rng.choice([1, 1, 2]))
        nt = sum(1 for it in s.items if it["k"] == "tok")
        if 2 <= nt <= maxtoks:
            feats = set()
            for n in s.nodes:
                feats.add((n["k"], n["mk"]))
            for it in s.items:
                if it["k"] == "tok" and it["pre"]:
                    feats.add(("first", it["kw"], tuple(m["m"] for m in it["pre"])))
            cands.append((sd, nt, feats))
    chosen, covered = [], set()
    while cands and len(chosen) < count:
        best = max(cands, key=lambda c: (len(c[2] - covered), -c[1]))
        if not best[2] - covered and len(chosen) >= 6:
            break
        chosen.append(best[0])
        covered |= best[2]
        cands.remove(best)
    return chosen, covered



# ---- layouts ----------------------------------------------------------------
def needs_sep(left, right):
    return left is not None and right is not None and left["wordy"] and right["wordy"]


def layout_plain(script, left, right):
    if left is None or right is None:
        return []
    return [sp()] if needs_sep(left, right) else []


def make_random_layout(density=0.5):
    def layout(script, left, right):
        r = script.rng
        atoms = []
        if r.random() > density:
            if needs_sep(left, right):
                atoms.append(sp(r.choice([" ", "  ", "\t", " \r"])))
            return atoms
        n = r.choice([1, 1, 1, 2, 2, 3, 4])
        for _ in range(n):
            c = r.random()
            if c < 0.30:
                atoms.append(sp(r.choice([" ", "   ", "\t", "\r", " \t "])))
            elif c < 0.55:
                atoms.append(nl())
            elif c < 0.65:
                atoms.append(lc(r.choice(["# c", "// c", "#", "//", "// /** not a doc */", "# café", "//* x */"])))
                atoms.append(nl())
            elif c < 0.78:
                atoms.append(bc(r.choice(["/* c */", "/* a\n b */", "/*\n\n*/", "/* * / */", "/* café\n */", "/*x*/", "/*/ x */"]) if r.random() > script.emptybc_rate else "/**/"))
            else:
                atoms.append(doc(script, indent=r.choice(["", " ", "    ", "\t"])))
        if needs_sep(left, right) and not atoms:
            atoms.append(sp())
        # a line comment must be closed by a newline before the next token (atoms already guarantee it)
        return atoms
    return layout


# ---- literals ---------------------------------------------------------------
# abstract characters: (source text in double quotes, source text in single quotes, denoted bytes)
LIT_ITEMS = [
    ("a", "a", b"a"), ("Z", "Z", b"Z"), (" ", " ", b" "), ("0", "0", b"0"), ("#", "#", b"#"), ("/", "/", b"/"), ("*", "*", b"*"),
    ("'", "\\'", b"'"), ("\\\"", "\"", b"\""), ("\\'", "\\'", b"'"), ("\\\"", "\\\"", b"\""),
    ("\\\\", "\\\\", b"\\"), ("\\n", "\\n", b"\n"), ("\\t", "\\t", b"\t"), ("\\r", "\\r", b"\r"),
    ("\\x41", "\\x41", b"A"), ("\\x22", "\\x22", b"\""), ("\\x27", "\\x27", b"'"), ("\\101", "\\101", b"A"),
    ("\\u00e9", "\\u00e9", "é".encode()), ("é", "é", "é".encode()), ("\t", "\t", b"\t"),
    ("\\a", "\\a", b"\a"), ("\\0".replace("0", "000"), "\\000", b"\x00"),
]


def literal(rng, maxlen=5, style=None, items=None):
    style = style or rng.choice(["d", "s"])
    items = items if items is not None else [rng.choice(LIT_ITEMS) for _ in range(rng.randrange(0, maxlen + 1))]
    body = "".join(it[0] if style == "d" else it[1] for it in items)
    val = b"".join(it[2] for it in items)
    q = '"' if style == "d" else "'"
    return q + body + q, val


# ---- AST generation ---------------------------------------------------------
class Gen:
    def __init__(self, rng, layout):
        self.r = rng
        self.s = Script(rng, layout)

    def ident(self, dotted=True):
        while True:
            x = self.r.choice(IDENTS)
            if not dotted and "." in x:
                continue
            return x

    def sep(self):
        c = self.r.random()
        if c < 0.3:
            self.s.tok(",")
        elif c < 0.5:
            self.s.tok(";")

    def annotations(self, depth, p=0.25):
        if self.r.random() > p:
            return
        self.s.tok("(")
        for _ in range(self.r.randrange(0, 3)):
            name = self.ident()
            if self.r.random() < 0.7:
                lit, val = literal(self.r)
                a = self.s.node("Annotation", depth, name, val.hex())
                self.s.mark("pos", a)
                self.s.tok(name)
                self.s.tok("=")
                self.s.tok(lit, wordy=False)
            else:
                a = self.s.node("Annotation", depth, name, "")
                self.s.mark("pos", a)
                self.s.tok(name)
            self.sep()
        self.s.tok(")")

    def type(self, depth, rec=2, allow_ann=True):
        c = self.r.random()
        if c < 0.35 or rec == 0 and c < 0.7:
            b = self.r.choice(BASES)
            n = self.s.node("BaseType", depth, "i8" if b == "byte" else b)
            self.s.mark("pos", n)
            self.s.tok(b, kw=True)
            self.annotations(depth + 1, 0.1)
        elif c < 0.7 or rec == 0:
            name = self.ident()
            n = self.s.node("TypeReference", depth, name, mk="self")
            self.s.tok(name, post="self", postnode=n)
        elif c < 0.8:
            n = self.s.node("MapType", depth)
            self.s.mark("pos", n)
            self.s.tok("map", kw=True)
            self.s.tok("<")
            self.type(depth + 1, rec - 1)
            self.s.tok(",")
            self.type(depth + 1, rec - 1)
            self.s.tok(">")
            self.annotations(depth + 1, 0.1)
        else:
            kind = self.r.choice(["list", "set"])
            n = self.s.node("ListType" if kind == "list" else "SetType", depth)
            self.s.mark("pos", n)
            self.s.tok(kind, kw=True)
            self.s.tok("<")
            self.type(depth + 1, rec - 1)
            self.s.tok(">")
            self.annotations(depth + 1, 0.1)

    def integer(self):
        v = self.r.choice([0, 1, 2, 7, 42, 255, 65536, 2 ** 31 - 1, 2 ** 63 - 1, self.r.randrange(0, 1000)])
        form = self.r.choice(["d", "d", "+", "-", "x", "0d"])
        if form == "d":
            return str(v), v
        if form == "+":
            return "+" + str(v), v
        if form == "-":
            return "-" + str(v), -v
        if form == "0d":
            return "00" + str(v), v
        return "0x" + self.r.choice(["%x", "%X", "0%x"]) % v, v

    def double(self):
        txt = self.r.choice(["1.5", "-2.5e3", "1e-5", "3.", "+0.25", "1E2", "6.02e+23", "0.0", "-0.0", "12.e1", "1e0"])
        return txt, struct.pack(">d", float(txt)).hex()

    def value(self, depth, carrier=None, rec=2):
        """carrier: the token after which the value follows directly ('=' or ':'): its `pos` marker is reduced
        before the value's first token is scanned (mk = next)."""
        mk = "next" if carrier is not None else "la"
        c = self.r.random()

        def first(n, txt, **kw):
            if carrier is not None:
                carrier["post"], carrier["postnode"] = "next", n
            else:
                self.s.mark("pos", n)
            return self.s.tok(txt, **kw)
        if c < 0.25:
            txt, v = self.integer()
            first(self.s.node("ConstInt", depth, "", str(v), mk=mk), txt)
        elif c < 0.35:
            txt, bits = self.double()
            first(self.s.node("ConstDouble", depth, "", bits, mk=mk), txt)
        elif c < 0.45:
            b = self.r.choice(["true", "false"])
            first(self.s.node("ConstBool", depth, "", b, mk=mk), b, kw=True)
        elif c < 0.65:
            lit, val = literal(self.r)
            first(self.s.node("ConstString", depth, "", val.hex(), mk=mk), lit, wordy=False)
        elif c < 0.75 or rec == 0:
            name = self.ident()
            first(self.s.node("ConstRef", depth, name, "", mk=mk), name)
        elif c < 0.88:
            first(self.s.node("ConstList", depth, mk=mk), "[")
            for _ in range(self.r.randrange(0, 4)):
                self.value(depth + 1, None, rec - 1)
                self.sep()
            self.s.tok("]")
        else:
            first(self.s.node("ConstMap", depth, mk=mk), "{")
            for _ in range(self.r.randrange(0, 3)):
                it = self.s.node("ConstMapItem", depth + 1)
                self.s.mark("pos", it)
                self.value(depth + 2, None, rec - 1)
                colon = self.s.tok(":")
                self.value(depth + 2, colon, rec - 1)
                self.sep()
            self.s.tok("}")

    def field(self, depth):
        f = self.s.node("Field", depth, hasdoc=True)
        fn = self.s.nodes[f - 1]
        self.s.mark("pos", f)
        self.s.mark("doc", f)
        fid = "unset"
        if self.r.random() < 0.8:
            txt, v = self.integer()
            if abs(v) < 2 ** 31:
                self.s.tok(txt)
                self.s.tok(":")
                fid = str(v)
        req = self.r.choice(["required", "optional", "unspecified"])
        if req != "unspecified":
            self.s.tok(req, kw=True)
        self.type(depth + 1)
        fn["n"] = self.ident(dotted=self.r.random() < 0.1)
        fn["v"] = fid + "/" + req
        self.s.tok(fn["n"])
        if self.r.random() < 0.3:
            eq = self.s.tok("=")
            self.value(depth + 1, eq)
        self.annotations(depth + 1)

    def fields(self, depth, lo=0, hi=3):
        for _ in range(self.r.randrange(lo, hi + 1)):
            self.field(depth)
            self.sep()

    def header(self):
        c = self.r.random()
        if c < 0.4:
            lit, val = literal(self.r)
            name = self.ident(dotted=False) if self.r.random() < 0.3 else ""
            n = self.s.node("Include", 1, name, val.hex())
            self.s.mark("pos", n)
            self.s.tok("include", kw=True)
            if name:
                self.s.tok(name)
            self.s.tok(lit, wordy=False)
        elif c < 0.55:
            lit, val = literal(self.r)
            n = self.s.node("CppInclude", 1, "", val.hex())
            self.s.mark("pos", n)
            self.s.tok("cpp_include", kw=True)
            self.s.tok(lit, wordy=False)
        else:
            scope = self.r.choice(["*", "py", "go", "java"])
            name = self.ident()
            n = self.s.node("Namespace", 1, name, scope)
            self.s.mark("pos", n)
            self.s.tok("namespace", kw=True)
            self.s.tok(scope)
            self.s.tok(name)

    def definition(self):
        c = self.r.random()
        s = self.s
        if c < 0.25:
            name = self.ident()
            n = s.node("Constant", 1, name, hasdoc=True)
            s.mark("pos", n)
            s.mark("doc", n)
            s.tok("const", kw=True)
            self.type(2)
            s.tok(name)
            eq = s.tok("=")
            self.value(2, eq)
        elif c < 0.4:
            name = self.ident()
            n = s.node("Typedef", 1, name, hasdoc=True)
            s.mark("pos", n)
            s.mark("doc", n)
            s.tok("typedef", kw=True)
            self.type(2)
            s.tok(name)
            self.annotations(2)
        elif c < 0.55:
            name = self.ident()
            n = s.node("Enum", 1, name, hasdoc=True)
            s.mark("pos", n)
            s.mark("doc", n)
            s.tok("enum", kw=True)
            s.tok(name)
            s.tok("{")
            for _ in range(self.r.randrange(0, 4)):
                iname = self.ident()
                it = s.node("EnumItem", 2, iname, "auto", hasdoc=True)
                s.mark("pos", it)
                s.mark("doc", it)
                s.tok(iname)
                if self.r.random() < 0.5:
                    txt, v = self.integer()
                    if abs(v) < 2 ** 31:
                        s.tok("=")
                        s.tok(txt)
                        s.nodes[it - 1]["v"] = str(v)
                self.annotations(3)
                self.sep()
            s.tok("}")
            self.annotations(2)
        elif c < 0.8:
            kind = self.r.choice(["struct", "union", "exception"])
            name = self.ident()
            n = s.node("Struct", 1, name, kind, hasdoc=True)
            s.mark("pos", n)
            s.mark("doc", n)
            s.tok(kind, kw=True)
            s.tok(name)
            s.tok("{")
            self.fields(2)
            s.tok("}")
            self.annotations(2)
        else:
            name = self.ident()
            n = s.node("Service", 1, name, hasdoc=True)
            s.mark("pos", n)
            s.mark("doc", n)
            s.tok("service", kw=True)
            s.tok(name)
            if self.r.random() < 0.4:
                pname = self.ident()
                pr = s.node("ParentRef", 2, pname, mk="next", isnode=False)
                s.tok("extends", kw=True, post="next", postnode=pr)
                s.tok(pname)
            s.tok("{")
            for _ in range(self.r.randrange(0, 3)):
                fname = self.ident()
                f = s.node("Function", 2, fname, hasdoc=True)
                s.mark("doc", f)
                s.mark("pos", f)
                v = "twoway"
                if self.r.random() < 0.3:
                    s.tok("oneway", kw=True)
                    v = "oneway"
                if self.r.random() < 0.4:
                    s.tok("void", kw=True)
                    v += "/void"
                else:
                    self.type(3)
                s.nodes[f - 1]["v"] = v
                s.tok(fname)
                s.tok("(")
                self.fields(3, 0, 2)
                s.tok(")")
                if self.r.random() < 0.4:
                    s.tok("throws", kw=True)
                    s.tok("(")
                    self.fields(3, 0, 2)
                    s.tok(")")
                self.annotations(3)
                self.sep()
            s.tok("}")
            self.annotations(2)
        self.sep()

    def program(self, nheaders=None, ndefs=None):
        self.s.node("Program", 0, mk="none")
        for _ in range(self.r.randrange(0, 3) if nheaders is None else nheaders):
            self.header()
        for _ in range(self.r.randrange(0, 5) if ndefs is None else ndefs):
            self.definition()
        self.s.finish()
        return self.s


def strip_item(it):
    """the fields the TLA+ side needs"""
    out = {"k": it["k"], "w": it["w"], "nls": it["nls"], "lw": it["lw"], "id": it["id"]}
    if it["k"] == "tok":
        out.update({"kw": it["kw"], "pre": it["pre"], "post": it["post"], "postnode": it["postnode"]})
    else:
        out.update({"kw": False, "pre": [], "post": "none", "postnode": 0})
    return out


def has_emptybc(data):
    """the known finding's input class: "/**/" followed anywhere later by "*/" """
    k = data.find(b"/**/")
    return k >= 0 and b"*/" in data[k + 4:]


def linelens(data):
    return [len(l) for l in data.split(b"\n")]


def to_case(script, cid):
    text = script.text()
    data = text.encode("utf-8")
    return {"id": cid, "kind": "script", "text": text, "items": [strip_item(i) for i in script.items],
            "emptybc": has_emptybc(data),
            "xnodes": script.nodes, "docs": script.docs or {"0": ""}, "linelens": linelens(data)}


def random_case(seed, cid, density=0.5, emptybc_rate=0.0, **kw):
    rng = random.Random(seed)
    g = Gen(rng, make_random_layout(density))
    g.s.emptybc_rate = emptybc_rate
    return to_case(g.program(**kw), cid)
