---- MODULE MCRedactGen ----
EXTENDS MCRedact
ASSUME WriteCases
====
