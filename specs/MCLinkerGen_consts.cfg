INIT GenInit
NEXT GenNext
CONSTANTS
  Fuel = 24
  Repaired = TRUE
  Family = "consts"
CHECK_DEADLOCK FALSE
