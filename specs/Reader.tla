------------------------------ MODULE Reader ------------------------------
(***************************************************************************)
(* The two decoders of the Thrift Binary Protocol and Skip, transcribed     *)
(* method by method from protocol/binary/stream_reader.go (StreamReader),   *)
(* reader.go (the random-access reader: offsetReader + lazy containers)     *)
(* and lazy_list.go (ForEach re-reads strictly with a fresh reader).        *)
(*                                                                         *)
(* Sequential Go recursion = state-passing RECURSIVE operator.  A result is *)
(*   [ok, p, v, ec, st, al]                                                 *)
(* p  = 1-based index of the next unread byte (consumed = p-1), saturated   *)
(*      at Len(bs)+2 because discardSeek never fails past the end;          *)
(* ec = error class "none" | "eof" | "decode";                              *)
(* st = number of primitive reader calls, al = bytes requested from the     *)
(*      allocator (C13).                                                     *)
(***************************************************************************)
EXTENDS Wire

Nil == [t |-> 0]

Ok(p, v, st, al)   == [ok |-> TRUE,  p |-> p, v |-> v,   ec |-> "none", st |-> st, al |-> al]
Err(p, ec, st, al) == [ok |-> FALSE, p |-> p, v |-> Nil, ec |-> ec,     st |-> st, al |-> al]

Have(bs, p, n) == p + n - 1 <= Len(bs)            \* n bytes available at p
Beyond(bs)     == Len(bs) + 2
Sat(bs, p)     == IF p > Beyond(bs) THEN Beyond(bs) ELSE p

\* advance p by w*n without 32-bit overflow (n may be 2^31-1)
Adv(bs, p, w, n) == IF n > Len(bs) + 2 THEN Beyond(bs) ELSE Sat(bs, p + w * n)

I32At(bs, p) == I32Of(bs[p], bs[p+1], bs[p+2], bs[p+3])
I16At(bs, p) == I16Of(bs[p], bs[p+1])

\* bytesAllocThreshold (stream_reader.go); scaled down in model configs
CONSTANT AllocThreshold

---------------------------------------------------------------------------
(* discard(n): discardStream is CopyN.  discardSeek used to move the offset   *)
(* only (a seek past the end succeeds); since fix eae9dbc it seeks to the last  *)
(* byte being discarded and reads it, so both report input that ends early      *)
(* (two source calls instead of one; nothing at all for n = 0).                 *)
Discard(bs, p, w, n, seek, st) ==
  IF seek /\ (w = 0 \/ n = 0) THEN Ok(p, Nil, st, 0)
  ELSE IF n <= Len(bs) /\ Have(bs, p, w * n) THEN Ok(p + w * n, Nil, st + (IF seek THEN 2 ELSE 1), 0)
       ELSE Err(Beyond(bs) - 1, "eof", st + (IF seek THEN 2 ELSE 1), 0)

---------------------------------------------------------------------------
(* StreamReader.Skip and helpers.                                           *)
RECURSIVE SkipAt(_, _, _, _, _), SkipFields(_, _, _, _), SkipN(_, _, _, _, _, _), SkipKV(_, _, _, _, _, _, _)

SkipAt(bs, p, t, seek, st) ==
  IF FixedWidth(t) > 0 THEN Discard(bs, p, FixedWidth(t), 1, seek, st)
  ELSE CASE t = TBinary ->
         IF ~Have(bs, p, 4) THEN Err(p, "eof", st + 1, 0)
         ELSE LET n == I32At(bs, p) IN
              IF n < 0 THEN Err(p + 4, "decode", st + 1, 0)
              ELSE Discard(bs, p + 4, 1, n, seek, st + 1)
       [] t = TStruct -> SkipFields(bs, p, seek, st)
       [] t = TMap ->
         IF ~Have(bs, p, 6) THEN Err(p, "eof", st + 3, 0)
         ELSE LET n == I32At(bs, p + 2) IN
              IF n < 0 THEN Err(p + 6, "decode", st + 3, 0)
              ELSE SkipKV(bs, p + 6, bs[p], bs[p+1], n, seek, st + 3)
       [] t \in {TSet, TList} ->
         IF ~Have(bs, p, 5) THEN Err(p, "eof", st + 2, 0)
         ELSE LET n == I32At(bs, p + 1) IN
              IF n < 0 THEN Err(p + 5, "decode", st + 2, 0)
              ELSE SkipN(bs, p + 5, bs[p], n, seek, st + 2)
       [] OTHER -> Err(p, "decode", st, 0)          \* unknown ttype

\* skipStruct: ReadInt8; while type # 0: discard(2); Skip(type); ReadInt8
SkipFields(bs, p, seek, st) ==
  IF ~Have(bs, p, 1) THEN Err(p, "eof", st + 1, 0)
  ELSE IF bs[p] = 0 THEN Ok(p + 1, Nil, st + 1, 0)
  ELSE LET d == Discard(bs, p + 1, 2, 1, seek, st + 1) IN
       IF ~d.ok THEN d
       ELSE LET r == SkipAt(bs, d.p, bs[p], seek, d.st) IN
            IF ~r.ok THEN r ELSE SkipFields(bs, r.p, seek, r.st)

\* skipListItems: fixed width => one discard, else loop
SkipN(bs, p, et, n, seek, st) ==
  IF FixedWidth(et) > 0 THEN Discard(bs, p, FixedWidth(et), n, seek, st)
  ELSE IF n = 0 THEN Ok(p, Nil, st, 0)
  ELSE LET r == SkipAt(bs, p, et, seek, st) IN
       IF ~r.ok THEN r ELSE SkipN(bs, r.p, et, n - 1, seek, r.st)

\* skipMapItems: both fixed => one discard, else loop over (key, value)
SkipKV(bs, p, kt, vt, n, seek, st) ==
  IF FixedWidth(kt) > 0 /\ FixedWidth(vt) > 0
  THEN Discard(bs, p, FixedWidth(kt) + FixedWidth(vt), n, seek, st)
  ELSE IF n = 0 THEN Ok(p, Nil, st, 0)
  ELSE LET k == SkipAt(bs, p, kt, seek, st) IN
       IF ~k.ok THEN k
       ELSE LET v == SkipAt(bs, k.p, vt, seek, k.st) IN
            IF ~v.ok THEN v ELSE SkipKV(bs, v.p, kt, vt, n - 1, seek, v.st)

---------------------------------------------------------------------------
(* Scalars and binaries: identical for both readers (ReadFull on the        *)
(* underlying reader; every EOF is "unexpected EOF").                       *)
ReadScalar(bs, p, t, st) ==
  CASE t = TBool ->
         IF ~Have(bs, p, 1) THEN Err(p, "eof", st + 1, 0)
         ELSE IF bs[p] \in {0, 1} THEN Ok(p + 1, Num(TBool, bs[p]), st + 1, 0)
         ELSE Err(p + 1, "decode", st + 1, 0)                 \* ReadBool is strict
    [] t = TI8 ->
         IF ~Have(bs, p, 1) THEN Err(p, "eof", st + 1, 0)
         ELSE Ok(p + 1, Num(TI8, S8(bs[p])), st + 1, 0)
    [] t = TI16 ->
         IF ~Have(bs, p, 2) THEN Err(p, "eof", st + 1, 0)
         ELSE Ok(p + 2, Num(TI16, I16At(bs, p)), st + 1, 0)
    [] t = TI32 ->
         IF ~Have(bs, p, 4) THEN Err(p, "eof", st + 1, 0)
         ELSE Ok(p + 4, Num(TI32, I32At(bs, p)), st + 1, 0)
    [] t \in {TI64, TDouble} ->
         IF ~Have(bs, p, 8) THEN Err(p, "eof", st + 1, 0)
         ELSE Ok(p + 8, Limb(t, LimbsOf(bs, p)), st + 1, 0)
    [] t = TBinary ->
         IF ~Have(bs, p, 4) THEN Err(p, "eof", st + 1, 0)
         ELSE LET n == I32At(bs, p) IN
              IF n < 0 THEN Err(p + 4, "decode", st + 1, 0)
              ELSE IF n = 0 THEN Ok(p + 4, Bin(<<>>), st + 1, 0)
              ELSE IF n > AllocThreshold THEN
                     \* incremental copy: allocation follows the bytes actually present
                     IF n <= Len(bs) /\ Have(bs, p + 4, n)
                     THEN Ok(p + 4 + n, Bin(SubSeq(bs, p + 4, p + 3 + n)), st + 2, n)
                     ELSE Err(Beyond(bs) - 1, "eof", st + 2, Len(bs) - (p + 3))
              ELSE \* make([]byte, n) then ReadFull: n <= AllocThreshold allocated up front
                   IF n <= Len(bs) /\ Have(bs, p + 4, n)
                   THEN Ok(p + 4 + n, Bin(SubSeq(bs, p + 4, p + 3 + n)), st + 2, n)
                   ELSE Err(Beyond(bs) - 1, "eof", st + 2, n)

IsScalarT(t) == t \in ScalarTypes

---------------------------------------------------------------------------
(* Strict (eager) decode = a client driving the stream.Reader API call by   *)
(* call, as generated code does.                                            *)
RECURSIVE DecStrict(_, _, _, _, _), StrictFields(_, _, _, _, _), StrictN(_, _, _, _, _, _, _, _), StrictKV(_, _, _, _, _, _, _, _)

DecStrict(bs, p, t, st, al) ==
  IF IsScalarT(t) THEN LET r == ReadScalar(bs, p, t, st) IN [r EXCEPT !.al = al + r.al]
  ELSE CASE t = TStruct -> StrictFields(bs, p, <<>>, st, al)
       [] t = TMap ->
         IF ~Have(bs, p, 6) THEN Err(p, "eof", st + 3, al)
         ELSE LET n == I32At(bs, p + 2) IN
              IF n < 0 THEN Err(p + 6, "decode", st + 3, al)
              ELSE StrictKV(bs, p + 6, bs[p], bs[p+1], n, <<>>, st + 3, al)
       [] t \in {TSet, TList} ->
         IF ~Have(bs, p, 5) THEN Err(p, "eof", st + 2, al)
         ELSE LET n == I32At(bs, p + 1) IN
              IF n < 0 THEN Err(p + 5, "decode", st + 2, al)
              ELSE StrictN(bs, p + 5, t, bs[p], n, <<>>, st + 2, al)
       [] OTHER -> Err(p, "decode", st, al)

\* ReadFieldBegin: type byte; 0 => stop (no id read); else id; then the value
StrictFields(bs, p, acc, st, al) ==
  IF ~Have(bs, p, 1) THEN Err(p, "eof", st + 1, al)
  ELSE IF bs[p] = 0 THEN Ok(p + 1, [t |-> TStruct, f |-> acc], st + 1, al)
  ELSE IF ~Have(bs, p + 1, 2) THEN Err(p + 1, "eof", st + 2, al)
  ELSE LET r == DecStrict(bs, p + 3, bs[p], st + 2, al) IN
       IF ~r.ok THEN r
       ELSE StrictFields(bs, r.p, Append(acc, [id |-> I16At(bs, p + 1), v |-> r.v]), r.st, r.al)

StrictN(bs, p, ct, et, n, acc, st, al) ==
  IF n = 0 THEN Ok(p, [t |-> ct, et |-> et, e |-> acc], st, al)
  ELSE LET r == DecStrict(bs, p, et, st, al) IN
       IF ~r.ok THEN r ELSE StrictN(bs, r.p, ct, et, n - 1, Append(acc, r.v), r.st, r.al)

StrictKV(bs, p, kt, vt, n, acc, st, al) ==
  IF n = 0 THEN Ok(p, [t |-> TMap, kt |-> kt, vt |-> vt, m |-> acc], st, al)
  ELSE LET k == DecStrict(bs, p, kt, st, al) IN
       IF ~k.ok THEN k
       ELSE LET v == DecStrict(bs, k.p, vt, k.st, k.al) IN
            IF ~v.ok THEN v
            ELSE StrictKV(bs, v.p, kt, vt, n - 1, Append(acc, [k |-> k.v, v |-> v.v]), v.st, v.al)

---------------------------------------------------------------------------
(* Random-access decode (reader.ReadValue) followed by forcing every lazy   *)
(* container.  A container is: header (strict), skip pass with discardSeek, *)
(* the returned offset is the skip pass's; ForEach then re-reads strictly.  *)
RECURSIVE DecLazy(_, _, _, _, _), DecLazyF(_, _, _, _, _, _), LazyFields(_, _, _, _, _, _), LazyN(_, _, _, _, _, _, _, _), LazyKV(_, _, _, _, _, _, _, _)

DecLazyF(bs, p, t, st, al, force) ==
  IF IsScalarT(t) THEN LET r == ReadScalar(bs, p, t, st) IN [r EXCEPT !.al = al + r.al]
  ELSE CASE t = TStruct -> LazyFields(bs, p, <<>>, st, al, force)
       [] t = TMap ->
         IF ~Have(bs, p, 6) THEN Err(p, "eof", st + 3, al)
         ELSE LET n == I32At(bs, p + 2) IN
              IF n < 0 THEN Err(p + 6, "decode", st + 3, al)
              ELSE LET s == SkipKV(bs, p + 6, bs[p], bs[p+1], n, TRUE, st + 3) IN
                   IF ~s.ok THEN [s EXCEPT !.al = al]
                   ELSE IF ~force THEN Ok(s.p, [t |-> TMap, lz |-> TRUE, at |-> p, kt |-> bs[p], vt |-> bs[p+1], n |-> n], s.st, al)
                   ELSE LET f == LazyKV(bs, p + 6, bs[p], bs[p+1], n, <<>>, s.st, al) IN
                        IF ~f.ok THEN f ELSE [f EXCEPT !.p = s.p]
       [] t \in {TSet, TList} ->
         IF ~Have(bs, p, 5) THEN Err(p, "eof", st + 2, al)
         ELSE LET n == I32At(bs, p + 1) IN
              IF n < 0 THEN Err(p + 5, "decode", st + 2, al)
              ELSE LET s == SkipN(bs, p + 5, bs[p], n, TRUE, st + 2) IN
                   IF ~s.ok THEN [s EXCEPT !.al = al]
                   ELSE IF ~force THEN Ok(s.p, [t |-> t, lz |-> TRUE, at |-> p, et |-> bs[p], n |-> n], s.st, al)
                   ELSE LET f == LazyN(bs, p + 5, t, bs[p], n, <<>>, s.st, al) IN
                        IF ~f.ok THEN f ELSE [f EXCEPT !.p = s.p]
       [] OTHER -> Err(p, "decode", st, al)

\* reader.ReadValue first runs to completion without forcing anything (scalars,
\* binaries and struct fields eagerly, containers by a skip pass); only then
\* does the client force the lazy containers (depth-first, in field order).
DecLazy(bs, p, t, st, al) ==
  LET a == DecLazyF(bs, p, t, st, al, FALSE) IN
  IF ~a.ok THEN a ELSE DecLazyF(bs, p, t, a.st, al, TRUE)

LazyFields(bs, p, acc, st, al, force) ==
  IF ~Have(bs, p, 1) THEN Err(p, "eof", st + 1, al)
  ELSE IF bs[p] = 0 THEN Ok(p + 1, [t |-> TStruct, f |-> acc], st + 1, al)
  ELSE IF ~Have(bs, p + 1, 2) THEN Err(p + 1, "eof", st + 2, al)
  ELSE LET r == DecLazyF(bs, p + 3, bs[p], st + 2, al, force) IN
       IF ~r.ok THEN r
       ELSE LazyFields(bs, r.p, Append(acc, [id |-> I16At(bs, p + 1), v |-> r.v]), r.st, r.al, force)

LazyN(bs, p, ct, et, n, acc, st, al) ==
  IF n = 0 THEN Ok(p, [t |-> ct, et |-> et, e |-> acc], st, al)
  ELSE LET r == DecLazy(bs, p, et, st, al) IN
       IF ~r.ok THEN r ELSE LazyN(bs, r.p, ct, et, n - 1, Append(acc, r.v), r.st, r.al)

LazyKV(bs, p, kt, vt, n, acc, st, al) ==
  IF n = 0 THEN Ok(p, [t |-> TMap, kt |-> kt, vt |-> vt, m |-> acc], st, al)
  ELSE LET k == DecLazy(bs, p, kt, st, al) IN
       IF ~k.ok THEN k
       ELSE LET v == DecLazy(bs, k.p, vt, k.st, k.al) IN
            IF ~v.ok THEN v
            ELSE LazyKV(bs, v.p, kt, vt, n - 1, Append(acc, [k |-> k.v, v |-> v.v]), v.st, v.al)

---------------------------------------------------------------------------
(* ForEach on a lazy container: the items are read one by one with a fresh reader (reader.ReadValue), *)
(* i.e. scalars and struct fields eagerly, nested containers again as skip-validated placeholders.     *)
RECURSIVE ItemsN(_, _, _, _, _), ItemsKV(_, _, _, _, _, _)
ItemsN(bs, p, et, n, acc) ==
  IF n = 0 THEN [ok |-> TRUE, e |-> acc, ec |-> "none"]
  ELSE LET r == DecLazyF(bs, p, et, 0, 0, FALSE) IN
       IF ~r.ok THEN [ok |-> FALSE, e |-> <<>>, ec |-> r.ec] ELSE ItemsN(bs, r.p, et, n - 1, Append(acc, r.v))
ItemsKV(bs, p, kt, vt, n, acc) ==
  IF n = 0 THEN [ok |-> TRUE, e |-> acc, ec |-> "none"]
  ELSE LET k == DecLazyF(bs, p, kt, 0, 0, FALSE) IN
       IF ~k.ok THEN [ok |-> FALSE, e |-> <<>>, ec |-> k.ec]
       ELSE LET v == DecLazyF(bs, k.p, vt, 0, 0, FALSE) IN
            IF ~v.ok THEN [ok |-> FALSE, e |-> <<>>, ec |-> v.ec]
            ELSE ItemsKV(bs, v.p, kt, vt, n - 1, Append(acc, [k |-> k.v, v |-> v.v]))
ForceOne(bs, ph) == IF ph.t = TMap THEN ItemsKV(bs, ph.at + 6, ph.kt, ph.vt, ph.n, <<>>)
                    ELSE ItemsN(bs, ph.at + 5, ph.et, ph.n, <<>>)

---------------------------------------------------------------------------

(* Properties of one (input, type) pair.                                    *)
Prefix(bs, p) == SubSeq(bs, 1, p - 1)

Canonical(bs, r)      == r.ok => (r.p <= Len(bs) + 1 /\ Enc(r.v) = Prefix(bs, r.p))
SkipAgrees(bs, t, r)  == r.ok => \A seek \in BOOLEAN :
                            LET s == SkipAt(bs, 1, t, seek, 0) IN s.ok /\ s.p = r.p
ReadersAgree(bs, t)   == LET a == DecLazy(bs, 1, t, 0, 0)  b == DecStrict(bs, 1, t, 0, 0) IN
                         /\ a.ok = b.ok
                         /\ a.ok => (a.v = b.v /\ a.p = b.p)

\* C13 on the model: work and allocation bounded by the input length
Linear(bs, r, K0, K1, C) == r.st <= K0 + K1 * Len(bs) /\ r.al <= C + Len(bs)

=============================================================================
