------------------------------ MODULE C19Trace ------------------------------
(***************************************************************************)
(* C19: service code generation.                                             *)
(* "c19item" lines: for one argument / exception / return value of a service  *)
(* function: the schema type t (with the schema S, every definition carrying  *)
(* its package), the type obtained by formatting the description sent to      *)
(* plugins (formatted), the type of the field in the generated Args / Result   *)
(* struct (generated) and the value type of the response helpers               *)
(* (wrapT / unwrapT); all with package-qualified names.                        *)
(* "c19req" lines: the structure of the request handed to plugins.             *)
(* "helper" lines (lab): the response helpers executed.                        *)
(***************************************************************************)
EXTENDS TraceBase, Service, FiniteSets

VARIABLES l, bad, drift

ChecksItem(e) ==
  LET want == CoreType(e.S, e.t, e.req) IN
  CASE e.role \in {"arg", "exc"} ->
         { <<"described-type-equals-generated-field-type", e.formatted = e.generated>>,
           <<"described-type-is-the-schema-type", e.formatted = want>> }
    [] e.role = "ret" ->
         { <<"described-return-type-equals-helper-value-type", e.formatted = e.wrapT /\ e.formatted = e.unwrapT>>,
           <<"described-return-type-is-the-schema-type", e.formatted = CoreType(e.S, e.t, TRUE)>> }
ConfItem(e) ==
  IF e.role = "ret" THEN { <<"model-result-success-field", e.generated = CoreType(e.S, e.t, FALSE)>> } ELSE {}

Ids(q) == { q[i].id : i \in 1..Len(q) }
Svc(e, id) == CHOOSE i \in 1..Len(e.services) : e.services[i].id = id
RECURSIVE ChainEnds(_, _, _)
ChainEnds(e, id, fuel) == IF id = 0 THEN TRUE ELSE IF fuel = 0 THEN FALSE ELSE ChainEnds(e, e.services[Svc(e, id)].parent, fuel - 1)
Range2(q) == { q[i] : i \in 1..Len(q) }

DeclOf(e, path, name) == LET f == CHOOSE f \in Range2(e.declared) : f.thriftPath = path IN CHOOSE d \in Range2(f.det) : d.name = name
StripFn(fd) == [thriftName |-> fd.thriftName, oneway |-> fd.oneway, args |-> fd.args, excs |-> fd.excs, hasRet |-> fd.hasRet]

ChecksReq(e) ==
  LET sids == Ids(e.services)  mids == Ids(e.modules)
      modOf(id) == e.modules[CHOOSE i \in 1..Len(e.modules) : e.modules[i].id = id]
      \* the services of the files code is generated for: the root file only with --no-recurse, else every file
      genFiles == { e.declared[i] : i \in { j \in 1..Len(e.declared) : ~e.norecurse \/ e.declared[j].isRoot } }
      wantRoots == UNION { { << f.thriftPath, n >> : n \in Range2(f.services) } : f \in genFiles }
      gotRoots == { << modOf(e.services[Svc(e, id)].module).thriftPath, e.services[Svc(e, id)].thriftName >> : id \in Range2(e.rootServices) }
  IN { <<"ids-unique", Cardinality(sids) = Len(e.services) /\ Cardinality(mids) = Len(e.modules)>>,
       <<"module-ids-resolve", \A i \in 1..Len(e.services) : e.services[i].module \in mids>>,
       <<"parent-ids-resolve", \A i \in 1..Len(e.services) : e.services[i].parent = 0 \/ e.services[i].parent \in sids>>,
       <<"parent-chains-acyclic", \A i \in 1..Len(e.services) : ChainEnds(e, e.services[i].id, Len(e.services) + 1)>>,
       \* every described service is a declared one, with the declared parent and exactly the declared functions
       \* (names, oneway, argument and exception names in order, a return type iff not void)
       <<"services-carry-their-declared-parents-and-functions",
            \A i \in 1..Len(e.services) :
              LET s == e.services[i]  path == modOf(s.module).thriftPath IN
              /\ \E f \in Range2(e.declared) : f.thriftPath = path /\ \E d \in Range2(f.det) : d.name = s.thriftName
              /\ LET d == DeclOf(e, path, s.thriftName) IN
                 /\ IF d.parent = << "", "" >> THEN s.parent = 0
                    ELSE /\ s.parent \in sids
                         /\ LET ps == e.services[Svc(e, s.parent)] IN << modOf(ps.module).thriftPath, ps.thriftName >> = d.parent
                 /\ [ k \in 1..Len(s.fdet) |-> StripFn(s.fdet[k]) ] = d.fdet>>,
       <<"root-services-resolve", Range2(e.rootServices) \subseteq sids /\ Range2(e.rootModules) \subseteq mids>>,
       <<"root-services-are-the-services-of-the-generated-files", gotRoots = wantRoots>>,
       <<"module-import-path-and-directory-match-generated-packages",
            /\ \A i \in 1..Len(e.modules) : e.modules[i].importPath = e.prefix \o "/" \o e.modules[i].dir
                                             /\ e.modules[i].dir \o ".thrift" = e.modules[i].thriftPath
            /\ \A d \in Range2(e.generatedDirs) : \E i \in 1..Len(e.modules) : e.modules[i].dir = d>> }

ChecksHelper(e) ==
  { <<"no-panic", e.panic = "" /\ e.known>>,
    <<"helper-found", e.found>>,
    <<"value-wraps-and-unwraps-without-loss", e.found => (e.wrapok /\ e.roundtrip /\ e.unwrapsame)>>,
    <<"declared-exceptions-wrap-and-unwrap", e.found => \A i \in 1..Len(e.excs) : e.excs[i].wrapok /\ e.excs[i].fieldset /\ e.excs[i].unwrapsame /\ e.excs[i].isexc>>,
    <<"undeclared-errors-refused", e.found => (e.undeclared.refused /\ ~e.undeclared.isexc)>> }

Checks(e) == CASE e.op = "c19item" -> ChecksItem(e) [] e.op = "c19req" -> ChecksReq(e) [] e.op = "helper" -> ChecksHelper(e)
               [] OTHER -> { <<"generation-succeeds", FALSE>> }
Conf(e) == IF e.op = "c19item" THEN ConfItem(e) ELSE {}

Init == l = 1 /\ bad = {} /\ drift = {}
Next == /\ l <= Len(Trace)
        /\ l' = l + 1
        /\ bad' = bad \cup Tag(l, Failed(Checks(Trace[l])))
        /\ drift' = drift \cup Tag(l, Failed(Conf(Trace[l])))
Spec == Init /\ [][Next]_<<l, bad, drift>>
Done == l = Len(Trace) + 1 => WriteVerdict(Len(Trace), bad, drift)
=============================================================================
