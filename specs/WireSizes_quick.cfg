INIT Init
NEXT Next
CONSTANTS
  SweepTo = 300
  MaxPow = 17
CHECK_DEADLOCK FALSE
