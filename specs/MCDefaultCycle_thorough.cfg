INIT Init
NEXT Next
CONSTANTS
  MaxDepth = 3
  MaxWidth = 2
  Fuel = 12
  EmitMod = 11
  ClearsAlways = FALSE
INVARIANTS NoOverflow CycleRefused NeverRelinks EmitCase
CHECK_DEADLOCK FALSE
