------------------------------ MODULE C01Trace ------------------------------
(***************************************************************************)
(* C01 (and the valid-input half of C04): generated code judged against the  *)
(* schema-driven reference codec GenCodec.tla.  One line per case:            *)
(*   case.S / case.tn / case.v / case.b  mini-schema, type, logical value,     *)
(*                                       reference encoding                   *)
(*   fw  = value path: Decode + FromWire, projected Go value                   *)
(*   sd  = stream path: Decode(stream.Reader) per read segmentation            *)
(*   tw / se = bytes of ToWire+Encode and of Encode(stream.Writer)             *)
(* "invalid" lines: a schema-violating Go value (built by mutation) must be    *)
(* refused by both serializers.                                                *)
(***************************************************************************)
EXTENDS TraceBase, GoShape

VARIABLES l, bad, drift

T(e) == Ref(e.case.tn)
Want(e) == WithDefaults(e.case.S, T(e), e.case.v)

\* NaN never equals itself: Equals is only required on NaN-free values (C14)
IsNaN(q) == (q[1] % 32768) >= 32752 /\ ((q[1] % 16) # 0 \/ q[2] # 0 \/ q[3] # 0 \/ q[4] # 0)
RECURSIVE HasNaN(_)
HasNaN(v) ==
  CASE v.k = "dbl" -> IsNaN(v.l)
    [] v.k \in {"list", "set"} -> \E i \in 1..Len(v.e) : HasNaN(v.e[i])
    [] v.k = "map" -> \E i \in 1..Len(v.m) : HasNaN(v.m[i].k) \/ HasNaN(v.m[i].v)
    [] v.k = "struct" -> \E i \in 1..Len(v.f) : HasNaN(v.f[i].v)
    [] OTHER -> FALSE

ChecksCodec(e) ==
  LET S == e.case.S IN
  { <<"no-panic", e.panic = "" /\ e.known>>,
    <<"value-path-decodes-reference-encoding", e.fw.ok /\ EqL(FromGo(S, T(e), e.fw.g), Want(e))>>,
    <<"stream-path-decodes-reference-encoding",
        Len(e.sd) >= 1 /\ \A i \in 1..Len(e.sd) : e.sd[i].ok /\ EqL(FromGo(S, T(e), e.sd[i].g), Want(e))>>,
    <<"towire-encoding-decodes-to-value", e.tw.ok /\ EqL(DecRef(S, T(e), e.tw.b), Want(e))>>,
    <<"stream-encoding-decodes-to-value", e.se.ok /\ EqL(DecRef(S, T(e), e.se.b), Want(e))>>,
    <<"paths-agree-equals", HasNaN(Want(e)) \/ e.eq = "true">>,
    <<"string-does-not-panic", e.strlen >= 0>> }

\* the mutation must really have produced an invalid value (otherwise the case is vacuous)
ChecksInvalid(e) ==
  { <<"no-panic", e.panic = "" /\ e.known>>,
    <<"invalid-value-built", e.built>>,
    <<"towire-refuses-invalid-value", e.built => ~e.tw.ok>>,
    <<"stream-encode-refuses-invalid-value", e.built => ~e.se.ok>> }

\* the one schema-conforming nil: a required list (also through typedefs) left as a nil slice is an empty list
ChecksNilList(e) ==
  LET S == e.case.S IN
  { <<"no-panic", e.panic = "" /\ e.known>>,
    <<"nil-list-built", e.built>>,
    <<"towire-encodes-nil-list-as-empty", e.tw.ok /\ EqL(DecRef(S, T(e), e.tw.b), Want(e))>>,
    <<"stream-encodes-nil-list-as-empty", e.se.ok /\ EqL(DecRef(S, T(e), e.se.b), Want(e))>> }

Checks(e) == IF e.op = "invalid" /\ e.case.mut = "nil-list" THEN ChecksNilList(e)
             ELSE IF e.op = "invalid" THEN ChecksInvalid(e) ELSE ChecksCodec(e)

Init == l = 1 /\ bad = {} /\ drift = {}
Next == /\ l <= Len(Trace)
        /\ l' = l + 1
        /\ bad' = bad \cup Tag(l, Failed(Checks(Trace[l])))
        /\ UNCHANGED drift
Spec == Init /\ [][Next]_<<l, bad, drift>>
Done == l = Len(Trace) + 1 => WriteVerdict(Len(Trace), bad, drift)
=============================================================================
