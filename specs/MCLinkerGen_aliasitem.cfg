INIT GenInit
NEXT GenNext
CONSTANTS
  Fuel = 24
  Repaired = TRUE
  Family = "aliasitem"
CHECK_DEADLOCK FALSE
