INIT GenInit
NEXT GenNext
CONSTANTS
  Plugins = {"p1", "p2"}
  HsFaults = {"ok", "nofeature", "garbageflood"}
  GenFaults = {"ok", "exception"}
  ByeFaults = {"ok", "flood"}
  NamesGoodbyeFailure = TRUE
  DetachesStdout = TRUE
CHECK_DEADLOCK FALSE
