SPECIFICATION Spec
CONSTANTS
  MaxRequests = 4
  StopClosesWriter = TRUE
  EmitMod = 0
INVARIANTS OneReplyPerRequest ProtocolAnswered GoodbyeEndsService EndsWhenStdinCloses EmitCase
PROPERTY Terminates
CHECK_DEADLOCK FALSE
