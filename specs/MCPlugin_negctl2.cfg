SPECIFICATION Spec
CONSTANTS
  Plugins = {"p1", "p2"}
  HsFaults = {"ok", "nofeature", "garbageflood"}
  GenFaults = {"ok", "exception"}
  ByeFaults = {"ok", "flood"}
  NamesGoodbyeFailure = TRUE
  DetachesStdout = FALSE
INVARIANTS GenerateOnlyAfterGoodHandshake ExactlyOneGoodbye GoodbyeIsLast AllClosedAllReaped ExitCodeIffFailure FailureNamesPlugin OnlyFailingPluginsNamed WriteOnlyOnSuccess ProtocolAutomaton SentIsScriptDetermined NeverStuck
CHECK_DEADLOCK FALSE
