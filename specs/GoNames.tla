------------------------------ MODULE GoNames ------------------------------
(***************************************************************************)
(* How Thrift identifiers become Go identifiers and which Go names a         *)
(* generated package and a generated struct declare (C06).                    *)
(*                                                                         *)
(* Code anchors: gen/string.go (pascalCase, goCase, constantName,             *)
(* goNameAnnotation), gen/enum.go (enumItemName), gen/field.go                 *)
(* (reservedIdentifiers, checkReservedIdentifier, declFieldName, Accessors'    *)
(* fieldsAndMethods namespace), gen/generator.go (declare: every top-level      *)
(* name of every rendered template is reserved in the package namespace),      *)
(* gen/service.go (<Service>_<Function>_Args / _Result / _Helper).              *)
(*                                                                         *)
(* An identifier is a sequence of chunks (the parts between underscores); a     *)
(* chunk is a sequence of atoms [b |-> base word, c |-> "l" | "t" | "u"]        *)
(* (lower, Title, UPPER).  Text(id) is what the Thrift file says; Go names are   *)
(* compared as strings.                                                         *)
(***************************************************************************)
EXTENDS Integers, Sequences, FiniteSets, TLC

CONSTANT Repaired      \* TRUE: every generated method name is reserved as a field name (fix); FALSE: as pinned

Initialisms == {"url", "id", "http", "api", "json"}

\* rendering of one base word in the three cases
TitleOf == [ foo |-> "Foo", bar |-> "Bar", url |-> "Url", id |-> "Id", http |-> "Http", user |-> "User", string |-> "String",
             to |-> "To", wire |-> "Wire", error |-> "Error", name |-> "Name", marshal |-> "Marshal", log |-> "Log",
             object |-> "Object", method |-> "Method", envelope |-> "Envelope", type |-> "Type", get |-> "Get", is |-> "Is",
             set |-> "Set", ptr |-> "Ptr", equals |-> "Equals", func |-> "Func", range |-> "Range", default |-> "Default",
             thrift |-> "Thrift", module |-> "Module", values |-> "Values", x |-> "X", api |-> "Api", json |-> "Json",
             success |-> "Success", decode |-> "Decode", from |-> "From" ]
UpperOf == [ foo |-> "FOO", bar |-> "BAR", url |-> "URL", id |-> "ID", http |-> "HTTP", user |-> "USER", string |-> "STRING",
             to |-> "TO", wire |-> "WIRE", error |-> "ERROR", name |-> "NAME", marshal |-> "MARSHAL", log |-> "LOG",
             object |-> "OBJECT", method |-> "METHOD", envelope |-> "ENVELOPE", type |-> "TYPE", get |-> "GET", is |-> "IS",
             set |-> "SET", ptr |-> "PTR", equals |-> "EQUALS", func |-> "FUNC", range |-> "RANGE", default |-> "DEFAULT",
             thrift |-> "THRIFT", module |-> "MODULE", values |-> "VALUES", x |-> "X", api |-> "API", json |-> "JSON",
             success |-> "SUCCESS", decode |-> "DECODE", from |-> "FROM" ]
AtomText(a) == CASE a.c = "l" -> a.b [] a.c = "t" -> TitleOf[a.b] [] OTHER -> UpperOf[a.b]

RECURSIVE ChunkText(_, _)
ChunkText(ch, i) == IF i > Len(ch) THEN "" ELSE AtomText(ch[i]) \o ChunkText(ch, i + 1)
RECURSIVE JoinChunks(_, _, _)
JoinChunks(id, i, sep) == IF i > Len(id) THEN ""
                          ELSE ChunkText(id[i], 1) \o (IF i < Len(id) THEN sep ELSE "") \o JoinChunks(id, i + 1, sep)
Text(id) == JoinChunks(id, 1, "_")          \* the identifier as written in the Thrift file

\* pascalCase(allowAllCaps, words...)
IsInitialism(ch) == Len(ch) = 1 /\ ch[1].b \in Initialisms
AllCaps(ch) == \A i \in 1..Len(ch) : ch[i].c = "u"
Lowered(ch) == [ i \in 1..Len(ch) |-> [b |-> ch[i].b, c |-> IF i = 1 THEN "t" ELSE "l"] ]
CapFirst(ch) == [ i \in 1..Len(ch) |-> IF i = 1 /\ ch[i].c = "l" THEN [b |-> ch[i].b, c |-> "t"] ELSE ch[i] ]
PascalChunk(ch, allowAllCaps) ==
  IF ch = << >> THEN << >>
  ELSE IF IsInitialism(ch) THEN << [b |-> ch[1].b, c |-> "u"] >>
  ELSE IF AllCaps(ch) /\ ~allowAllCaps THEN Lowered(ch)
  ELSE CapFirst(ch)
Pascal(id, allowAllCaps) == JoinChunks([ i \in 1..Len(id) |-> PascalChunk(id[i], allowAllCaps) ], 1, "")
GoCase(id) == Pascal(id, Len(id) = 1)        \* goCase: a single ALLCAPS word is left alone
ConstName(id) == Pascal(id, FALSE)           \* constantName, and the item part of enumItemName

---------------------------------------------------------------------------
(* Names declared in a package.  A definition is                               *)
(*   [kind |-> "struct" | "union" | "exception" | "typedef" | "enum" | "const" | "service",   *)
(*    name, goname (go.name annotation or ""), items (enum: identifiers),                      *)
(*    fields (struct-likes: [name, goname, opt]), funcs (services: [name, params])]             *)
RECURSIVE Concat(_, _)
Concat(ss, i) == IF i > Len(ss) THEN << >> ELSE ss[i] \o Concat(ss, i + 1)
NameOfDef(d) == IF d.goname # "" THEN d.goname ELSE IF d.kind = "const" THEN ConstName(d.name) ELSE GoCase(d.name)
\* o = the option set: [zap, embed, helpers, consts] (TRUE = generated)
FuncsOf(d) == IF d.kind = "service" /\ Len(d.funcs) = 0 THEN << [name |-> << << [b |-> "ping", c |-> "l"] >> >>, params |-> << >>] >> ELSE d.funcs
FuncStem(d, f) == GoCase(d.name) \o "_" \o (IF f.name[1][1].b = "ping" THEN "Ping" ELSE GoCase(f.name)) \o "_"
TopNames(d, o) ==
  CASE d.kind = "enum"    -> << NameOfDef(d) >> \o [ i \in 1..Len(d.items) |-> NameOfDef(d) \o ConstName(d.items[i]) ]
    [] d.kind = "service" -> Concat([ k \in 1..Len(FuncsOf(d)) |->
                                       << FuncStem(d, FuncsOf(d)[k]) \o "Args", FuncStem(d, FuncsOf(d)[k]) \o "Result" >>
                                       \o (IF o.helpers THEN << FuncStem(d, FuncsOf(d)[k]) \o "Helper" >> ELSE << >>) ], 1)
    [] d.kind = "const"   -> << NameOfDef(d) >>      \* reserved even when --no-constants leaves it out of the package
    [] OTHER              -> << NameOfDef(d) >>
PackageNames(defs, o) == (IF o.embed THEN << "ThriftModule" >> ELSE << >>) \o Concat([ i \in 1..Len(defs) |-> TopNames(defs[i], o) ], 1)
Distinct(s) == \A i, j \in 1..Len(s) : i # j => s[i] # s[j]

(* Names inside one generated struct *)
FieldName(f) == IF f.goname # "" THEN f.goname ELSE GoCase(f.name)
\* methods every generated struct has; exceptions and the argument / result structs of functions have more
MethodsOf(kind, zap) == {"ToWire", "FromWire", "Encode", "Decode", "String", "Equals"}
                   \cup (IF zap THEN {"MarshalLogObject"} ELSE {})
                   \cup (IF kind = "exception" THEN {"Error", "ErrorName"} ELSE {})
                   \cup (IF kind \in {"args", "result"} THEN {"MethodName", "EnvelopeType"} ELSE {})
\* what checkReservedIdentifier refuses
ReservedOf(kind, zap) == IF Repaired THEN MethodsOf(kind, zap)
                    ELSE {"ToWire", "FromWire", "Encode", "Decode", "String", "Equals"} \cup (IF kind = "exception" THEN {"Error"} ELSE {})
\* Accessors' fieldsAndMethods namespace: every field, Get<Field>, and IsSet<Field> for fields that can be absent
Accessors(fields, kind) == [ i \in 1..Len(fields) |-> "Get" \o FieldName(fields[i]) ]
                           \o Concat([ i \in 1..Len(fields) |-> IF fields[i].opt \/ kind = "union" THEN << "IsSet" \o FieldName(fields[i]) >> ELSE << >> ], 1)
FieldNames(fields) == [ i \in 1..Len(fields) |-> FieldName(fields[i]) ]

\* goNameAnnotation: a go.name must start with an upper-case letter and contain no underscore (strings are opaque to
\* TLC, so validity is a table over the annotation values the models use)
GoNamePool == {"Foo", "String", "ErrorName", "GetBar", "MarshalLogObject", "IsSetBar", "lower", "With_Underscore", "Bar"}
GoNameValid(n) == n = "" \/ n \in GoNamePool \ {"lower", "With_Underscore"}

StructAccepted(fields, kind, zap) ==
  /\ \A i \in 1..Len(fields) : GoNameValid(fields[i].goname) /\ FieldName(fields[i]) \notin ReservedOf(kind, zap)
  /\ Distinct(FieldNames(fields) \o Accessors(fields, kind))
StructBuilds(fields, kind, zap) ==
  /\ StructAccepted(fields, kind, zap)
  /\ \A i \in 1..Len(fields) : FieldName(fields[i]) \notin MethodsOf(kind, zap)

RECURSIVE StructLikes(_, _)
\* all field groups of a program: <<fields, kind>>
StructLikes(defs, i) ==
  IF i > Len(defs) THEN << >>
  ELSE (CASE defs[i].kind \in {"struct", "union", "exception"} -> << << defs[i].fields, defs[i].kind >> >>
          [] defs[i].kind = "service" -> Concat([ k \in 1..Len(defs[i].funcs) |-> << << defs[i].funcs[k].params, "args" >> >> ], 1)
          [] OTHER -> << >>) \o StructLikes(defs, i + 1)

DeclaredNames(defs, o) == (IF o.embed THEN << "ThriftModule" >> ELSE << >>)
                          \o Concat([ i \in 1..Len(defs) |-> IF defs[i].kind = "const" /\ ~o.consts THEN << >> ELSE TopNames(defs[i], o) ], 1)
ModelAccepts(defs, o) == /\ Distinct(PackageNames(defs, o))
                         /\ \A i \in 1..Len(defs) : GoNameValid(defs[i].goname)
                         /\ \E sl \in { StructLikes(defs, 1) } : \A k \in 1..Len(sl) : StructAccepted(sl[k][1], sl[k][2], o.zap)
ModelBuilds(defs, o)  == /\ ModelAccepts(defs, o)
                         /\ \E sl \in { StructLikes(defs, 1) } : \A k \in 1..Len(sl) : StructBuilds(sl[k][1], sl[k][2], o.zap)
AllOn == [zap |-> TRUE, embed |-> TRUE, helpers |-> TRUE, consts |-> TRUE]
AllOff == [zap |-> FALSE, embed |-> FALSE, helpers |-> FALSE, consts |-> FALSE]
OptionSets == {AllOn, AllOff}

(* The IDL's own rules on names (compile/: top-level names and fields are case sensitive, enum items and     *)
(* functions of a service are compared without regard to case)                                              *)
LowerChunk(ch) == [ i \in 1..Len(ch) |-> [b |-> ch[i].b, c |-> "l"] ]
LowerText(id) == JoinChunks([ i \in 1..Len(id) |-> LowerChunk(id[i]) ], 1, "_")
IDLValid(defs) ==
  /\ Distinct([ i \in 1..Len(defs) |-> Text(defs[i].name) ])
  /\ \A i \in 1..Len(defs) :
       /\ Distinct([ k \in 1..Len(defs[i].items) |-> LowerText(defs[i].items[k]) ])
       /\ Distinct([ k \in 1..Len(defs[i].fields) |-> Text(defs[i].fields[k].name) ])
       /\ Distinct([ k \in 1..Len(defs[i].funcs) |-> LowerText(defs[i].funcs[k].name) ])
       /\ \A k \in 1..Len(defs[i].funcs) : Distinct([ m \in 1..Len(defs[i].funcs[k].params) |-> Text(defs[i].funcs[k].params[m].name) ])

(* The conservative reading of "names do not clash once mapped to Go identifiers": nothing the generator      *)
(* declares or defines anywhere shares a name with anything else.                                             *)
AllMethods == MethodsOf("exception", TRUE) \cup MethodsOf("args", TRUE) \cup {"Ptr", "MarshalLogArray", "MarshalJSON", "UnmarshalJSON", "MarshalText", "UnmarshalText"}
Safe(defs) == /\ Distinct(PackageNames(defs, AllOn))
              /\ \A i \in 1..Len(defs) : GoNameValid(defs[i].goname)
              /\ \E sl \in { StructLikes(defs, 1) } : \A k \in 1..Len(sl) :
                   LET fs == sl[k][1] kind == sl[k][2] IN
                   /\ Distinct(FieldNames(fs) \o Accessors(fs, kind))
                   /\ \A i \in 1..Len(fs) : GoNameValid(fs[i].goname) /\ FieldName(fs[i]) \notin AllMethods
=============================================================================
