------------------------------ MODULE C11Trace ------------------------------
(***************************************************************************)
(* C11: what the real parser returned for a document, judged against the       *)
(* document's script (Lexer.tla).  One line per document.                       *)
(*   kind = "script": items (the script), xnodes (the tree the document was     *)
(*     rendered from, pre-order: i, k, d, n, v, mk, hasdoc, node), docs          *)
(*     (docstring id -> text), and the observation: ok, perrs, nodes (the        *)
(*     driver's own pre-order traversal of the returned tree with Info.Pos),     *)
(*     walk (the ast.Walk callback sequence with parents)                        *)
(*   kind = "bytes": arbitrary or token-mutated bytes: totality only             *)
(*   kind = "lit": `const string x = <literal>` with the literal's quote q and     *)
(*     body (bytes) from MCQuote; lit = the bytes of the constant returned          *)
(* linelens = byte length of every line of the document.                         *)
(***************************************************************************)
EXTENDS TraceBase, Lexer, Quote

VARIABLES l, bad, drift

ValueKinds == {"ConstInt", "ConstDouble", "ConstBool", "ConstString"}
N(e) == Len(e.xnodes)
\* value-typed constants are keyed by value in Info's position map: the last equal one wins (known finding)
\* (as Go map keys +0.0 and -0.0 are one key: the doubles are given by their bits)
ZeroBits == {"0000000000000000", "8000000000000000"}
SameKey(a, b) == a.k = b.k /\ (a.v = b.v \/ (a.k = "ConstDouble" /\ a.v \in ZeroBits /\ b.v \in ZeroBits))
LastSame(e, i) == IF e.xnodes[i].k \notin ValueKinds THEN i
                  ELSE CHOOSE j \in i..N(e) : /\ SameKey(e.xnodes[j], e.xnodes[i])
                                              /\ \A m \in (j + 1)..N(e) : ~SameKey(e.xnodes[m], e.xnodes[i])
ObsPos(e, i) == << e.nodes[i].l, e.nodes[i].c >>
Truth(e, r, i) == IF e.xnodes[i].mk = "none" THEN << 0, 0 >> ELSE r.tpos[i]
CodeExp(e, r, i) == IF e.xnodes[i].mk = "none" THEN << 0, 0 >> ELSE r.pos[LastSame(e, i)]
Early(e, i)  == e.xnodes[i].mk = "next" /\ LastSame(e, i) = i        \* position read before the node's first token was scanned
Shared(e, i) == LastSame(e, i) # i
DocText(e, id) == IF id = 0 THEN "" ELSE e.docs[ToString(id)]

SameShape(e) == /\ Len(e.nodes) = N(e)
                /\ \A i \in 1..N(e) : /\ e.nodes[i].k = e.xnodes[i].k /\ e.nodes[i].d = e.xnodes[i].d
                                      /\ e.nodes[i].n = e.xnodes[i].n /\ e.nodes[i].v = e.xnodes[i].v
                                      /\ e.nodes[i].node = e.xnodes[i].node

RealNodes(e) == SelectSeq(e.nodes, LAMBDA x : x.node)
ParentOf(s, i) == CHOOSE j \in 1..(i - 1) : s[j].d = s[i].d - 1 /\ \A m \in (j + 1)..(i - 1) : s[m].d >= s[i].d
WalkTrue(e) ==
  LET s == RealNodes(e) w == e.walk IN
  /\ Len(w) = Len(s)
  /\ \A i \in 1..Len(s) : /\ w[i].k = s[i].k /\ w[i].d = s[i].d /\ w[i].l = s[i].l /\ w[i].c = s[i].c
                          /\ IF i = 1 THEN w[i].pk = "" /\ s[i].d = 0
                             ELSE /\ s[i].d >= 1
                                  /\ \E j \in 1..(i - 1) : s[j].d = s[i].d - 1
                                  /\ LET j == ParentOf(s, i) IN w[i].pk = s[j].k /\ w[i].pl = s[j].l /\ w[i].pc = s[j].c

\* ast.MultiVisitor: visitors that stop descending below depths 1, never, 2, 0 each see the traversal they would see alone
Limits == << 1, -1, 2, 0 >>
MultiWalkTrue(e) ==
  /\ Len(e.mwalk) = Len(Limits)
  /\ \A i \in 1..Len(Limits) : e.mwalk[i] = SelectSeq(e.walk, LAMBDA x : Limits[i] < 0 \/ x.d <= Limits[i])

InsideDocument(e) == \A i \in 1..Len(e.perrs) :
   /\ e.perrs[i].l >= 1 /\ e.perrs[i].l <= Len(e.linelens)
   /\ e.perrs[i].c >= 1 /\ e.perrs[i].c <= e.linelens[e.perrs[i].l] + 1

Totality(e) ==
  { <<"never-panics", ~e.panicked>>,
    <<"program-xor-nonempty-errors", ~e.both /\ ~e.neither /\ (e.ok <=> Len(e.perrs) = 0)>>,
    <<"errors-positioned-inside-the-document", e.panicked \/ e.emptybc \/ InsideDocument(e)>>,
    <<"KNOWN-CLASS-empty-block-comment-opens-a-docstring", e.panicked \/ ~e.emptybc \/ InsideDocument(e)>>,
    <<"entry-points-agree", e.panicked \/ e.plainok>> }

\* known finding: "/**/" followed anywhere later by "*/" is scanned as one docstring
NormalChecks(e, r) ==
  IF ~e.ok THEN { <<"valid-document-accepted", FALSE>> }
  ELSE IF ~SameShape(e) THEN { <<"tree-has-the-structure-names-and-values-of-the-source", FALSE>> }
  ELSE
  { <<"positions-are-the-start-of-the-first-token",
        \A i \in 1..N(e) : (Early(e, i) \/ Shared(e, i)) \/ ObsPos(e, i) = Truth(e, r, i)>>,
    <<"KNOWN-CLASS-position-read-before-the-token", \A i \in 1..N(e) : Early(e, i) => ObsPos(e, i) = Truth(e, r, i)>>,
    <<"KNOWN-CLASS-equal-constants-share-a-position", \A i \in 1..N(e) : Shared(e, i) => ObsPos(e, i) = Truth(e, r, i)>>,
    <<"known-classes-otherwise-exact", \A i \in 1..N(e) : (Early(e, i) \/ Shared(e, i)) => ObsPos(e, i) = CodeExp(e, r, i)>>,
    <<"docstrings-attach-to-the-adjacent-definition",
        \A i \in 1..N(e) : e.nodes[i].doc = (IF e.xnodes[i].hasdoc THEN DocText(e, r.tdocs[i]) ELSE "")>>,
    <<"walk-visits-every-node-once-with-its-parent", WalkTrue(e)>>,
    <<"combined-visitors-each-see-their-own-traversal", MultiWalkTrue(e)>> }

ScriptChecks(e, r) ==
  IF e.emptybc /\ Failed(NormalChecks(e, r)) # {}
  THEN { <<"KNOWN-CLASS-empty-block-comment-opens-a-docstring", FALSE>> }
  ELSE NormalChecks(e, r)

ScriptConf(e, r) ==
  IF e.emptybc \/ ~e.ok \/ ~SameShape(e) THEN {}
  ELSE { <<"positions-as-the-scanner-model-predicts", \A i \in 1..N(e) : ObsPos(e, i) = CodeExp(e, r, i)>>,
         <<"docstrings-as-the-scanner-model-predicts",
             \A i \in 1..N(e) : e.xnodes[i].hasdoc => e.nodes[i].doc = DocText(e, r.doc[i])>> }

LitChecks(e) ==
  { <<"literal-denotes-its-escape-sequences",
        LET d == Denote(e.body) IN IF d.ok THEN e.ok /\ e.lit = d.v ELSE ~e.ok>> }
LitConf(e) ==
  { <<"literal-as-the-unquote-model-predicts",
        LET d == Fixed(e.q, e.body) IN IF d.ok THEN e.ok /\ e.lit = d.v ELSE ~e.ok>> }

Init == l = 1 /\ bad = {} /\ drift = {}
Next == /\ l <= Len(Trace)
        /\ l' = l + 1
        /\ LET e == Trace[l] IN
           IF e.kind = "script"
           THEN \E r \in { Run(e.items) } :
                  /\ bad' = bad \cup Tag(l, Failed(Totality(e) \cup ScriptChecks(e, r)))
                  /\ drift' = drift \cup Tag(l, Failed(ScriptConf(e, r)))
           ELSE IF e.kind = "lit"
           THEN /\ bad' = bad \cup Tag(l, Failed(Totality(e) \cup LitChecks(e)))
                /\ drift' = drift \cup Tag(l, Failed(LitConf(e)))
           ELSE /\ bad' = bad \cup Tag(l, Failed(Totality(e)))
                /\ UNCHANGED drift
Spec == Init /\ [][Next]_<<l, bad, drift>>
Done == l = Len(Trace) + 1 => WriteVerdict(Len(Trace), bad, drift)
=============================================================================
