SPECIFICATION Spec
CONSTANTS
  Checked = TRUE
  MaxItems = 2
INVARIANT NoSilentWrap
CHECK_DEADLOCK FALSE
