SPECIFICATION Spec
CONSTANTS
  MaxElems = 2
  Deep = FALSE
  AllocThreshold = 1048576
INVARIANTS TypeOK WriterCorrect PrefixInv RoundTrip
CHECK_DEADLOCK FALSE
