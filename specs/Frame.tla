------------------------------- MODULE Frame -------------------------------
(***************************************************************************)
(* Length-prefixed frames of internal/frame (reader.go, writer.go).         *)
(* A frame is a 4-byte big-endian unsigned length followed by the payload.  *)
(* Reader.Read: io.ReadFull of the header; lengths below the fast-path size *)
(* are allocated up front (make) and filled with ReadFull, larger ones are  *)
(* copied incrementally (bytes.Buffer + io.CopyN).                          *)
(***************************************************************************)
EXTENDS Wire

CONSTANT FastPathFrameSize        \* 10 MiB in the code; scaled in some configs

FrameBytes(payload) == BE32(Len(payload)) \o payload

\* unsigned value of the 4 header bytes as an ordinal class: TLC integers are
\* 32-bit, so lengths >= 2^31 are represented by the class "huge"
HdrHuge(bs)  == bs[1] >= 128
HdrLen(bs)   == bs[1] * 16777216 + bs[2] * 65536 + bs[3] * 256 + bs[4]      \* only if ~HdrHuge

\* result of one Reader.Read on the byte stream bs (all of it available, then EOF):
\* [ok, payload, rest, ec, al] ; al = bytes requested from the allocator
FrameRead(bs) ==
  IF Len(bs) = 0 THEN [ok |-> FALSE, payload |-> <<>>, rest |-> <<>>, ec |-> "eof-clean", al |-> 0]
  ELSE IF Len(bs) < 4 THEN [ok |-> FALSE, payload |-> <<>>, rest |-> <<>>, ec |-> "eof", al |-> 0]
  ELSE IF HdrHuge(bs) \/ HdrLen(bs) > Len(bs) - 4
       THEN \* not enough payload: fast path has already allocated the whole frame
            [ok |-> FALSE, payload |-> <<>>, rest |-> <<>>, ec |-> "eof",
             al |-> IF ~HdrHuge(bs) /\ HdrLen(bs) < FastPathFrameSize THEN HdrLen(bs) ELSE Len(bs) - 4]
       ELSE LET n == HdrLen(bs) IN
            [ok |-> TRUE, payload |-> SubSeq(bs, 5, 4 + n), rest |-> SubSeq(bs, 5 + n, Len(bs)), ec |-> "none", al |-> n]

\* C13 for the framed transport: allocation is bounded by a constant plus the input
FrameCostOK(bs, C) == FrameRead(bs).al <= C + Len(bs)
=============================================================================
