------------------------------ MODULE C10Trace ------------------------------
(***************************************************************************)
(* C10: code generation is deterministic.  A history-carrying trace spec:   *)
(* the first run of an input (sources + options) fixes its outcome, the set  *)
(* of generated paths with the digest of every file, and the digest of the   *)
(* canonicalised plugin request; every later run of the same input -- in the *)
(* same process, in another process (fresh hash seeds), under another link   *)
(* order -- must reproduce them.                                              *)
(***************************************************************************)
EXTENDS TraceBase, Linker

VARIABLES l, bad, drift, first

Summary(e) == [ok |-> e.ok, files |-> e.files, req |-> e.req]

\* programs of the Linker.tla families carry their abstract program; for those in the known
\* hazard class (a default cast races with linking, finding C07/C10-default-cast-while-linking)
\* a differing outcome is attributed to that finding
ToFn(seq) == [ k \in { x.key : x \in Range(seq) } |-> (CHOOSE x \in Range(seq) : x.key = k).def ]
ProgOf(j) == [ inc |-> [ m \in Mods |-> Range(j.inc[m]) ], ty |-> ToFn(j.ty), co |-> ToFn(j.co), sv |-> ToFn(j.sv) ]
Hazard(e) == Has(e, "prog") /\ \E f \in AllFinals(ProgOf(e.prog)) : f.hz

Checks(e) ==
  { <<"no-panic", e.panic = "">> }
  \cup (IF e.input \in DOMAIN first
        THEN LET sameOutcome == first[e.input].ok = e.ok
                 sameFiles == first[e.input].ok /\ e.ok => first[e.input].files = e.files
                 sameReq == first[e.input].ok /\ e.ok => first[e.input].req = e.req
                 hz == Hazard(e)
             IN { <<"same-outcome-every-time", hz \/ sameOutcome>>,
                  <<"same-paths-and-contents", hz \/ sameFiles>>,
                  <<"same-plugin-request-up-to-ids", hz \/ sameReq>>,
                  <<"KNOWN-CLASS-default-cast-while-linking", ~hz \/ (sameOutcome /\ sameFiles /\ sameReq)>> }
        ELSE {})

Init == l = 1 /\ bad = {} /\ drift = {} /\ first = << >>
Next == /\ l <= Len(Trace)
        /\ l' = l + 1
        /\ LET e == Trace[l] IN
           /\ bad' = bad \cup Tag(l, Failed(Checks(e)))
           /\ first' = IF e.input \in DOMAIN first \/ Has(e, "canary") THEN first ELSE (e.input :> Summary(e)) @@ first
        /\ UNCHANGED drift
Spec == Init /\ [][Next]_<<l, bad, drift, first>>
Done == l = Len(Trace) + 1 => WriteVerdict(Len(Trace), bad, drift)
=============================================================================
