------------------------------ MODULE C03Trace ------------------------------
(***************************************************************************)
(* C03: decoders are total and canonical on arbitrary bytes.  One line per *)
(* (byte string b, requested type t):                                      *)
(*   ra  = random-access ReadValue + forcing every lazy container          *)
(*   st  = eager decode through the stream.Reader API, one entry per read  *)
(*         segmentation policy (non-seekable source)                       *)
(*   sk  = StreamReader.Skip on a seekable source, sks = on pure streams   *)
(* bad   <- the property's predicates (canonical re-encoding, skip agrees) *)
(* drift <- disagreement with the implementation-shaped model Reader.tla   *)
(***************************************************************************)
EXTENDS TraceBase, Reader

VARIABLES l, bad, drift

SkipsAgree(e, n) ==
  /\ e.sk.ok /\ e.sk.n = n
  /\ \A i \in 1..Len(e.sks) : e.sks[i].ok /\ e.sks[i].n = n

CanonicalObs(e, r) == r.ok =>
  /\ r.n <= Len(e.b)
  /\ Enc(r.v) = SubSeq(e.b, 1, r.n)
  /\ SkipsAgree(e, r.n)

Checks(e) == {
  <<"no-panic", e.panic = "">>,
  <<"random-access-canonical", CanonicalObs(e, e.ra)>>,
  \* forcing with wire.EvaluateValue succeeds exactly when every lazily decoded container (keys included) decodes
  <<"evaluate-forces-everything", (e.ra.ec # "skipped" /\ Has(e, "ev")) => ((e.ev = "ok") = e.ra.ok)>>,
  <<"stream-canonical", \A i \in 1..Len(e.st) : CanonicalObs(e, e.st[i])>>,
  \* auxiliary: the real writer re-encodes the decoded value to the consumed prefix as well
  <<"real-reencode", (e.ra.ok /\ Has(e, "reenc")) => e.reenc = SubSeq(e.b, 1, e.ra.n)>> }

\* model conformance
Same(r, m) == /\ r.ok = m.ok
              /\ r.ec = m.ec
              /\ r.ok => (r.n = m.p - 1 /\ r.v = m.v)
SameSkip(r, m) == r.ok = m.ok /\ r.ec = m.ec /\ (r.ok => r.n = m.p - 1)

Conf(e) == {
  <<"model-lazy", e.ra.ec = "skipped" \/ Same(e.ra, DecLazy(e.b, 1, e.t, 0, 0))>>,
  <<"model-strict", \A i \in 1..Len(e.st) : Same(e.st[i], DecStrict(e.b, 1, e.t, 0, 0))>>,
  <<"model-skip-seek", e.sk.ec = "skipped" \/ SameSkip(e.sk, SkipAt(e.b, 1, e.t, TRUE, 0))>>,
  <<"model-skip-stream", \A i \in 1..Len(e.sks) : SameSkip(e.sks[i], SkipAt(e.b, 1, e.t, FALSE, 0))>> }

Init == l = 1 /\ bad = {} /\ drift = {}
Next == /\ l <= Len(Trace)
        /\ l' = l + 1
        /\ bad' = bad \cup Tag(l, Failed(Checks(Trace[l])))
        /\ drift' = drift \cup Tag(l, Failed(Conf(Trace[l])))
Spec == Init /\ [][Next]_<<l, bad, drift>>

Done == l = Len(Trace) + 1 => WriteVerdict(Len(Trace), bad, drift)
=============================================================================
