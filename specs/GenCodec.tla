------------------------------ MODULE GenCodec ------------------------------
(***************************************************************************)
(* Schema-driven reference codec for generated types, and the two decoding  *)
(* paths of generated code as machines over the same input.                  *)
(*                                                                         *)
(* Code anchors: gen/field.go (struct ToWire/FromWire/Encode/Decode field    *)
(* loops, defaults, required checks, union arity), gen/list.go, set.go,      *)
(* map.go (container readers incl. the element-type guard), gen/wire.go,     *)
(* gen/stream.go, gen/typedef.go, gen/enum.go, gen/type.go (Go               *)
(* representation).                                                          *)
(*                                                                         *)
(* A schema S is a sequence of definitions                                   *)
(*   [name, kind, fields, items, target]  kind in struct|union|exception|   *)
(*                                        enum|typedef                       *)
(*   field = [id, name, t, req, def]      def = a logical value or NoDef     *)
(* Type expressions:                                                         *)
(*   [k |-> "bool"|"i8"|"i16"|"i32"|"i64"|"double"|"string"|"binary"]       *)
(*   [k |-> "list", e] [k |-> "set", e] [k |-> "map", kt, vt] [k |-> "ref", n] *)
(* Logical values:                                                           *)
(*   [k |-> "int", n] (bool/i8/i16/i32/enum)  [k |-> "i64", l]  [k |-> "dbl", l] *)
(*   [k |-> "bin", b]  [k |-> "list", e]  [k |-> "set", e]  [k |-> "map", m]   *)
(*   [k |-> "struct", f |-> << [n, v] ... >>]  only the fields that are set,   *)
(*   in declaration order                                                    *)
(***************************************************************************)
EXTENDS Reader, TLC

NoDef == [k |-> "none"]
Bad == [k |-> "BAD"]                     \* decoding error (the generated code returns an error)
BadSeq == << Bad >>                      \* the same for sequence-valued helpers (TLC cannot compare a tuple with a record)
IsBadSeq(q) == Len(q) = 1 /\ q[1] = Bad

Def(S, n) == CHOOSE d \in { S[i] : i \in 1..Len(S) } : d.name = n
Defined(S, n) == \E i \in 1..Len(S) : S[i].name = n

\* follow typedefs to the root type expression
RECURSIVE Root(_, _)
Root(S, t) == IF t.k = "ref" /\ Def(S, t.n).kind = "typedef" THEN Root(S, Def(S, t.n).target) ELSE t

IsStructLike(S, t) == LET r == Root(S, t) IN r.k = "ref" /\ Def(S, r.n).kind \in {"struct", "union", "exception"}
IsEnum(S, t)       == LET r == Root(S, t) IN r.k = "ref" /\ Def(S, r.n).kind = "enum"

\* TypeCode of the root type (what the field header / container header carries)
TypeCode(S, t) ==
  LET r == Root(S, t) IN
  CASE r.k = "bool" -> TBool [] r.k = "i8" -> TI8 [] r.k = "i16" -> TI16 [] r.k = "i32" -> TI32
    [] r.k = "i64" -> TI64 [] r.k = "double" -> TDouble [] r.k \in {"string", "binary"} -> TBinary
    [] r.k = "list" -> TList [] r.k = "set" -> TSet [] r.k = "map" -> TMap
    [] r.k = "ref" -> (IF Def(S, r.n).kind = "enum" THEN TI32 ELSE TStruct)

---------------------------------------------------------------------------
(* logical value -> wire term (the reference serializer) *)
RECURSIVE ToWireRef(_, _, _), FieldsToWire(_, _, _, _), SeqToWire(_, _, _), PairsToWire(_, _, _, _)

SeqToWire(S, t, vs) == IF vs = <<>> THEN <<>> ELSE << ToWireRef(S, t, Head(vs)) >> \o SeqToWire(S, t, Tail(vs))
PairsToWire(S, kt, vt, ms) ==
  IF ms = <<>> THEN <<>>
  ELSE << [k |-> ToWireRef(S, kt, Head(ms).k), v |-> ToWireRef(S, vt, Head(ms).v)] >> \o PairsToWire(S, kt, vt, Tail(ms))

FieldValue(v, name) == LET hit == { i \in 1..Len(v.f) : v.f[i].n = name } IN
                       IF hit = {} THEN NoDef ELSE v.f[CHOOSE i \in hit : TRUE].v

\* fields in declaration order; an unset optional field with a default is written with its default
FieldsToWire(S, fields, v, i) ==
  IF i > Len(fields) THEN <<>>
  ELSE LET fd == fields[i]
           given == FieldValue(v, fd.name)
           val == IF given # NoDef THEN given ELSE fd.def IN
       (IF val = NoDef THEN <<>> ELSE << [id |-> fd.id, v |-> ToWireRef(S, fd.t, val)] >>)
       \o FieldsToWire(S, fields, v, i + 1)

ToWireRef(S, t, v) ==
  LET r == Root(S, t) IN
  CASE r.k = "bool"   -> Num(TBool, v.n)
    [] r.k = "i8"     -> Num(TI8, v.n)
    [] r.k = "i16"    -> Num(TI16, v.n)
    [] r.k = "i32"    -> Num(TI32, v.n)
    [] r.k = "i64"    -> Limb(TI64, v.l)
    [] r.k = "double" -> Limb(TDouble, v.l)
    [] r.k \in {"string", "binary"} -> Bin(v.b)
    [] r.k = "list"   -> [t |-> TList, et |-> TypeCode(S, r.e), e |-> SeqToWire(S, r.e, v.e)]
    [] r.k = "set"    -> [t |-> TSet, et |-> TypeCode(S, r.e), e |-> SeqToWire(S, r.e, v.e)]
    [] r.k = "map"    -> [t |-> TMap, kt |-> TypeCode(S, r.kt), vt |-> TypeCode(S, r.vt), m |-> PairsToWire(S, r.kt, r.vt, v.m)]
    [] r.k = "ref"    -> (IF Def(S, r.n).kind = "enum" THEN Num(TI32, v.n)
                          ELSE [t |-> TStruct, f |-> FieldsToWire(S, Def(S, r.n).fields, v, 1)])

EncRef(S, t, v) == Enc(ToWireRef(S, t, v))

---------------------------------------------------------------------------
(* validity of a logical value (what the serializers must refuse otherwise) *)
SetNames(v) == { v.f[i].n : i \in 1..Len(v.f) }
RECURSIVE Valid(_, _, _)
Valid(S, t, v) ==
  LET r == Root(S, t) IN
  CASE r.k \in {"list", "set"} -> \A i \in 1..Len(v.e) : Valid(S, r.e, v.e[i])
    [] r.k = "map" -> \A i \in 1..Len(v.m) : Valid(S, r.kt, v.m[i].k) /\ Valid(S, r.vt, v.m[i].v)
    [] r.k = "ref" /\ Def(S, r.n).kind # "enum" ->
         LET d == Def(S, r.n) IN
         /\ \A i \in 1..Len(d.fields) :
              LET fd == d.fields[i] given == FieldValue(v, fd.name) IN
              /\ (fd.req /\ fd.def = NoDef) => given # NoDef                 \* required = declared required and no default
              /\ given # NoDef => Valid(S, fd.t, given)
         /\ d.kind = "union" => Cardinality(SetNames(v)) = 1
    [] OTHER -> TRUE

\* what a reader must see: declared defaults filled in
RECURSIVE WithDefaults(_, _, _), DefaultsFields(_, _, _, _), DefaultsSeq(_, _, _), DefaultsPairs(_, _, _, _)
DefaultsSeq(S, t, vs) == IF vs = <<>> THEN <<>> ELSE << WithDefaults(S, t, Head(vs)) >> \o DefaultsSeq(S, t, Tail(vs))
DefaultsPairs(S, kt, vt, ms) ==
  IF ms = <<>> THEN <<>>
  ELSE << [k |-> WithDefaults(S, kt, Head(ms).k), v |-> WithDefaults(S, vt, Head(ms).v)] >> \o DefaultsPairs(S, kt, vt, Tail(ms))
DefaultsFields(S, fields, v, i) ==
  IF i > Len(fields) THEN <<>>
  ELSE LET fd == fields[i]
           given == FieldValue(v, fd.name)
           val == IF given # NoDef THEN given ELSE fd.def IN
       (IF val = NoDef THEN <<>> ELSE << [n |-> fd.name, v |-> WithDefaults(S, fd.t, val)] >>)
       \o DefaultsFields(S, fields, v, i + 1)
WithDefaults(S, t, v) ==
  LET r == Root(S, t) IN
  CASE r.k = "list" -> [k |-> "list", e |-> DefaultsSeq(S, r.e, v.e)]
    [] r.k = "set"  -> [k |-> "set", e |-> DefaultsSeq(S, r.e, v.e)]
    [] r.k = "map"  -> [k |-> "map", m |-> DefaultsPairs(S, r.kt, r.vt, v.m)]
    [] r.k = "ref" /\ Def(S, r.n).kind # "enum" -> [k |-> "struct", f |-> DefaultsFields(S, Def(S, r.n).fields, v, 1)]
    [] OTHER -> v

---------------------------------------------------------------------------
(* wire term -> logical value (the reference deserializer = the field loop of  *)
(* generated FromWire: known id AND matching root wire type => decode, later    *)
(* duplicates overwrite; anything else is ignored; then defaults, required      *)
(* check, union arity).  Element-type mismatch in a container yields the empty  *)
(* (nil) container, as the generated readers do.                                 *)
RECURSIVE FromWireRef(_, _, _), LoopFields(_, _, _, _, _), SeqFromWire(_, _, _), PairsFromWire(_, _, _, _)

SeqFromWire(S, t, ws) ==
  IF ws = <<>> THEN <<>>
  ELSE LET h == FromWireRef(S, t, Head(ws)) rest == SeqFromWire(S, t, Tail(ws)) IN
       IF h = Bad \/ IsBadSeq(rest) THEN BadSeq ELSE << h >> \o rest
PairsFromWire(S, kt, vt, ms) ==
  IF ms = <<>> THEN <<>>
  ELSE LET k == FromWireRef(S, kt, Head(ms).k) v == FromWireRef(S, vt, Head(ms).v)
           rest == PairsFromWire(S, kt, vt, Tail(ms)) IN
       IF k = Bad \/ v = Bad \/ IsBadSeq(rest) THEN BadSeq ELSE << [k |-> k, v |-> v] >> \o rest

\* acc: function field name -> value (latest wins); returns acc or Bad
LoopFields(S, d, wf, i, acc) ==
  IF i > Len(wf) THEN acc
  ELSE LET hits == { j \in 1..Len(d.fields) : d.fields[j].id = wf[i].id /\ TypeCode(S, d.fields[j].t) = wf[i].v.t } IN
       IF hits = {} THEN LoopFields(S, d, wf, i + 1, acc)
       ELSE LET fd == d.fields[CHOOSE j \in hits : TRUE]
                val == FromWireRef(S, fd.t, wf[i].v) IN
            IF val = Bad THEN Bad
            ELSE LoopFields(S, d, wf, i + 1, [acc EXCEPT ![fd.name] = val])

\* a container whose element/key/value wire type does not match is read as a nil Go container:
\* the field counts as set for the required check, but it is nil (absent in the resulting value,
\* not counted as a union member)
NilC(k) == IF k = "map" THEN [k |-> k, m |-> <<>>, nil |-> TRUE] ELSE [k |-> k, e |-> <<>>, nil |-> TRUE]
IsNilC(v) == "nil" \in DOMAIN v

FinishStruct(S, d, acc) ==
  IF acc = Bad THEN Bad
  ELSE LET \* a field left nil (never seen, or read as a nil container) takes its declared default
           val(j) == LET a == acc[d.fields[j].name] IN
                     IF a # NoDef /\ ~IsNilC(a) THEN a
                     ELSE IF d.fields[j].def # NoDef THEN d.fields[j].def ELSE a
           missingReq == \E j \in 1..Len(d.fields) : d.fields[j].req /\ d.fields[j].def = NoDef /\ acc[d.fields[j].name] = NoDef
           nset == Cardinality({ j \in 1..Len(d.fields) : acc[d.fields[j].name] # NoDef /\ ~IsNilC(acc[d.fields[j].name]) })
           setIdx == { j \in 1..Len(d.fields) : val(j) # NoDef /\ ~IsNilC(val(j)) }
           \* fields in declaration order
           RECURSIVE Collect(_)
           Collect(j) == IF j > Len(d.fields) THEN <<>>
                         ELSE (IF j \in setIdx THEN << [n |-> d.fields[j].name, v |-> val(j)] >> ELSE <<>>) \o Collect(j + 1)
       IN IF missingReq THEN Bad
          ELSE IF d.kind = "union" /\ nset # 1 THEN Bad
          ELSE [k |-> "struct", f |-> Collect(1)]

\* A map with hashable keys is a Go map: a key that arrives twice keeps the last pair (doubles: +0 and -0 are one key,
\* a NaN is equal to nothing); other key types are kept as a list of pairs, duplicates included.
GoMapKey(S, t) == LET r == Root(S, t) IN
                  r.k \in {"bool", "i8", "i16", "i32", "i64", "double", "string"} \/ (r.k = "ref" /\ Def(S, r.n).kind = "enum")
DblNaN(q) == (q[1] % 32768) >= 32752 /\ ((q[1] % 16) # 0 \/ q[2] # 0 \/ q[3] # 0 \/ q[4] # 0)
DblZero(q) == (q[1] % 32768) = 0 /\ q[2] = 0 /\ q[3] = 0 /\ q[4] = 0
SameGoKey(a, b) == IF a.k = "dbl" THEN ~DblNaN(a.l) /\ ~DblNaN(b.l) /\ (a.l = b.l \/ (DblZero(a.l) /\ DblZero(b.l))) ELSE a = b
RECURSIVE KeepLast(_, _)
KeepLast(ms, i) == IF i > Len(ms) THEN << >>
                   ELSE (IF \E j \in (i + 1)..Len(ms) : SameGoKey(ms[j].k, ms[i].k) THEN << >> ELSE << ms[i] >>) \o KeepLast(ms, i + 1)

FromWireRef(S, t, w) ==
  LET r == Root(S, t) IN
  CASE r.k \in {"bool", "i8", "i16", "i32"} -> [k |-> "int", n |-> w.n]
    [] r.k = "i64"    -> [k |-> "i64", l |-> w.l]
    [] r.k = "double" -> [k |-> "dbl", l |-> w.l]
    [] r.k \in {"string", "binary"} -> [k |-> "bin", b |-> w.b]
    [] r.k = "list" -> IF w.et # TypeCode(S, r.e) THEN NilC("list")
                       ELSE LET es == SeqFromWire(S, r.e, w.e) IN IF IsBadSeq(es) THEN Bad ELSE [k |-> "list", e |-> es]
    [] r.k = "set"  -> IF w.et # TypeCode(S, r.e) THEN NilC("set")
                       ELSE LET es == SeqFromWire(S, r.e, w.e) IN IF IsBadSeq(es) THEN Bad ELSE [k |-> "set", e |-> es]
    [] r.k = "map"  -> IF w.kt # TypeCode(S, r.kt) \/ w.vt # TypeCode(S, r.vt) THEN NilC("map")
                       ELSE LET ms == PairsFromWire(S, r.kt, r.vt, w.m) IN
                            IF IsBadSeq(ms) THEN Bad ELSE [k |-> "map", m |-> IF GoMapKey(S, r.kt) THEN KeepLast(ms, 1) ELSE ms]
    [] r.k = "ref" ->
         IF Def(S, r.n).kind = "enum" THEN [k |-> "int", n |-> w.n]
         ELSE LET d == Def(S, r.n)
                  acc0 == [ n \in { d.fields[j].name : j \in 1..Len(d.fields) } |-> NoDef ] IN
              FinishStruct(S, d, LoopFields(S, d, w.f, 1, acc0))

\* the whole reference deserializer: bytes -> logical value of struct-like type t, or Bad
DecRef(S, t, bs) ==
  LET w == DecStrict(bs, 1, TStruct, 0, 0) IN
  IF ~w.ok THEN Bad ELSE FromWireRef(S, t, w.v)

---------------------------------------------------------------------------
(* equality of logical values: sets and maps are order-insensitive *)
RECURSIVE EqL(_, _)
SeqEq(a, b)  == Len(a) = Len(b) /\ \A i \in 1..Len(a) : EqL(a[i], b[i])
SetEq(a, b)  == /\ \A i \in 1..Len(a) : \E j \in 1..Len(b) : EqL(a[i], b[j])
                /\ \A j \in 1..Len(b) : \E i \in 1..Len(a) : EqL(a[i], b[j])
MapEq(a, b)  == /\ \A i \in 1..Len(a) : \E j \in 1..Len(b) : EqL(a[i].k, b[j].k) /\ EqL(a[i].v, b[j].v)
                /\ \A j \in 1..Len(b) : \E i \in 1..Len(a) : EqL(a[i].k, b[j].k) /\ EqL(a[i].v, b[j].v)
EqL(a, b) ==
  IF a = Bad \/ b = Bad THEN a = b
  ELSE IF a.k # b.k THEN FALSE
  ELSE CASE a.k = "list" -> SeqEq(a.e, b.e)
         [] a.k = "set"  -> SetEq(a.e, b.e)
         [] a.k = "map"  -> MapEq(a.m, b.m)
         [] a.k = "struct" -> /\ Len(a.f) = Len(b.f)
                              /\ \A i \in 1..Len(a.f) : a.f[i].n = b.f[i].n /\ EqL(a.f[i].v, b.f[i].v)
         [] OTHER -> a = b

=============================================================================
