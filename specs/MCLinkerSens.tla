---------------------------- MODULE MCLinkerSens ----------------------------
(* Tooling (tools/gen_sensitive.sh): with Repaired = FALSE (the pinned linker), *)
(* list the programs of a family on which some link order misbehaves          *)
(* (overflow, outcome or typedef roots differ from Denote).  These are the     *)
(* regression-sensitive programs the quick tier always replays.                *)
EXTENDS MCLinker, Json, SequencesExt
Ser(p) == [ inc |-> [ a |-> SetToSeq(p.inc["a"]), b |-> SetToSeq(p.inc["b"]) ],
            ty |-> SetToSeq({ [key |-> k, def |-> p.ty[k]] : k \in DOMAIN p.ty }),
            co |-> SetToSeq({ [key |-> k, def |-> p.co[k]] : k \in DOMAIN p.co }),
            sv |-> SetToSeq({ [key |-> k, def |-> p.sv[k]] : k \in DOMAIN p.sv }) ]
Misbehaves(p) ==
  LET Dn == Denote(p) IN
  \E f \in AllFinals(p) :
     \/ f.ovf
     \/ (~Bad(f)) # Dn.ok
     \/ (~Bad(f)) /\ \E k \in DOMAIN Dn.roots : ModOf(k) \in Loaded(p) /\ ProjRoot(RootOf(p, f, HEnt(k))) # Dn.roots[k]
     \/ (~Bad(f)) /\ \E k \in SKeysOf(p) : SDefd(p, k) /\ ModOf(k) \in Loaded(p) /\ ParentDepth(f, k, 0) > Cardinality(SKeysOf(p))
Sens == SetToSeq({ p \in Programs : Misbehaves(p) })
ASSUME ndJsonSerialize("sensitive.ndjson", [ i \in 1..Len(Sens) |-> [ id |-> Family \o "-s" \o ToString(i), prog |-> Ser(Sens[i]) ] ])
GenInit == prog = 0 /\ st = 0 /\ mods = <<>> /\ phase = "x" /\ todo = {}
GenNext == UNCHANGED vars
=============================================================================
