SPECIFICATION Spec
CONSTANTS
  Fuel = 24
  Repaired = TRUE
  Family = "lists"
INVARIANTS NoOverflow ParentsFinite OutcomeCorrect RootsCorrect
CHECK_DEADLOCK FALSE
