------------------------------- MODULE MCRedact -------------------------------
(***************************************************************************)
(* Role A / B for C15: for every secret shape x requiredness x kind of        *)
(* struct, a holder that reaches the annotated struct directly, through a      *)
(* list, a set, a map value, a map key (unhashable), a typedef and a typedef    *)
(* of a list; every leaf carries a unique marker.                               *)
(***************************************************************************)
EXTENDS Redact

Digits(n) == << 48 + ((n \div 100) % 10), 48 + ((n \div 10) % 10), 48 + (n % 10) >>
MkStr(n) == << 77, 75 >> \o Digits(n) \o << 81 >>          \* "MK<nnn>Q"
MkBin(n) == << 77, 66 >> \o Digits(n) \o << 81 >>          \* "MB<nnn>Q"
MkInt(n) == 6100000 + n

SecretShapes == { B("string"), B("binary"), B("i32"), Ref("MyStr"), ListOf(B("string")), MapOf(B("string"), B("string")),
                  SetOf(B("i32")), Ref("Inner"), ListOf(Ref("Inner")), MapOf(B("i32"), B("binary")) }

RECURSIVE MVal(_, _, _)
MVal(S, t, n) ==       \* a value of type t whose leaves are markers n, n+1, ...
  LET r == Root(S, t) IN
  CASE r.k = "string" -> Str(MkStr(n))
    [] r.k = "binary" -> Str(MkBin(n))
    [] r.k = "i32" -> I(MkInt(n))
    [] r.k = "list" -> LV(<< MVal(S, r.e, n), MVal(S, r.e, n + 3) >>)
    [] r.k = "set"  -> SV(<< MVal(S, r.e, n), MVal(S, r.e, n + 3) >>)
    [] r.k = "map"  -> MV(<< [k |-> MVal(S, r.kt, n), v |-> MVal(S, r.vt, n + 1)] >>)
    [] r.k = "ref" /\ r.n = "Inner" -> St(<< F("x", I(MkInt(n))), F("s", Str(MkStr(n + 1))) >>)

AField(id, name, t, req, ann) == [id |-> id, name |-> name, t |-> t, req |-> req, def |-> NoDef, ann |-> ann]
\* the spelling of the annotations varies with requiredness and kind, so that every shape meets every spelling
RSpell(req, kind) == IF req THEN (IF kind = "struct" THEN "go.redact" ELSE "go.redact = \"yes\"")
                     ELSE (IF kind = "struct" THEN "go.redact = \"false\"" ELSE "go.redact = \"\"")
NSpell(req, kind) == IF req THEN "go.nolog" ELSE (IF kind = "struct" THEN "go.nolog = \"false\"" ELSE "go.nolog = \"no\"")
SecDef(sh, req, kind) == [name |-> "Sec", kind |-> kind, items |-> <<>>, target |-> B("i32"),
   fields |-> << AField(1, "secret", sh, req, RSpell(req, kind)), AField(2, "plain", B("string"), FALSE, ""), AField(3, "quiet", sh, FALSE, NSpell(req, kind)),
               AField(4, "hushed", sh, FALSE, Both), AField(5, "after", B("string"), FALSE, "") >>]   \* a plain field declared after the unlogged ones
HoldDef == [name |-> "Hold", kind |-> "struct", items |-> <<>>, target |-> B("i32"),
   fields |-> << AField(1, "direct", Ref("Sec"), FALSE, ""), AField(2, "inList", ListOf(Ref("Sec")), FALSE, ""),
                 AField(3, "inMapVal", MapOf(B("string"), Ref("Sec")), FALSE, ""), AField(4, "inMapKey", MapOf(Ref("Sec"), B("string")), FALSE, ""),
                 AField(5, "viaTypedef", Ref("SecAlias"), FALSE, ""), AField(6, "viaTdList", Ref("SecList"), FALSE, ""),
                 AField(7, "inSet", SetOf(Ref("Sec")), FALSE, ""),
                 AField(8, "topSecret", B("string"), FALSE, "go.redact = \"0\""), AField(9, "topQuiet", B("i32"), FALSE, "go.nolog = \"false\""),
                 AField(10, "topAfter", B("string"), FALSE, "") >>]
SchemaFor(sh, req, kind) == Support \o << SecDef(sh, req, kind), Td("SecAlias", Ref("Sec")), Td("SecList", ListOf(Ref("Sec"))), HoldDef >>

SecVal(S, sh, k) == St(<< F("secret", MVal(S, sh, 30 * k)), F("plain", Str(MkStr(30 * k + 16))), F("quiet", MVal(S, sh, 30 * k + 8)),
                           F("hushed", MVal(S, sh, 30 * k + 20)), F("after", Str(MkStr(30 * k + 28))) >>)
HoldVal(S, sh) == St(<< F("direct", SecVal(S, sh, 1)), F("inList", LV(<< SecVal(S, sh, 2), SecVal(S, sh, 3) >>)),
                        F("inMapVal", MV(<< [k |-> Str(<<107, 49>>), v |-> SecVal(S, sh, 4)] >>)),
                        F("inMapKey", MV(<< [k |-> SecVal(S, sh, 5), v |-> Str(<<118>>)] >>)),
                        F("viaTypedef", SecVal(S, sh, 6)), F("viaTdList", LV(<< SecVal(S, sh, 7) >>)),
                        F("inSet", SV(<< SecVal(S, sh, 8) >>)),
                        F("topSecret", Str(MkStr(990))), F("topQuiet", I(MkInt(991))), F("topAfter", Str(MkStr(992))) >>)

Configs == { [sh |-> sh, req |-> rq, kind |-> kd] : sh \in SecretShapes, rq \in BOOLEAN, kd \in {"struct", "exception"} }
CSeq == SetToSeq(Configs)

VARIABLE ci
Init == ci \in 1..Len(CSeq)
Next == UNCHANGED ci
Spec == Init /\ [][Next]_ci
S0 == SchemaFor(CSeq[ci].sh, CSeq[ci].req, CSeq[ci].kind)
V0 == HoldVal(S0, CSeq[ci].sh)
InvValid == Valid(S0, Ref("Hold"), V0)
InvNoLeak == NoLeak(S0, Ref("Hold"), V0)
InvPlainVisible == PlainVisible(S0, Ref("Hold"), V0)
InvMarkersUnique == \A m1, m2 \in Leaves(S0, Ref("Hold"), V0, FALSE, FALSE) : Strip(m1) = Strip(m2) => m1.cls = m2.cls

\* Role B
CaseOf(i) == LET S == SchemaFor(CSeq[i].sh, CSeq[i].req, CSeq[i].kind) v == HoldVal(S, CSeq[i].sh) IN
  [ id |-> "r" \o ToString(i), op |-> "redact", S |-> S, tn |-> "Hold", v |-> v, nsec |-> 9,
    b |-> Enc(ToWireRef(S, Ref("Hold"), v)), markers |-> SetToSeq(Leaves(S, Ref("Hold"), v, FALSE, FALSE)) ]
WriteCases == ndJsonSerialize("cases.ndjson", [ i \in 1..Len(CSeq) |-> CaseOf(i) ])
=============================================================================
