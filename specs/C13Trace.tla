------------------------------ MODULE C13Trace ------------------------------
(***************************************************************************)
(* C13: measured cost of the real decoding APIs on short messages with      *)
(* inflated length fields.  One line per (message, API):                    *)
(*   n = message length, alloc = bytes allocated during the call            *)
(*   (runtime.MemStats.TotalAlloc delta), calls = calls made on the          *)
(*   underlying byte source (Read/ReadAt/Seek).                              *)
(* The bound is the one MCCost.tla establishes for the models:               *)
(*   alloc <= CostC + CostK * n   and   calls <= CallsC + CallsK * n         *)
(***************************************************************************)
EXTENDS TraceBase

CONSTANTS CostC, CostK, CallsC, CallsK

VARIABLES l, bad, drift

Checks(e) == { <<"no-panic", e.panic = "">>,
               <<"alloc-bounded-by-input", e.alloc <= CostC + CostK * e.n>>,
               <<"work-linear-in-input", e.calls <= CallsC + CallsK * e.n>>,
               \* a container the decoder accepted (before anything is forced) declares no more items than the input has bytes
               <<"accepted-containers-are-backed-by-input", e.declared <= e.n>> }

Init == l = 1 /\ bad = {} /\ drift = {}
Next == /\ l <= Len(Trace)
        /\ l' = l + 1
        /\ bad' = bad \cup Tag(l, Failed(Checks(Trace[l])))
        /\ UNCHANGED drift
Spec == Init /\ [][Next]_<<l, bad, drift>>
Done == l = Len(Trace) + 1 => WriteVerdict(Len(Trace), bad, drift)
=============================================================================
