SPECIFICATION Spec
CONSTANTS
  MaxRequests = 5
  StopClosesWriter = FALSE
  EmitMod = 2
INVARIANTS OneReplyPerRequest ProtocolAnswered GoodbyeEndsService EndsWhenStdinCloses EmitCase
PROPERTY Terminates
CHECK_DEADLOCK FALSE
