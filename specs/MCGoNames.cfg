SPECIFICATION Spec
CONSTANTS
  Repaired = TRUE
  EmitMod = 1
  IntMod = 1
  EmitPick = 0
  Families <- AllFamilies
INVARIANTS AcceptedBuilds SafeAccepted
CHECK_DEADLOCK FALSE
