SPECIFICATION Spec
CONSTANTS
  Plugins = {"p1", "p2"}
  HsFaults = {"ok", "nofeature", "wrongname", "garbage", "trunc", "exitbefore"}
  GenFaults = {"ok", "exception", "trunc", "dotdot", "samepath"}
  ByeFaults = {"ok", "noreply"}
  NamesGoodbyeFailure = FALSE
  DetachesStdout = TRUE
INVARIANTS GenerateOnlyAfterGoodHandshake ExactlyOneGoodbye GoodbyeIsLast AllClosedAllReaped ExitCodeIffFailure FailureNamesPlugin OnlyFailingPluginsNamed WriteOnlyOnSuccess ProtocolAutomaton SentIsScriptDetermined NeverStuck
CHECK_DEADLOCK FALSE
