------------------------------ MODULE MCService ------------------------------
(* Role A for C19: the three transcriptions agree on every type expression of   *)
(* depth <= MaxDepth over the leaf types, required and optional.  The type is    *)
(* grown by an action so that BFS is parallel.                                    *)
EXTENDS Service, SchemaFamily

CONSTANT MaxDepth
\* (typedefs of typedefs: what a type is -- pointer, value, reference type -- is decided by the end of the chain)
XSupport == Support \o << Td("MyBin", B("binary")), Td("MyEnumList", ListOf(Ref("Color"))),
                         Td("MyInner2", Ref("MyInner")), Td("MyColor2", Ref("MyColor")), Td("MyList2", Ref("MyList")),
                         [name |-> "Oops", kind |-> "exception", items |-> <<>>, target |-> B("i32"), fields |-> <<>>, pkg |-> "base"],
                         [name |-> "Far", kind |-> "struct", items |-> <<>>, target |-> B("i32"), fields |-> <<>>, pkg |-> "base"],
                         [name |-> "FarEnum", kind |-> "enum", items |-> << [name |-> "A", value |-> 1] >>, target |-> B("i32"), fields |-> <<>>, pkg |-> "base"],
                         [name |-> "FarId", kind |-> "typedef", items |-> <<>>, target |-> B("i64"), fields |-> <<>>, pkg |-> "base"] >>
Leafs == Bases \cup { Ref(n) : n \in {"Color", "Inner", "MyInt", "MyStr", "MyColor", "MyInner", "MyList", "MyLong2", "MyMap", "MySet", "MyBin",
                                      "MyEnumList", "MyInner2", "MyColor2", "MyList2", "Oops", "Far", "FarEnum", "FarId"} }
RECURSIVE Depth(_)
Depth(t) == CASE t.k \in {"list", "set"} -> 1 + Depth(t.e)
              [] t.k = "map" -> 1 + (IF Depth(t.kt) > Depth(t.vt) THEN Depth(t.kt) ELSE Depth(t.vt))
              [] OTHER -> 0
Partners == { B("string"), B("i32"), Ref("Inner"), Ref("Color"), B("binary"), ListOf(B("i64")) }
VARIABLE t
Init == t \in Leafs
Next == /\ Depth(t) < MaxDepth
        /\ \/ t' = ListOf(t)
           \/ t' = SetOf(t) \/ t' = [k |-> "set", e |-> t, slice |-> TRUE]
           \/ \E p \in Partners : t' = MapOf(t, p) \/ t' = MapOf(p, t)
           \* a map that carries the annotation sets use to become slices: it stays a map, for the generator and for plugins
           \/ \E p \in {B("string"), B("i32")} : t' = [k |-> "map", kt |-> p, vt |-> t, slice |-> TRUE]
Spec == Init /\ [][Next]_t
FaithfulInv == \A req \in BOOLEAN : Faithful(XSupport, t, req)
\* Role B: the reachable type expressions are the parameter / return types of the generated services
EmitType == PrintT(<<"TYPE", ToJson(t)>>)
ASSUME PrintT(<<"SUPPORT", ToJson(XSupport)>>)
=============================================================================
