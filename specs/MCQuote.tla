------------------------------ MODULE MCQuote ------------------------------
(***************************************************************************)
(* Roles A and B for the literal half of C11: every literal body of up to      *)
(* MaxLen bytes over an alphabet that contains both quotes, the backslash and    *)
(* the letters and digits that form every kind of escape sequence, in both       *)
(* quoting styles.  The repaired unquoting equals the meaning of the literal;     *)
(* the pinned one does not (negative control).                                    *)
(***************************************************************************)
EXTENDS Quote, TLC, Json

CONSTANTS MaxLen, UsePinned, EmitMod, EmitPick

Alphabet == {97, 92, 39, 34, 110, 120, 117, 50, 55, 52, 49, 48, 113, 32}   \* a \ ' " n x u 2 7 4 1 0 q space

VARIABLES q, body
vars == <<q, body>>
Init == q \in {DQ, SQ} /\ body = << >>
Next == Len(body) < MaxLen /\ \E c \in Alphabet : body' = Append(body, c) /\ UNCHANGED q
Spec == Init /\ [][Next]_vars

Code(qq, b) == IF UsePinned THEN Pinned(qq, b) ELSE Fixed(qq, b)
UnquoteIsDenotation == LexOK(body, 1, q) => Code(q, body) = Denote(body)

RECURSIVE WSum(_, _)
WSum(s, j) == IF j > Len(s) THEN 0 ELSE s[j] * (j + 2) + WSum(s, j + 1)
EmitCase == (LexOK(body, 1, q) /\ (WSum(body, 1) + q) % EmitMod = EmitPick) => PrintT(<<"CASE", ToJson([q |-> q, body |-> body])>>)
=============================================================================
