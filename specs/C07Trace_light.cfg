SPECIFICATION Spec
CONSTANTS
  Fuel = 24
  Repaired = TRUE
  Light = TRUE
INVARIANT Done
CHECK_DEADLOCK FALSE
