SPECIFICATION Spec
CONSTANTS
  Clients = {"c1", "c2", "c3"}
  Mutex = TRUE
INVARIANT OwnReply
CHECK_DEADLOCK FALSE
