------------------------------ MODULE C06Trace ------------------------------
(***************************************************************************)
(* C06: what the real thriftrw binary and the Go compiler did with a program,    *)
(* judged against GoNames.tla.  One line per (program, option set):               *)
(*   defs (the abstract program), o (what the option set leaves switched on),        *)
(*   accepted (exit status 0), compile_rejected (the IDL compiler refused it),      *)
(*   crashed (neither 0 nor 1, or a panic trace), gen_out (diagnostics),            *)
(*   built (go build of the generated packages succeeded), names (top-level          *)
(*   identifiers of the generated package).                                         *)
(* Verdicts on "builds" come from the Go compiler; the model says which programs      *)
(* must be accepted and predicts the rest (conformance).                             *)
(***************************************************************************)
EXTENDS TraceBase, GoNames

VARIABLES l, bad, drift

Shape(e) == e.kind = "names"
Checks(e) ==
  { <<"generator-terminates-normally", ~e.crashed>>,
    <<"accepted-programs-build", e.accepted => (e.built \/ e.shadow)>>,
    \* known finding: an included file named like a local variable of the generator's templates (v, err, key, ...)
    <<"KNOWN-CLASS-import-alias-meets-a-template-local", (e.accepted /\ e.shadow) => e.built>>,
    <<"rejections-carry-an-error", ~e.accepted => e.gen_out # "">>,
    <<"non-clashing-valid-programs-are-accepted",
        IF Shape(e) THEN (Safe(e.defs) /\ IDLValid(e.defs)) => e.accepted ELSE (e.expect = "accept" => e.accepted)>> }

Conf(e) ==
  IF ~Shape(e) THEN {}
  ELSE { <<"accepted-as-the-naming-model-predicts", e.accepted = (IDLValid(e.defs) /\ ModelAccepts(e.defs, e.o))>>,
         <<"builds-as-the-naming-model-predicts", e.accepted => (e.built = ModelBuilds(e.defs, e.o))>>,
         <<"declares-the-predicted-names", e.accepted => Range(DeclaredNames(e.defs, e.o)) \subseteq Range(e.names)>> }

Init == l = 1 /\ bad = {} /\ drift = {}
Next == /\ l <= Len(Trace)
        /\ l' = l + 1
        /\ bad' = bad \cup Tag(l, Failed(Checks(Trace[l])))
        /\ drift' = drift \cup Tag(l, Failed(Conf(Trace[l])))
Spec == Init /\ [][Next]_<<l, bad, drift>>
Done == l = Len(Trace) + 1 => WriteVerdict(Len(Trace), bad, drift)
=============================================================================
