------------------------------- MODULE Service -------------------------------
(***************************************************************************)
(* Go types of service functions, computed three ways (C19):                 *)
(*  CoreType   - the type the core generator gives a field of the generated   *)
(*               Args / Result structs and the response helpers               *)
(*               (gen/type.go: typeName, typeReference, typeReferencePtr)      *)
(*  ApiType    - the description sent to plugins (gen/plugin.go: buildType)    *)
(*  Format     - its rendering by the plugin library (plugin/template.go:      *)
(*               FormatType)                                                   *)
(* Types are written with package-qualified names "pkg.Name"; the harness       *)
(* normalises import aliases the same way.                                      *)
(***************************************************************************)
EXTENDS GenCodec

\* which package defines a name (schema definitions may carry pkg; default "main")
PkgOf(S, n) == LET d == Def(S, n) IN IF "pkg" \in DOMAIN d THEN d.pkg ELSE "main"
Qual(S, n) == PkgOf(S, n) \o "." \o n

IsPrimitive(S, t) == LET r == Root(S, t) IN
  r.k \in {"bool", "i8", "i16", "i32", "i64", "double", "string"} \/ (r.k = "ref" /\ Def(S, r.n).kind = "enum")
IsHashableT(S, t) == IsPrimitive(S, t)
IsReferenceType(S, t) == Root(S, t).k \in {"binary", "map", "list", "set"}
IsStructT(S, t) == LET r == Root(S, t) IN r.k = "ref" /\ Def(S, r.n).kind \in {"struct", "union", "exception"}
SliceSet(t) == "slice" \in DOMAIN t /\ t.slice

BaseGo(k) == CASE k = "bool" -> "bool" [] k = "i8" -> "int8" [] k = "i16" -> "int16" [] k = "i32" -> "int32"
               [] k = "i64" -> "int64" [] k = "double" -> "float64" [] k = "string" -> "string" [] k = "binary" -> "[]byte"

---------------------------------------------------------------------------
(* core generator *)
RECURSIVE TypeName(_, _), TypeRef(_, _)
TypeRef(S, t) == (IF IsStructT(S, t) THEN "*" ELSE "") \o TypeName(S, t)
TypeName(S, t) ==
  CASE t.k \in {"bool", "i8", "i16", "i32", "i64", "double", "string", "binary"} -> BaseGo(t.k)
    [] t.k = "map" -> IF IsHashableT(S, t.kt) THEN "map[" \o TypeRef(S, t.kt) \o "]" \o TypeRef(S, t.vt)
                      ELSE "[]struct{Key " \o TypeRef(S, t.kt) \o "; Value " \o TypeRef(S, t.vt) \o "}"
    [] t.k = "list" -> "[]" \o TypeRef(S, t.e)
    [] t.k = "set" -> IF ~SliceSet(t) /\ IsHashableT(S, t.e) THEN "map[" \o TypeRef(S, t.e) \o "]struct{}"
                      ELSE "[]" \o TypeRef(S, t.e)
    [] t.k = "ref" -> Qual(S, t.n)
TypeRefPtr(S, t) == (IF ~IsReferenceType(S, t) THEN "*" ELSE "") \o TypeName(S, t)
\* a field of a generated struct: required fields by value, others by pointer unless a reference type
CoreType(S, t, required) == IF required THEN TypeRef(S, t) ELSE TypeRefPtr(S, t)

---------------------------------------------------------------------------
(* plugin API description and its formatting; api types as terms                *)
(*   [a |-> "simple", n] [a |-> "slice", e] [a |-> "kv", l, r] [a |-> "map", l, r, slice] [a |-> "ref", n] [a |-> "ptr", e] *)
RECURSIVE ApiType(_, _, _)
ApiType(S, t, required) ==
  LET prim == CASE t.k \in {"bool", "i8", "i16", "i32", "i64", "double", "string"} -> [a |-> "simple", n |-> BaseGo(t.k)]
                [] t.k = "ref" /\ Def(S, t.n).kind = "enum" -> [a |-> "ref", n |-> Qual(S, t.n)]
                [] OTHER -> [a |-> "none"]
  IN IF prim.a # "none" THEN (IF required THEN prim ELSE [a |-> "ptr", e |-> prim])
     ELSE CASE t.k = "binary" -> [a |-> "slice", e |-> [a |-> "simple", n |-> "byte"]]
            [] t.k = "map" -> IF ~IsHashableT(S, t.kt)
                              THEN [a |-> "kv", l |-> ApiType(S, t.kt, TRUE), r |-> ApiType(S, t.vt, TRUE)]
                              ELSE [a |-> "map", l |-> ApiType(S, t.kt, TRUE), r |-> ApiType(S, t.vt, TRUE), slice |-> FALSE]
            [] t.k = "list" -> [a |-> "slice", e |-> ApiType(S, t.e, TRUE)]
            [] t.k = "set" -> IF ~IsHashableT(S, t.e) THEN [a |-> "slice", e |-> ApiType(S, t.e, TRUE)]
                              ELSE [a |-> "map", l |-> ApiType(S, t.e, TRUE), r |-> [a |-> "simple", n |-> "struct{}"], slice |-> SliceSet(t)]
            [] t.k = "ref" /\ Def(S, t.n).kind \in {"struct", "union", "exception"} -> [a |-> "ptr", e |-> [a |-> "ref", n |-> Qual(S, t.n)]]
            [] t.k = "ref" /\ Def(S, t.n).kind = "typedef" ->
                 IF (~required /\ ~IsReferenceType(S, t)) \/ IsStructT(S, t)
                 THEN [a |-> "ptr", e |-> [a |-> "ref", n |-> Qual(S, t.n)]]
                 ELSE [a |-> "ref", n |-> Qual(S, t.n)]

RECURSIVE Format(_)
Format(x) ==
  CASE x.a = "simple" -> x.n
    [] x.a = "slice" -> "[]" \o Format(x.e)
    [] x.a = "kv" -> "[]struct{Key " \o Format(x.l) \o "; Value " \o Format(x.r) \o "}"
    [] x.a = "map" -> IF x.slice THEN "[]" \o Format(x.l) ELSE "map[" \o Format(x.l) \o "]" \o Format(x.r)
    [] x.a = "ref" -> x.n
    [] x.a = "ptr" -> "*" \o Format(x.e)

\* C19 on the model
Faithful(S, t, required) == Format(ApiType(S, t, required)) = CoreType(S, t, required)
=============================================================================
