---------------------------- MODULE WireUniverse ----------------------------
(***************************************************************************)
(* The bounded universe of wire values shared by the C02/C03/C12/C13       *)
(* models and case generators (no variables).                              *)
(***************************************************************************)
EXTENDS Reader, TLC, Json, SequencesExt

CONSTANTS MaxElems,      \* elements/fields per container at depth 1
          Deep           \* include depth-3 values

\* representatives of every wire type used as elements of deeper containers
NestedOf(t) ==
  CASE t = TStruct -> { [t |-> TStruct, f |-> <<>>],
                        [t |-> TStruct, f |-> << [id |-> 1, v |-> Num(TI8, -1)] >>] }
    [] t = TList   -> { [t |-> TList, et |-> TI32, e |-> <<>>],
                        [t |-> TList, et |-> TI32, e |-> << Num(TI32, 16909060) >>] }
    [] t = TSet    -> { [t |-> TSet, et |-> TBinary, e |-> <<>>],
                        [t |-> TSet, et |-> TBinary, e |-> << Bin(<<255>>), Bin(<<>>) >>] }
    [] t = TMap    -> { [t |-> TMap, kt |-> TI16, vt |-> TBool, m |-> <<>>],
                        [t |-> TMap, kt |-> TI16, vt |-> TBool, m |-> << [k |-> Num(TI16, -2), v |-> Num(TBool, 1)] >>] }
    [] OTHER       -> ScalarsSmall(t)

ContainerTypes == {TStruct, TMap, TSet, TList}

ContainersOver(El(_), n) ==
  UNION { ListsOver(El(t), t, n) \cup SetsOver(El(t), t, n) : t \in ContainerTypes }
  \cup UNION { MapsOver(El(kt), El(vt), kt, vt, n) :
                 kt \in ContainerTypes \cup {TBinary, TI32}, vt \in ContainerTypes \cup {TDouble} }
  \cup StructsOver(UNION { El(t) : t \in ContainerTypes }, n, {1, -1})

Depth2 == ContainersOver(NestedOf, 2)

\* depth 3: one more level over a few depth-2 representatives
Nested2Of(t) ==
  CASE t = TStruct -> { [t |-> TStruct, f |-> << [id |-> 2, v |-> CHOOSE x \in NestedOf(TList) : x.e # <<>>] >>] }
    [] t = TList   -> { [t |-> TList, et |-> TStruct, e |-> << CHOOSE x \in NestedOf(TStruct) : x.f # <<>> >>] }
    [] t = TSet    -> { [t |-> TSet, et |-> TMap, e |-> << CHOOSE x \in NestedOf(TMap) : x.m # <<>> >>] }
    [] t = TMap    -> { [t |-> TMap, kt |-> TSet, vt |-> TList,
                         m |-> << [k |-> CHOOSE x \in NestedOf(TSet) : x.e # <<>>, v |-> CHOOSE x \in NestedOf(TList) : x.e = <<>>] >>] }
    [] OTHER       -> ScalarsSmall(t)
Depth3 == ContainersOver(Nested2Of, 2)

Universe == AllScalars \cup Depth1(MaxElems) \cup Depth2 \cup (IF Deep THEN Depth3 ELSE {})

=============================================================================
