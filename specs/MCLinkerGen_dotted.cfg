INIT GenInit
NEXT GenNext
CONSTANTS
  Fuel = 24
  Repaired = TRUE
  Family = "dotted"
CHECK_DEADLOCK FALSE
