------------------------------- MODULE GoShape -------------------------------
(***************************************************************************)
(* Interpretation of the harness's reflection projection of generated Go    *)
(* values ("Go shapes") as logical values, driven by the schema.             *)
(* Go representation (gen/type.go): optional primitives are pointers;        *)
(* lists are slices; sets are map[T]struct{} or, for unhashable elements or   *)
(* go.type = "slice", slices; maps are Go maps or, for unhashable keys,       *)
(* slices of struct{Key; Value}; struct references are pointers.             *)
(***************************************************************************)
EXTENDS SchemaFamily

RECURSIVE FromGo(_, _, _), GoSeq(_, _, _), GoKeys(_, _, _), GoPairs(_, _, _, _), GoFields(_, _, _, _)

GoSeq(S, t, gs) == [ i \in 1..Len(gs) |-> FromGo(S, t, gs[i]) ]
GoKeys(S, t, ms) == [ i \in 1..Len(ms) |-> FromGo(S, t, ms[i].k) ]
GoPairs(S, kt, vt, ps) == [ i \in 1..Len(ps) |-> [k |-> FromGo(S, kt, ps[i].k), v |-> FromGo(S, vt, ps[i].v)] ]

GoField(g, name) == LET hit == { i \in 1..Len(g.f) : g.f[i].n = name } IN
                    IF hit = {} THEN [g |-> "nil"] ELSE g.f[CHOOSE i \in hit : TRUE].v
GoFields(S, fields, g, i) ==
  IF i > Len(fields) THEN <<>>
  ELSE LET fg == GoField(g, fields[i].name) IN
       (IF fg.g = "nil" THEN <<>> ELSE << [n |-> fields[i].name, v |-> FromGo(S, fields[i].t, fg)] >>)
       \o GoFields(S, fields, g, i + 1)

AnyBad(q) == \E i \in 1..Len(q) : q[i] = Bad
AnyBadPair(q) == \E i \in 1..Len(q) : q[i].k = Bad \/ q[i].v = Bad
AnyBadField(q) == \E i \in 1..Len(q) : q[i].v = Bad

FromGo(S, t, g) ==
  LET r == Root(S, t) IN
  CASE r.k \in {"bool", "i8", "i16", "i32"} -> IF g.g = "int" THEN I(g.n) ELSE Bad
    [] r.k = "i64"    -> IF g.g = "i64" THEN L64(g.l) ELSE Bad
    [] r.k = "double" -> IF g.g = "f64" THEN Dbl(g.l) ELSE Bad
    [] r.k = "string" -> IF g.g = "str" THEN Str(g.b) ELSE Bad
    [] r.k = "binary" -> IF g.g = "bytes" THEN Str(g.b) ELSE IF g.g = "nil" THEN Str(<<>>) ELSE Bad
    [] r.k = "list" -> IF g.g = "nil" THEN LV(<<>>)
                       ELSE IF g.g # "slice" THEN Bad
                       ELSE LET q == GoSeq(S, r.e, g.e) IN IF AnyBad(q) THEN Bad ELSE LV(q)
    [] r.k = "set"  -> IF g.g = "nil" THEN SV(<<>>)
                       ELSE IF g.g = "slice" THEN (LET q == GoSeq(S, r.e, g.e) IN IF AnyBad(q) THEN Bad ELSE SV(q))
                       ELSE IF g.g = "map" THEN (LET q == GoKeys(S, r.e, g.m) IN IF AnyBad(q) THEN Bad ELSE SV(q))
                       ELSE Bad
    [] r.k = "map"  -> IF g.g = "nil" THEN MV(<<>>)
                       ELSE IF g.g = "map" THEN (LET q == GoPairs(S, r.kt, r.vt, g.m) IN IF AnyBadPair(q) THEN Bad ELSE MV(q))
                       ELSE IF g.g = "slice" THEN (LET q == GoPairs(S, r.kt, r.vt, g.e) IN IF AnyBadPair(q) THEN Bad ELSE MV(q))
                       ELSE Bad
    [] r.k = "ref" ->
         IF Def(S, r.n).kind = "enum" THEN (IF g.g = "int" THEN I(g.n) ELSE Bad)
         ELSE IF g.g # "struct" THEN Bad
         ELSE LET q == GoFields(S, Def(S, r.n).fields, g, 1) IN IF AnyBadField(q) THEN Bad ELSE St(q)
=============================================================================
