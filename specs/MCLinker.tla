------------------------------ MODULE MCLinker ------------------------------
(***************************************************************************)
(* Role A for C07 / C08 / C09 (self-definition) / C10 (order-freedom):      *)
(* every program of a bounded family x every order in which compiler.link   *)
(* can range over the type / constant / service maps of each module.        *)
(* One Step = one top-level Link call run to completion (the map order is   *)
(* the schedule).  Modules are linked in Walk order (root first).           *)
(***************************************************************************)
EXTENDS Linker

CONSTANT Family      \* which program family Init draws from

TN == {"A", "B", "C"}

\* ---- family "types": three type definitions in module a, every shape -------------
TRefsA == { BaseRef("i32") } \cup { Bare(n) : n \in TN }
TDefsA == { [k |-> "no"], [k |-> "en"] }
          \cup { [k |-> "td", tgt |-> r] : r \in TRefsA }
          \cup { [k |-> "st", fty |-> r, dfl |-> d] : r \in TRefsA, d \in {CNone, CInt, CEMap} }
EmptyCo == [ k \in {Key("a", "x")} |-> [k |-> "no"] ]
EmptySv == [ k \in {Key("a", "S")} |-> [k |-> "no"] ]
IncNone == [ m \in Mods |-> {} ]
ProgTypes == { [inc |-> IncNone, ty |-> t, co |-> EmptyCo, sv |-> EmptySv] :
               t \in [ {Key("a", n) : n \in TN} -> TDefsA ] }

\* ---- family "consts": fixed types (enum E, typedef T = i32, struct S {1: optional T f}),
\*      three constants over every type / value shape incl. references to each other
FixedTy == (Key("a", "E") :> [k |-> "en"]) @@ (Key("a", "T") :> [k |-> "td", tgt |-> BaseRef("i32")])
           @@ (Key("a", "S") :> [k |-> "st", fty |-> Bare("T"), dfl |-> CNone])
CN == {"x", "y", "z"}
CTys == { BaseRef("i32"), BaseRef("string"), Bare("E"), Bare("T"), Bare("S") }
CVals == { CInt, CStr, CMap, CRef("E", "I") } \cup { CRef("", n) : n \in CN }
CDefsA == { [k |-> "no"] } \cup { [k |-> "co", ty |-> t, val |-> v] : t \in CTys, v \in CVals }
ProgConsts == { [inc |-> IncNone, ty |-> FixedTy, co |-> c, sv |-> EmptySv] :
                c \in { f \in [ {Key("a", n) : n \in CN} -> CDefsA ] : f[Key("a", "z")].k = "no" \/ f[Key("a", "z")].ty = BaseRef("i32") } }

\* ---- family "svcs": three services with arbitrary parents (incl. self and cycles)
SN == {"P", "Q", "R"}
SDefsA == { [k |-> "no"], [k |-> "sv", par |-> NoRef] } \cup { [k |-> "sv", par |-> Bare(n)] : n \in SN }
EmptyTy == [ k \in {Key("a", "A")} |-> [k |-> "no"] ]
ProgSvcs == { [inc |-> IncNone, ty |-> EmptyTy, co |-> EmptyCo, sv |-> s] : s \in [ {Key("a", n) : n \in SN} -> SDefsA ] }

\* ---- family "mixed": struct defaults <-> constants <-> structs (finding #2 territory)
MixTy == { (Key("a", "T") :> [k |-> "td", tgt |-> BaseRef("i32")])
           @@ (Key("a", "S") :> [k |-> "st", fty |-> f1, dfl |-> d1])
           @@ (Key("a", "U") :> [k |-> "st", fty |-> f2, dfl |-> d2]) :
           f1 \in {Bare("T"), Bare("U"), BaseRef("i32")}, f2 \in {Bare("S"), Bare("T")},
           d1 \in {CNone, CInt, CEMap, CRef("", "x")}, d2 \in {CNone, CMap, CEMap, CRef("", "x")} }
MixCo == { (Key("a", "x") :> [k |-> "co", ty |-> t, val |-> v]) : t \in {Bare("S"), Bare("U"), Bare("T")}, v \in {CInt, CMap, CEMap} }
ProgMixed == { [inc |-> IncNone, ty |-> t, co |-> c, sv |-> EmptySv] : t \in MixTy, c \in MixCo }

\* ---- family "modules": two files, every include shape (none, a->b, cycle, self, diamond-like sharing),
\*      qualified and bare references across them
IncShapes == { [a |-> ia, b |-> ib] : ia \in SUBSET Mods, ib \in SUBSET Mods }
XRefs == { BaseRef("i32"), Bare("A"), Bare("B"), Qual("b", "A"), Qual("b", "B"), Qual("a", "A") }
ProgModules ==
  { [inc |-> i,
     ty |-> (Key("a", "A") :> [k |-> "td", tgt |-> r1]) @@ (Key("b", "A") :> [k |-> "td", tgt |-> r2])
            @@ (Key("b", "B") :> d3),
     co |-> (Key("a", "x") :> [k |-> "co", ty |-> Bare("A"), val |-> v1]) @@ (Key("b", "x") :> c2),
     sv |-> (Key("a", "P") :> [k |-> "sv", par |-> p1]) @@ (Key("b", "P") :> [k |-> "sv", par |-> p2])] :
    i \in IncShapes, r1 \in XRefs, r2 \in {BaseRef("i32"), Bare("B"), Qual("a", "A")},
    d3 \in { [k |-> "no"], [k |-> "en"], [k |-> "st", fty |-> Bare("A"), dfl |-> CNone] },
    v1 \in {CInt, CRef("b", "x"), CRef("", "x")}, c2 \in { [k |-> "no"], [k |-> "co", ty |-> BaseRef("i32"), val |-> CInt] },
    p1 \in {NoRef, Qual("b", "P"), Bare("P")}, p2 \in {NoRef, Qual("a", "P")} }

\* ---- family "modsvcs": services inheriting across two files.  The included parent has a parent of its own that it
\*      names without qualification, and the including file may define a service of that name: a parent must be linked
\*      in the scope of its own file, whoever asks for it first
Sv(par) == [k |-> "sv", par |-> par]
ProgModSvcs ==
  { [inc |-> i, ty |-> EmptyTy, co |-> EmptyCo,
     sv |-> (Key("a", "P") :> pa) @@ (Key("a", "Q") :> qa) @@ (Key("b", "P") :> pb) @@ (Key("b", "Q") :> qb)] :
    i \in { [a |-> {"b"}, b |-> {}], [a |-> {"b"}, b |-> {"a"}] },
    pa \in { Sv(Qual("b", "P")), Sv(Qual("b", "Q")), Sv(Bare("Q")) },
    qa \in { [k |-> "no"], Sv(NoRef), Sv(Qual("b", "P")) },
    pb \in { Sv(NoRef), Sv(Bare("Q")), Sv(Qual("a", "Q")) },
    qb \in { [k |-> "no"], Sv(NoRef), Sv(Bare("P")) } }

\* ---- family "dotted": definitions of module a whose names contain a dot and read like include-qualified names
\*      ("b.A", "b.x", "b.P" next to an include b that may define A, x, P): the local definition is the one meant
ProgDotted ==
  { [inc |-> i,
     ty |-> (Key("a", "A") :> [k |-> "td", tgt |-> Qual("b", "A")]) @@ (Key("a", "b.A") :> la) @@ (Key("b", "A") :> ba),
     co |-> (Key("a", "y") :> [k |-> "co", ty |-> BaseRef("i32"), val |-> CRef("b", "x")]) @@ (Key("a", "b.x") :> lx) @@ (Key("b", "x") :> bx),
     sv |-> (Key("a", "S") :> Sv(Qual("b", "P"))) @@ (Key("a", "b.P") :> lp) @@ (Key("b", "P") :> bp)] :
    i \in { [a |-> {"b"}, b |-> {}], [a |-> {}, b |-> {}] },
    la \in { [k |-> "no"], [k |-> "en"], [k |-> "td", tgt |-> BaseRef("i32")] },
    ba \in { [k |-> "no"], [k |-> "td", tgt |-> BaseRef("string")], [k |-> "st", fty |-> BaseRef("i32"), dfl |-> CNone] },
    lx \in { [k |-> "no"], [k |-> "co", ty |-> BaseRef("i32"), val |-> CInt], [k |-> "co", ty |-> BaseRef("string"), val |-> CStr] },
    bx \in { [k |-> "no"], [k |-> "co", ty |-> BaseRef("i32"), val |-> CInt] },
    lp \in { [k |-> "no"], Sv(NoRef) }, bp \in { [k |-> "no"], Sv(NoRef) } }

\* ---- family "aliasitem": items of an enum named through a typedef of the enum (R.I with typedef E R): only the enum's
\*      own name qualifies an item, whatever has been linked by the time the reference is met
ProgAliasItem ==
  { [inc |-> IncNone,
     ty |-> (Key("a", "E") :> [k |-> "en"]) @@ (Key("a", "R") :> [k |-> "td", tgt |-> Bare("E")]) @@ (Key("a", "R2") :> r2)
            @@ (Key("a", "S") :> [k |-> "st", fty |-> ft, dfl |-> dv]),
     co |-> (Key("a", "x") :> cx), sv |-> EmptySv] :
    r2 \in { [k |-> "no"], [k |-> "td", tgt |-> Bare("R")] },
    ft \in { Bare("R"), Bare("E") },
    dv \in { CNone, CRef("R", "I"), CRef("E", "I"), CRef("R2", "I") },
    cx \in { [k |-> "no"], [k |-> "co", ty |-> Bare("R"), val |-> CRef("R", "I")], [k |-> "co", ty |-> Bare("E"), val |-> CRef("E", "I")],
             [k |-> "co", ty |-> Bare("R"), val |-> CRef("E", "I")] } }

\* ---- family "lists": list types and list constants across two files that both define an enum E.  A constant of type
\*      list<E> written as a reference to the other file's list<E> constant has to be cast item by item: the two E differ
ProgLists ==
  { [inc |-> [a |-> {"b"}, b |-> {}],
     ty |-> (Key("a", "E") :> ae) @@ (Key("b", "E") :> [k |-> "en"]) @@ (Key("a", "L") :> al) @@ (Key("a", "S") :> as),
     co |-> (Key("b", "x") :> [k |-> "co", ty |-> ListRef("", "E"), val |-> CList(CRef("E", "I"))]) @@ (Key("a", "x") :> ax) @@ (Key("a", "y") :> ay),
     sv |-> EmptySv] :
    ae \in { [k |-> "no"], [k |-> "en"] },
    al \in { [k |-> "no"], [k |-> "td", tgt |-> ListRef("", "E")], [k |-> "td", tgt |-> ListRef("b", "E")] },
    as \in { [k |-> "no"], [k |-> "st", fty |-> ListRef("", "E"), dfl |-> CRef("b", "x")] },
    ax \in { [k |-> "co", ty |-> ListRef("", "E"), val |-> CRef("b", "x")], [k |-> "co", ty |-> ListRef("b", "E"), val |-> CRef("b", "x")],
             [k |-> "co", ty |-> Bare("L"), val |-> CRef("b", "x")], [k |-> "co", ty |-> ListRef("", "E"), val |-> CList(CRef("E", "I"))],
             [k |-> "co", ty |-> ListRef("base", "i32"), val |-> CList(CInt)], [k |-> "co", ty |-> ListRef("base", "i32"), val |-> CRef("b", "x")] },
    ay \in { [k |-> "no"], [k |-> "co", ty |-> ListRef("", "E"), val |-> CRef("", "x")] } }

\* ---- family "selfstruct": constants of a recursive struct type whose literals name constants again, themselves included
\*      (const S x = {"f": x}; x = {"f": y}, y = {"f": x}): a constant is never defined in terms of itself
SLit(v) == CStruct(v)
ProgSelfStruct ==
  { [inc |-> IncNone,
     ty |-> (Key("a", "S") :> [k |-> "st", fty |-> Bare("S"), dfl |-> CNone]) @@ (Key("a", "L") :> [k |-> "td", tgt |-> ListRef("", "S")]),
     co |-> (Key("a", "x") :> cx) @@ (Key("a", "y") :> cy) @@ (Key("a", "z") :> cz), sv |-> EmptySv] :
    cx \in { [k |-> "co", ty |-> Bare("S"), val |-> v] : v \in { SLit(CRef("", "x")), SLit(CRef("", "y")), SLit(SLit(CRef("", "x"))), CEMap, SLit(CEMap) } },
    cy \in { [k |-> "no"] } \cup { [k |-> "co", ty |-> Bare("S"), val |-> v] : v \in { SLit(CRef("", "x")), SLit(CRef("", "z")), CEMap } },
    cz \in { [k |-> "no"] } \cup { [k |-> "co", ty |-> Bare("L"), val |-> v] : v \in { CList(CRef("", "x")), CList(SLit(CRef("", "z"))) } }
                        \cup { [k |-> "co", ty |-> Bare("S"), val |-> SLit(CRef("", "y"))] } }

\* ---- family "xcycle": typedefs that name each other across two (mutually including) files, bare and through lists,
\*      in two and in three steps.  A cycle that leaves the file and comes back is a cycle; without the include back it is
\*      an unresolved reference
ProgXCycle ==
  { [inc |-> i,
     ty |-> (Key("a", "X") :> [k |-> "td", tgt |-> x]) @@ (Key("b", "Y") :> [k |-> "td", tgt |-> y]) @@ (Key("b", "Z") :> z),
     co |-> EmptyCo, sv |-> EmptySv] :
    i \in { [a |-> {"b"}, b |-> {"a"}], [a |-> {"b"}, b |-> {}], [a |-> {"a", "b"}, b |-> {"a", "b"}] },
    x \in { Qual("b", "Y"), ListRef("b", "Y"), Qual("b", "Z") },
    y \in { BaseRef("i32"), Qual("a", "X"), ListRef("a", "X"), Bare("Z"), ListRef("", "Z") },
    z \in { [k |-> "no"], [k |-> "td", tgt |-> BaseRef("i32")], [k |-> "td", tgt |-> Qual("a", "X")], [k |-> "td", tgt |-> ListRef("a", "X")] } }

Programs == CASE Family = "types"   -> ProgTypes
              [] Family = "xcycle" -> ProgXCycle
              [] Family = "selfstruct" -> ProgSelfStruct
              [] Family = "lists"   -> ProgLists
              [] Family = "aliasitem" -> ProgAliasItem
              [] Family = "dotted"  -> ProgDotted
              [] Family = "modsvcs" -> ProgModSvcs
              [] Family = "consts"  -> ProgConsts
              [] Family = "svcs"    -> ProgSvcs
              [] Family = "mixed"   -> ProgMixed
              [] Family = "modules" -> ProgModules

---------------------------------------------------------------------------
VARIABLES prog, st, mods, phase, todo

vars == <<prog, st, mods, phase, todo>>

\* Walk order: root, then the modules it reaches (breadth first; with two modules: a then b)
WalkOrder(p) == IF "b" \in Loaded(p) THEN <<"a", "b">> ELSE <<"a">>

Init == /\ prog \in Programs
        /\ st = InitStore(prog)
        /\ mods = WalkOrder(prog)
        /\ phase = "types"
        /\ todo = StepsOf(prog, "a", "types")

NextPhase(ph) == CASE ph = "types" -> "consts" [] ph = "consts" -> "svcs" [] ph = "svcs" -> "cycles"

\* one iteration of a range loop in compiler.link: any remaining entity
Step == /\ phase \in {"types", "consts", "svcs"} /\ todo # {} /\ ~Bad(st)
        /\ \E e \in todo :
             /\ st' = RunStep(prog, st, e)
             /\ todo' = todo \ {e}
        /\ UNCHANGED <<prog, mods, phase>>

Advance == /\ phase \in {"types", "consts", "svcs"} /\ todo = {} /\ ~Bad(st)
           /\ phase' = NextPhase(phase)
           /\ todo' = StepsOf(prog, Head(mods), phase')
           /\ UNCHANGED <<prog, st, mods>>

Cycles == /\ phase = "cycles" /\ ~Bad(st)
          /\ st' = CyclePass(prog, st, Head(mods))
          /\ IF Bad(st') \/ Len(mods) = 1
             THEN phase' = "done" /\ mods' = mods /\ todo' = {}
             ELSE phase' = "types" /\ mods' = Tail(mods) /\ todo' = StepsOf(prog, Head(Tail(mods)), "types")
          /\ UNCHANGED prog

Abort == /\ Bad(st) /\ phase # "done"
         /\ phase' = "done" /\ UNCHANGED <<prog, st, mods, todo>>

Next == Step \/ Advance \/ Cycles \/ Abort
Spec == Init /\ [][Next]_vars

Done == phase = "done"
D == Denote(prog)

\* C08: no unbounded recursion in the linker, and the generator's walk over parents is finite
NoOverflow == ~st.ovf
ParentsFinite == (Done /\ ~Bad(st)) =>
   \A k \in SKeysOf(prog) : SDefd(prog, k) /\ ModOf(k) \in Loaded(prog) => ParentDepth(st, k, 0) <= Cardinality(SKeysOf(prog))

\* C07 / C10: success or failure is what the order-free meaning says, for every order
OutcomeCorrect == (Done /\ ~st.hz) => ((~Bad(st)) <=> D.ok)
\* every typedef reports its ultimate non-typedef target
RootsCorrect == (Done /\ ~Bad(st) /\ ~st.hz) =>
   \A k \in DOMAIN D.roots : ModOf(k) \in Loaded(prog) => ProjRootS(prog, st, RootOf(prog, st, HEnt(k))) = D.roots[k]
=============================================================================
