SPECIFICATION Spec
CONSTANTS
  Repaired = TRUE
INVARIANT Done
CHECK_DEADLOCK FALSE
