----------------------------- MODULE MCReader -----------------------------
(***************************************************************************)
(* Role A for C03 (and the reader half of C02/C13): every byte string over *)
(* Alphabet up to MaxLen, every requested type, both reader kinds.  The     *)
(* input is grown by an action so that TLC's BFS is parallel.               *)
(***************************************************************************)
EXTENDS Reader, TLC

CONSTANTS Alphabet, MaxLen, Types

VARIABLE bs

Init == bs = <<>>
Next == /\ Len(bs) < MaxLen
        /\ \E b \in Alphabet : bs' = Append(bs, b)
Spec == Init /\ [][Next]_bs

Lazy(t)   == DecLazy(bs, 1, t, 0, 0)
Strict(t) == DecStrict(bs, 1, t, 0, 0)

InvCanonical   == \A t \in Types : Canonical(bs, Lazy(t)) /\ Canonical(bs, Strict(t))
InvSkipAgrees  == \A t \in Types : SkipAgrees(bs, t, Lazy(t)) /\ SkipAgrees(bs, t, Strict(t))
InvReadersAgree == \A t \in Types : ReadersAgree(bs, t)
\* termination/cost: primitive calls and allocation are bounded by the input (C13 on the model)
InvLinear      == \A t \in Types :
                    /\ Linear(bs, Lazy(t), 4, 8, AllocThreshold)
                    /\ Linear(bs, Strict(t), 4, 4, AllocThreshold)
                    /\ \A seek \in BOOLEAN : Linear(bs, SkipAt(bs, 1, t, seek, 0), 4, 4, 0)
=============================================================================
