----------------------------- MODULE MCReader -----------------------------
(***************************************************************************)
(* Role A for C03 (and the reader half of C02/C13): the decoders and Skip  *)
(* of Reader.tla on                                                        *)
(*  (a) every byte string over Alphabet up to MaxLen (grown by an action   *)
(*      so that TLC's BFS is parallel), and                                *)
(*  (b) every single-byte substitution and every truncation of the         *)
(*      encoding of every value of a small universe (grammar-aware         *)
(*      mutants reaching lengths (a) cannot),                              *)
(* for every requested type and both reader kinds.                         *)
(* Role B: the reachable states (dumped with -dump) are the inputs that    *)
(* the harness replays on the real decoders.                               *)
(***************************************************************************)
EXTENDS WireUniverse

CONSTANTS Alphabet, MutAlphabet, MaxLen, Types, MutantsOn

VARIABLES bs, kind

Encs == { Enc(u) : u \in AllScalars \cup Depth1(1) \cup Depth2 }
Subst(s, i, a) == SubSeq(s, 1, i-1) \o <<a>> \o SubSeq(s, i+1, Len(s))

RInit == \/ bs = <<>> /\ kind = "grow"
         \/ MutantsOn /\ bs \in Encs /\ kind = "base"

Grow   == /\ kind = "grow" /\ Len(bs) < MaxLen
          /\ \E b \in Alphabet : bs' = Append(bs, b)
          /\ UNCHANGED kind
Mutate == /\ kind = "base"
          /\ \/ \E i \in 1..Len(bs), a \in MutAlphabet : bs' = Subst(bs, i, a)
             \/ \E k \in 0..Len(bs) : bs' = SubSeq(bs, 1, k)
          /\ kind' = "mut"
RNext == Grow \/ Mutate
RSpec == RInit /\ [][RNext]_<<bs, kind>>

Lazy(t)   == DecLazy(bs, 1, t, 0, 0)
Strict(t) == DecStrict(bs, 1, t, 0, 0)

InvCanonical   == \A t \in Types : Canonical(bs, Lazy(t)) /\ Canonical(bs, Strict(t))
InvSkipAgrees  == \A t \in Types : SkipAgrees(bs, t, Lazy(t)) /\ SkipAgrees(bs, t, Strict(t))
InvReadersAgree == \A t \in Types : ReadersAgree(bs, t)
\* termination/cost: primitive calls and allocation are bounded by the input (C13 on the model)
InvLinear      == \A t \in Types :
                    /\ Linear(bs, Lazy(t), 4, 8, AllocThreshold)
                    /\ Linear(bs, Strict(t), 4, 4, AllocThreshold)
                    /\ \A seek \in BOOLEAN : Linear(bs, SkipAt(bs, 1, t, seek, 0), 4, 4, 0)
\* anti-vacuity: some inputs do decode (checked to be VIOLATED by a dedicated cfg)
NothingDecodes == \A t \in Types \ {TStruct} : ~(Len(bs) >= 5 /\ Lazy(t).ok)
=============================================================================
