SPECIFICATION Spec
CONSTANT StrictOutcome = TRUE
INVARIANT Done
CHECK_DEADLOCK FALSE
