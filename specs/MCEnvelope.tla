---------------------------- MODULE MCEnvelope ----------------------------
(***************************************************************************)
(* Role A for C12: a server receiving a request in any of the three        *)
(* framings through the random-access API (DecodeRequest) and the streaming *)
(* API (ReadRequest).  The peek of the streaming API is an environment      *)
(* choice: the underlying reader delivers the first bytes in arbitrary      *)
(* pieces.  PeekReadFull = TRUE models the repaired ReadRequest (io.ReadFull *)
(* for the two-byte peek); FALSE models a single Read, which is the defect   *)
(* recorded as finding #10 and serves as a negative control of ApisAgree.    *)
(* Role B: the requests (valid envelopes, truncations, first-byte edits)     *)
(* reachable here are replayed on the real code.                             *)
(***************************************************************************)
EXTENDS Envelope, TLC

CONSTANTS Names, Types, Seqs, Expect, PeekReadFull, Mutate

NamesQ == { <<97>>, <<97, 58, 98>>, <<255, 254>>, <<>>, <<97, 58>>, <<58, 98>>, <<97, 58, 98, 58, 99>>, <<98, 58, 120>> }
NamesT == NamesQ \cup { [i \in 1..40 |-> 64 + i] }
SeqsQ  == { MinI32, -1, 0, MaxI32 }

Bodies == { [t |-> TStruct, f |-> <<>>],
            [t |-> TStruct, f |-> << [id |-> 1, v |-> Num(TI8, -1)] >>],
            [t |-> TStruct, f |-> << [id |-> 2, v |-> [t |-> TList, et |-> TI32, e |-> << Num(TI32, 7) >>]],
                                      [id |-> -1, v |-> Bin(<<104, 105>>)] >> ] }

Envs == [fr : {"strict", "legacy", "bare"}, name : Names, ty : Types, seq : Seqs, body : Bodies]

ReplyBody == [t |-> TStruct, f |-> << [id |-> 0, v |-> Num(TI32, 42)] >>]

VARIABLES env,      \* the envelope the client meant (history variable)
          req,      \* request bytes on the wire
          et,       \* envelope type the server expects (Call or OneWay)
          pc,       \* "peek" | "done"
          peeked,   \* bytes the streaming API's peek has seen so far
          eof       \* the peek saw EOF

vars == <<env, req, et, pc, peeked, eof>>

Init == /\ env \in Envs
        /\ req = EncEnv(env)
        /\ et \in Expect
        /\ pc = "start" /\ peeked = 0 /\ eof = FALSE

\* a faulty/odd client: truncated request, or damaged first bytes
Damage == /\ pc = "start" /\ Mutate
          /\ \/ \E k \in 0..(Len(req) - 1) : req' = SubSeq(req, 1, k)
             \/ \E b \in {0, 1, 12, 127, 128, 255} : Len(req) >= 1 /\ req' = << b >> \o Tail(req)
             \/ \E b \in {0, 1, 2} : Len(req) >= 2 /\ req' = << req[1], b >> \o SubSeq(req, 3, Len(req))
             \* the third byte: reserved in a strict header (neither version nor type), part of the name length otherwise
             \/ \E b \in {1, 128, 255} : Len(req) >= 3 /\ req' = << req[1], req[2], b >> \o SubSeq(req, 4, Len(req))
          /\ pc' = "peek"
          /\ UNCHANGED <<env, et, peeked, eof>>
Intact == pc = "start" /\ pc' = "peek" /\ UNCHANGED <<env, req, et, peeked, eof>>

\* the reader under ReadRequest hands out the first bytes in pieces of 0..2 bytes
PeekChunk ==
  /\ pc = "peek"
  /\ \/ \E k \in 0..(2 - peeked) :
          /\ peeked + k <= Len(req)
          /\ peeked' = peeked + k
          /\ eof' = FALSE
          \* io.ReadFull keeps reading until 2 bytes or EOF; a single Read stops after the first piece
          /\ pc' = IF PeekReadFull /\ peeked + k < 2 THEN "peek" ELSE "done"
     \/ /\ peeked = Len(req) /\ eof' = TRUE /\ pc' = "done" /\ UNCHANGED peeked
  /\ UNCHANGED <<env, req, et>>

Next == Damage \/ Intact \/ PeekChunk
Spec == Init /\ [][Next]_vars

RA == Request(req, et, "ra", Min2(Len(req)))
ST == Request(req, et, "st", peeked)

AtDone == pc = "done"
IsIntact == req = EncEnv(env)
NameOK == env.fr = "bare" \/ Len(env.name) >= 1

\* every framing is detected, the body is the same, name and seqid are echoed
RoundTrip == (AtDone /\ IsIntact /\ NameOK /\ (env.fr = "bare" \/ env.ty = et)) =>
  /\ RA.ok /\ RA.fr = env.fr /\ RA.body = env.body
  /\ ST.ok /\ ST.fr = env.fr /\ ST.body = env.body
  /\ env.fr # "bare" => (RA.name = env.name /\ RA.seq = env.seq /\ ST.name = env.name /\ ST.seq = env.seq)
  /\ Reply(RA, 2, ReplyBody) = EncEnv([fr |-> env.fr, name |-> IF env.fr = "bare" THEN <<>> ELSE env.name,
                                      ty |-> 2, seq |-> IF env.fr = "bare" THEN 0 ELSE env.seq, body |-> ReplyBody])
RejectWrongType == (AtDone /\ IsIntact /\ NameOK /\ env.fr # "bare" /\ env.ty # et) => (~RA.ok /\ ~ST.ok)
\* the streaming API accepts whatever the random-access API accepts, with equal results
ApisAgree == AtDone => (RA.ok => (ST.ok /\ ST.fr = RA.fr /\ ST.body = RA.body /\ ST.name = RA.name /\ ST.seq = RA.seq))
BothOkEqual == AtDone => ((RA.ok /\ ST.ok) => (ST.fr = RA.fr /\ ST.body = RA.body /\ ST.name = RA.name /\ ST.seq = RA.seq))
\* with the ReadFull peek the outcome does not depend on the segmentation
PeekComplete == (AtDone /\ PeekReadFull) => peeked = Min2(Len(req))
=============================================================================
