SPECIFICATION Spec
CONSTANTS
  Plugins = {"p1", "p2"}
  HsFaults = {"ok", "nofeature", "wrongname", "wrongversion", "exception", "garbage", "trunc", "exitbefore", "exitafter"}
  GenFaults = {"ok", "exception", "garbage", "trunc", "exit", "dotdot", "samepath"}
  ByeFaults = {"ok", "noreply", "garbage"}
  NamesGoodbyeFailure = TRUE
INVARIANTS GenerateOnlyAfterGoodHandshake ExactlyOneGoodbye GoodbyeIsLast AllClosedAllReaped ExitCodeIffFailure FailureNamesPlugin OnlyFailingPluginsNamed WriteOnlyOnSuccess ProtocolAutomaton SentIsScriptDetermined NeverStuck
PROPERTY Terminates
CHECK_DEADLOCK FALSE
