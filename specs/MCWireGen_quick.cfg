CONSTANTS
  MaxElems = 2
  Deep = FALSE
  AllocThreshold = 1048576
INIT GenInit
NEXT GenNext
CHECK_DEADLOCK FALSE
