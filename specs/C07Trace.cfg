SPECIFICATION Spec
CONSTANTS
  Fuel = 24
  Repaired = TRUE
  Light = FALSE
INVARIANT Done
CHECK_DEADLOCK FALSE
