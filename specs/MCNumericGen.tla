---------------------------- MODULE MCNumericGen ----------------------------
(* Role B for C09: numeric contexts x boundary literals as cases.            *)
EXTENDS Numeric, TLC, Json, SequencesExt
Strs == { x.s : x \in Literals }
Dec10 == { x.s : x \in { y \in Literals : y.s[1] # "0" \/ y.s = "0" } }
Item(e, s) == [explicit |-> e, lit |-> s]
One == { << Item(TRUE, s) >> : s \in Strs }
TwoEnum == { << Item(TRUE, s), Item(FALSE, "0") >> : s \in Strs }
           \cup { << Item(TRUE, s), Item(FALSE, "0"), Item(FALSE, "0") >> : s \in {"2147483646", "2147483647", "-2147483648", "-2"} }
TwoField == { << Item(TRUE, s), Item(FALSE, "0") >> : s \in Strs }
            \cup { << Item(FALSE, "0"), Item(TRUE, s), Item(FALSE, "0") >> : s \in Strs }
\* auto-assigned ids against explicit negative ones, in every order: ids must stay unique or the struct is rejected
Small == { Item(TRUE, "-1"), Item(TRUE, "-2"), Item(TRUE, "-3"), Item(TRUE, "1"), Item(FALSE, "0") }
ThreeField == { << a, b, c >> : a \in Small, b \in Small, c \in Small } \cup { << a, b, c, Item(FALSE, "0") >> : a \in Small, b \in Small, c \in Small }
Cases ==
  { [ctx |-> "enum", ty |-> "i32", items |-> q] : q \in One \cup TwoEnum }
  \cup { [ctx |-> "fields-strict", ty |-> "i16", items |-> q] : q \in One }
  \cup { [ctx |-> "fields-nonstrict", ty |-> "i16", items |-> q] : q \in One \cup TwoField \cup ThreeField }
  \cup { [ctx |-> c, ty |-> t, items |-> q] : c \in {"const", "default", "list", "mapkey", "typedef-const"},
                                               t \in {"i8", "byte", "i16", "i32", "i64"}, q \in One }
  \cup { [ctx |-> c, ty |-> t, items |-> q] : c \in {"enumitem-const", "enumitem-default", "enumitem-list"}, t \in {"i8", "i16", "i32", "i64"}, q \in One }
  \cup { [ctx |-> c, ty |-> "enum", items |-> q] : c \in {"enum-const", "enum-default", "enum-list"}, q \in One }
  \cup { [ctx |-> c, ty |-> "i32", items |-> << Item(TRUE, "1") >>] :
           c \in {"dup-id", "dup-name", "dup-item", "dup-item-case", "self-const", "self-const-2", "self-const-struct", "self-const-struct-2", "self-const-list", "self-service", "self-service-2", "dup-fn", "throws-typedef", "throws-struct", "throws-primitive", "oneway-result", "oneway-throws", "dup-param-id", "dup-param-name", "dup-throws-id", "union-required", "extends-struct", "extends-missing", "dup-type-name"} }
CSeq == SetToSeq(Cases)
ASSUME ndJsonSerialize("cases.ndjson", [ i \in 1..Len(CSeq) |-> [id |-> ToString(i), c |-> CSeq[i]] ])
=============================================================================
