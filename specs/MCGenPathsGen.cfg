INIT GenInit
NEXT GenNext
CONSTANTS
  Alphabet = {0, 1, 2, 3, 11, 12, 13, 14, 15}
  MaxLen = 3
  GenLen = 3
  AllocThreshold = 1048576
CHECK_DEADLOCK FALSE
