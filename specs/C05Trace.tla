------------------------------ MODULE C05Trace ------------------------------
(***************************************************************************)
(* C05: code generated for reader schema R decoding what a writer under       *)
(* schema W produced (and encodings with injected foreign fields).  One line  *)
(* per input: case.W, case.S (= R), case.v (a value of W), case.b (its         *)
(* reference encoding, possibly with an injected field); fw / sd = the two     *)
(* decoding paths of the generated code.  The oracle is Evolve.tla's Project.   *)
(***************************************************************************)
EXTENDS TraceBase, GoShape, Evolve

VARIABLES l, bad, drift

T(e) == Ref(e.case.tn)
\* the writer's type has the reader's name, except for the wide reader RdW (Rd plus fields nobody writes)
TW(e) == IF Has(e.case, "wtn") THEN Ref(e.case.wtn) ELSE T(e)
Want(e) == Project(e.case.W, e.case.S, TW(e), T(e), e.case.v)
ValOf(e, r) == IF r.ok THEN FromGo(e.case.S, T(e), r.g) ELSE Bad

Checks(e) ==
  { <<"no-panic", e.panic = "" /\ e.known>>,
    \* fails iff a required field without default is absent or mistyped / union arity; otherwise exactly the projection
    <<"value-path-sees-projection", EqL(ValOf(e, e.fw), Want(e))>>,
    <<"stream-path-sees-projection", Len(e.sd) >= 1 /\ \A i \in 1..Len(e.sd) : EqL(ValOf(e, e.sd[i]), Want(e))>> }

Init == l = 1 /\ bad = {} /\ drift = {}
Next == /\ l <= Len(Trace)
        /\ l' = l + 1
        /\ bad' = bad \cup Tag(l, Failed(Checks(Trace[l])))
        /\ UNCHANGED drift
Spec == Init /\ [][Next]_<<l, bad, drift>>
Done == l = Len(Trace) + 1 => WriteVerdict(Len(Trace), bad, drift)
=============================================================================
