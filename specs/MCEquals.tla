------------------------------- MODULE MCEquals -------------------------------
(* Role A for C14: ValuesAreEqual as written vs structural equality on all pairs   *)
(* (and transitivity on triples through a third value) of a bounded universe.       *)
EXTENDS Equals, WireUniverse

U == { u \in AllScalars \cup Depth1(MaxElems) \cup (IF Deep THEN Depth2 ELSE {}) : Decodable(u) }
VARIABLES a, b, c
Init == a \in U /\ b = Nil /\ c = Nil
PickB == b = Nil /\ b' \in { u \in U : u.t = a.t } /\ UNCHANGED <<a, c>>
PickC == b # Nil /\ c = Nil /\ c' \in { u \in U : u.t = a.t /\ Structural(u, b) } /\ UNCHANGED <<a, b>>
Next == PickB \/ PickC
Spec == Init /\ [][Next]_<<a, b, c>>

Reflexive == WireEq(a, a)
AgreesWithStructural == b # Nil => (WireEq(a, b) <=> Structural(a, b))
Symmetric == b # Nil => (WireEq(a, b) <=> WireEq(b, a))
Transitive == c # Nil => ((WireEq(a, b) /\ WireEq(b, c)) => WireEq(a, c))
=============================================================================
