SPECIFICATION Spec
CONSTANTS
  Plugins = {"p1", "p2"}
  HsFaults = {"ok", "nofeature", "garbageflood"}
  GenFaults = {"ok", "exception"}
  ByeFaults = {"ok", "flood"}
  NamesGoodbyeFailure = TRUE
  DetachesStdout = TRUE
INVARIANTS GenerateOnlyAfterGoodHandshake ExactlyOneGoodbye GoodbyeIsLast AllClosedAllReaped ExitCodeIffFailure FailureNamesPlugin OnlyFailingPluginsNamed WriteOnlyOnSuccess ProtocolAutomaton SentIsScriptDetermined NeverStuck
PROPERTY Terminates
CHECK_DEADLOCK FALSE
