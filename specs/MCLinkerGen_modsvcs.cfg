INIT GenInit
NEXT GenNext
CONSTANTS
  Fuel = 24
  Repaired = TRUE
  Family = "modsvcs"
CHECK_DEADLOCK FALSE
