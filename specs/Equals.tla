-------------------------------- MODULE Equals --------------------------------
(***************************************************************************)
(* Equality of wire values (wire/value_equals.go, transcribed branch for     *)
(* branch: hashable fast paths, quadratic unhashable paths, struct field      *)
(* maps) and an independent structural equality of the same terms.            *)
(* Doubles compare numerically (IEEE ==): +0 = -0, NaN is equal to nothing.   *)
(***************************************************************************)
EXTENDS Wire

IsNaNL(q)  == (q[1] % 32768) >= 32752 /\ ((q[1] % 16) # 0 \/ q[2] # 0 \/ q[3] # 0 \/ q[4] # 0)
IsZeroL(q) == (q[1] % 32768) = 0 /\ q[2] = 0 /\ q[3] = 0 /\ q[4] = 0
DoubleEq(a, b) == ~IsNaNL(a) /\ ~IsNaNL(b) /\ (a = b \/ (IsZeroL(a) /\ IsZeroL(b)))

Hashable(t) == t \in {TBool, TI8, TDouble, TI16, TI32, TI64, TBinary}

---------------------------------------------------------------------------
(* ValuesAreEqual, as written *)
RECURSIVE WireEq(_, _), FieldMapEq(_, _), ListEqW(_, _), SetEqUnhash(_, _), MapEqUnhash(_, _)

\* toHashable keys: doubles by numeric identity (+0 and -0 are the same key, a NaN key never matches)
HKeyEq(a, b) == IF a.t = TDouble THEN DoubleEq(a.l, b.l) ELSE a = b

\* fieldMap(): id -> value, later duplicates win
LastWithId(fs, id) == LET idx == { i \in 1..Len(fs) : fs[i].id = id } IN fs[CHOOSE i \in idx : \A j \in idx : j <= i].v
Ids(fs) == { fs[i].id : i \in 1..Len(fs) }
FieldMapEq(l, r) == /\ Len(l) = Len(r)
                    /\ \A id \in Ids(l) : id \in Ids(r) /\ WireEq(LastWithId(l, id), LastWithId(r, id))

ListEqW(l, r) == /\ Len(l) = Len(r) /\ \A i \in 1..Len(l) : WireEq(l[i], r[i])
\* hashable: every right element is among the left elements
SetEqHash(l, r) == \A j \in 1..Len(r) : \E i \in 1..Len(l) : HKeyEq(l[i], r[j])
SetEqUnhash(l, r) == \A j \in 1..Len(r) : \E i \in 1..Len(l) : WireEq(l[i], r[j])
\* hashable map: the left map (later duplicates win) has the right key with an equal value
LeftValue(l, k) == LET idx == { i \in 1..Len(l) : HKeyEq(l[i].k, k) } IN l[CHOOSE i \in idx : \A j \in idx : j <= i].v
MapEqHash(l, r) == \A j \in 1..Len(r) : /\ \E i \in 1..Len(l) : HKeyEq(l[i].k, r[j].k)
                                        /\ WireEq(LeftValue(l, r[j].k), r[j].v)
MapEqUnhash(l, r) == \A j \in 1..Len(r) : \E i \in 1..Len(l) : WireEq(l[i].k, r[j].k) /\ WireEq(l[i].v, r[j].v)

WireEq(a, b) ==
  IF a.t # b.t THEN FALSE
  ELSE CASE a.t \in {TBool, TI8, TI16, TI32} -> a.n = b.n
         [] a.t = TI64    -> a.l = b.l
         [] a.t = TDouble -> DoubleEq(a.l, b.l)
         [] a.t = TBinary -> a.b = b.b
         [] a.t = TStruct -> FieldMapEq(a.f, b.f)
         [] a.t = TList   -> a.et = b.et /\ ListEqW(a.e, b.e)
         [] a.t = TSet    -> /\ a.et = b.et /\ Len(a.e) = Len(b.e)
                             /\ IF Hashable(a.et) THEN SetEqHash(a.e, b.e) ELSE SetEqUnhash(a.e, b.e)
         [] a.t = TMap    -> /\ a.kt = b.kt /\ a.vt = b.vt /\ Len(a.m) = Len(b.m)
                             /\ IF Hashable(a.kt) THEN MapEqHash(a.m, b.m) ELSE MapEqUnhash(a.m, b.m)
         [] OTHER -> FALSE

---------------------------------------------------------------------------
(* independent structural equality: same type; lists by position; sets and maps as *)
(* mathematical sets (both inclusions); structs as finite maps from id to value      *)
RECURSIVE Structural(_, _)
Structural(a, b) ==
  /\ a.t = b.t
  /\ CASE a.t \in {TBool, TI8, TI16, TI32} -> a.n = b.n
       [] a.t = TI64    -> a.l = b.l
       [] a.t = TDouble -> DoubleEq(a.l, b.l)
       [] a.t = TBinary -> a.b = b.b
       [] a.t = TStruct -> /\ Ids(a.f) = Ids(b.f)
                           /\ \A id \in Ids(a.f) : Structural(LastWithId(a.f, id), LastWithId(b.f, id))
       [] a.t = TList   -> a.et = b.et /\ Len(a.e) = Len(b.e) /\ \A i \in 1..Len(a.e) : Structural(a.e[i], b.e[i])
       [] a.t = TSet    -> /\ a.et = b.et
                           /\ \A i \in 1..Len(a.e) : \E j \in 1..Len(b.e) : Structural(a.e[i], b.e[j])
                           /\ \A j \in 1..Len(b.e) : \E i \in 1..Len(a.e) : Structural(a.e[i], b.e[j])
       [] a.t = TMap    -> /\ a.kt = b.kt /\ a.vt = b.vt
                           /\ \A i \in 1..Len(a.m) : \E j \in 1..Len(b.m) : Structural(a.m[i].k, b.m[j].k) /\ Structural(a.m[i].v, b.m[j].v)
                           /\ \A j \in 1..Len(b.m) : \E i \in 1..Len(a.m) : Structural(a.m[i].k, b.m[j].k) /\ Structural(a.m[i].v, b.m[j].v)
       [] OTHER -> FALSE

\* the domain on which equality is claimed: no NaN, duplicate-free sets and map keys, duplicate-free field ids
RECURSIVE Decodable(_)
Decodable(a) ==
  CASE a.t = TDouble -> ~IsNaNL(a.l)
    [] a.t = TStruct -> /\ \A i, j \in 1..Len(a.f) : i # j => a.f[i].id # a.f[j].id
                        /\ \A i \in 1..Len(a.f) : Decodable(a.f[i].v)
    [] a.t = TList   -> \A i \in 1..Len(a.e) : Decodable(a.e[i])
    [] a.t = TSet    -> /\ \A i, j \in 1..Len(a.e) : i # j => ~Structural(a.e[i], a.e[j])
                        /\ \A i \in 1..Len(a.e) : Decodable(a.e[i])
    [] a.t = TMap    -> /\ \A i, j \in 1..Len(a.m) : i # j => ~Structural(a.m[i].k, a.m[j].k)
                        /\ \A i \in 1..Len(a.m) : Decodable(a.m[i].k) /\ Decodable(a.m[i].v)
    [] OTHER -> TRUE
=============================================================================
