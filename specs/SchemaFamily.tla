---------------------------- MODULE SchemaFamily ----------------------------
(***************************************************************************)
(* The bounded family F1 of schemas and values for the generated-code        *)
(* properties (C01, C04, C05, C14, C15): every field shape x requiredness x   *)
(* kind of container, one field per type, plus a few multi-field types.      *)
(* Each case carries its own mini-schema (support definitions + the type).    *)
(***************************************************************************)
EXTENDS GenCodec, SequencesExt, Json

B(k) == [k |-> k]
Ref(n) == [k |-> "ref", n |-> n]
ListOf(e) == [k |-> "list", e |-> e]
SetOf(e) == [k |-> "set", e |-> e]
SliceSetOf(e) == [k |-> "set", e |-> e, slice |-> TRUE]      \* set<e> (go.type = "slice"): the same type on the wire, a slice in Go
MapOf(kt, vt) == [k |-> "map", kt |-> kt, vt |-> vt]

I(n) == [k |-> "int", n |-> n]
L64(l) == [k |-> "i64", l |-> l]
Dbl(l) == [k |-> "dbl", l |-> l]
Str(b) == [k |-> "bin", b |-> b]
LV(es) == [k |-> "list", e |-> es]
SV(es) == [k |-> "set", e |-> es]
MV(ms) == [k |-> "map", m |-> ms]
St(fs) == [k |-> "struct", f |-> fs]
F(n, v) == [n |-> n, v |-> v]

Field(id, name, t, req, def) == [id |-> id, name |-> name, t |-> t, req |-> req, def |-> def]

\* support definitions present in every mini-schema
EnumE == [name |-> "Color", kind |-> "enum", fields |-> <<>>, items |-> << [name |-> "RED", value |-> 1], [name |-> "GREEN", value |-> 2], [name |-> "BLUE", value |-> 5] >>, target |-> B("i32")]
Inner == [name |-> "Inner", kind |-> "struct", items |-> <<>>, target |-> B("i32"),
          fields |-> << Field(1, "x", B("i32"), TRUE, NoDef), Field(2, "s", B("string"), FALSE, NoDef) >>]
Td(name, target) == [name |-> name, kind |-> "typedef", fields |-> <<>>, items |-> <<>>, target |-> target]
Typedefs == << Td("MyInt", B("i32")), Td("MyStr", B("string")), Td("MyColor", Ref("Color")), Td("MyInner", Ref("Inner")),
               Td("MyList", ListOf(B("i32"))), Td("MyLong", B("i64")), Td("MyLong2", Ref("MyLong")),
               Td("MyMap", MapOf(B("string"), Ref("MyInt"))), Td("MySet", SetOf(B("string"))) >>
Support == << EnumE, Inner >> \o Typedefs

\* ---- field shapes -------------------------------------------------------
Bases == { B("bool"), B("i8"), B("i16"), B("i32"), B("i64"), B("double"), B("string"), B("binary") }
Shapes ==
  Bases
  \cup { Ref("Color"), Ref("Inner"), Ref("MyInt"), Ref("MyStr"), Ref("MyColor"), Ref("MyInner"), Ref("MyList"), Ref("MyLong2"), Ref("MyMap"), Ref("MySet") }
  \cup { ListOf(e) : e \in { B("i32"), B("string"), B("binary"), B("bool"), B("double"), Ref("Inner"), Ref("Color"), ListOf(B("i32")), Ref("MyStr"), MapOf(B("string"), B("i32")) } }
  \cup { SetOf(e) : e \in { B("i32"), B("string"), B("binary"), Ref("Color"), Ref("Inner"), ListOf(B("i32")), B("i64"), Ref("MyInt"), B("double") } }
  \cup { SliceSetOf(e) : e \in { B("i32"), B("string"), Ref("Color"), Ref("MyColor") } }
  \cup { MapOf(kt, vt) : kt \in { B("string"), B("i32"), Ref("Color") }, vt \in { B("i32"), Ref("Inner"), ListOf(B("string")) } }
  \cup { MapOf(Ref("Inner"), B("i32")), MapOf(ListOf(B("i32")), B("string")), MapOf(B("binary"), B("bool")), MapOf(B("double"), B("i8")),
         MapOf(B("i64"), MapOf(B("string"), B("i8"))), MapOf(SetOf(B("i32")), ListOf(B("double"))), MapOf(Ref("MyStr"), Ref("MyInner")) }

\* ---- values of a type (small sets of logical values) ------------------------
RECURSIVE Vals(_, _)
Pick2(vs) == LET q == SetToSeq(vs) IN IF Len(q) <= 2 THEN q ELSE << q[1], q[2] >>
Vals(S, t) ==
  LET r == Root(S, t) IN
  CASE r.k = "bool"   -> { I(0), I(1) }
    [] r.k = "i8"     -> { I(-128), I(127) }
    [] r.k = "i16"    -> { I(-32768), I(258) }
    [] r.k = "i32"    -> { I(MinI32), I(16909060), I(0) }
    [] r.k = "i64"    -> { L64(<<32768,0,0,0>>), L64(<<1,2,3,4>>) }
    [] r.k = "double" -> { Dbl(<<0,0,0,0>>), Dbl(<<32768,0,0,0>>), Dbl(<<32760,0,0,1>>), Dbl(<<16368,0,0,0>>) }
    [] r.k = "string" -> { Str(<<>>), Str(<<104,105>>) }
    [] r.k = "binary" -> { Str(<<>>), Str(<<255,0,128>>) }
    [] r.k = "ref" /\ Def(S, r.n).kind = "enum" -> { I(1), I(5), I(77) }
    [] r.k = "ref" /\ r.n = "Inner" -> { St(<< F("x", I(1)) >>), St(<< F("x", I(-5)), F("s", Str(<<97>>)) >>) }
    [] r.k = "list" -> LET p == Pick2(Vals(S, r.e)) IN { LV(<<>>), LV(<<p[1]>>), LV(p), LV(<<p[1], p[1]>>) }
    [] r.k = "set" /\ Root(S, r.e).k = "double" ->      \* sets that differ in the sign of a zero only are equal
                       LET pz == Dbl(<<0,0,0,0>>) nz == Dbl(<<32768,0,0,0>>) one == Dbl(<<16368,0,0,0>>) IN
                       { SV(<<>>), SV(<<pz>>), SV(<<nz>>), SV(<<pz, one>>), SV(<<nz, one>>) }
    \* enums are open: sets of the same size that differ in one member only, small, large or negative
    [] r.k = "set" /\ Root(S, r.e).k = "ref" /\ Def(S, Root(S, r.e).n).kind = "enum" ->
                       { SV(<<>>), SV(<<I(1)>>), SV(<<I(1), I(5)>>), SV(<<I(1), I(77)>>), SV(<<I(1), I(404)>>), SV(<<I(-3)>>), SV(<<I(-2)>>) }
    [] r.k = "set"  -> LET p == Pick2(Vals(S, r.e)) IN { SV(<<>>), SV(<<p[1]>>), SV(p) }
    [] r.k = "map"  -> LET pk == Pick2(Vals(S, r.kt)) pv == Pick2(Vals(S, r.vt)) IN
                       { MV(<<>>), MV(<< [k |-> pk[1], v |-> pv[1]] >>), MV(<< [k |-> pk[Len(pk)], v |-> pv[1]] >>),     \* the same value under another key
                         MV(<< [k |-> pk[1], v |-> pv[Len(pv)]], [k |-> pk[Len(pk)], v |-> pv[1]] >>) }

\* ---- the types: one field "f" of each shape ---------------------------------
\* (three of the container shapes get the EMPTY literal as their default: "= []" / "= {}")
HasSimpleDefault(t) == t \in { B("bool"), B("i8"), B("i16"), B("i32"), B("i64"), B("double"), B("string"), Ref("MyStr"), Ref("Color"), Ref("MyInt"), ListOf(B("i32")),
                              ListOf(B("string")), SetOf(B("i32")), MapOf(B("string"), B("i32")), Ref("MyList") }
SimpleDefault(t) ==
  CASE t = B("bool") -> I(1) [] t = B("i8") -> I(-7) [] t = B("i16") -> I(258) [] t = B("i32") -> I(16909060) [] t = Ref("MyInt") -> I(16909060)
    [] t = B("i64") -> L64(<<0,0,0,7>>) [] t = B("double") -> Dbl(<<16393,8699,21572,11544>>)     \* pi: 17 significant digits in the IDL
    \* strings that need care in every quoting style: CR LF, tab, both quotes, backslash, a two-byte character; backquotes, NUL, BEL
    [] t = B("string") -> Str(<<97,13,10,98,9,34,39,92,195,169>>) [] t = Ref("MyStr") -> Str(<<96,10,96,0,7>>) [] t = Ref("Color") -> I(2) [] t = ListOf(B("i32")) -> LV(<< I(0), I(16909060) >>)
    [] t = ListOf(B("string")) -> LV(<<>>) [] t = SetOf(B("i32")) -> SV(<<>>) [] t = MapOf(B("string"), B("i32")) -> MV(<<>>) [] t = Ref("MyList") -> LV(<<>>)

TypeSpecs ==
  { [kind |-> kd, t |-> t, req |-> rq, dflt |-> df] :
      kd \in {"struct", "union", "exception"}, t \in Shapes, rq \in BOOLEAN, df \in BOOLEAN }
OKSpec(sp) == /\ (sp.kind = "union" => (~sp.req /\ ~sp.dflt))
              /\ (sp.dflt => HasSimpleDefault(sp.t))
Specs == SetToSeq({ sp \in TypeSpecs : OKSpec(sp) })

\* type names are derived from the content (not from the position in Specs), so that every
\* generator run names the same type the same way
RECURSIVE TName(_)
TName(t) == CASE t.k = "list" -> "L" \o TName(t.e)
              [] t.k = "set" /\ "slice" \in DOMAIN t -> "Z" \o TName(t.e)
              [] t.k = "set" /\ "slice" \notin DOMAIN t -> "S" \o TName(t.e)
              [] t.k = "map" -> "M" \o TName(t.kt) \o "x" \o TName(t.vt)
              [] t.k = "ref" -> t.n
              [] OTHER -> t.k
SpecName(sp) == (CASE sp.kind = "struct" -> "St" [] sp.kind = "union" -> "Un" [] sp.kind = "exception" -> "Ex")
                \o TName(sp.t) \o (IF sp.req THEN "R" ELSE "O") \o (IF sp.dflt THEN "D" ELSE "")
NameOf(i) == SpecName(Specs[i])
TypeOf(i) == LET sp == Specs[i] IN
  [name |-> SpecName(sp), kind |-> sp.kind, items |-> <<>>, target |-> B("i32"),
   fields |-> << Field(1, "f", sp.t, sp.req, IF sp.dflt THEN SimpleDefault(sp.t) ELSE NoDef) >>]
SchemaOf(i) == Support \o << TypeOf(i) >>

\* values of the single-field types: field set to each value; unset when that is valid
ValuesOf(i) ==
  LET sp == Specs[i] S == SchemaOf(i) IN
  { St(<< F("f", v) >>) : v \in Vals(S, sp.t) }
  \cup (IF sp.kind # "union" /\ (~sp.req \/ sp.dflt) THEN { St(<<>>) } ELSE {})

\* ---- multi-field types ---------------------------------------------------------
Multi ==
  << [name |-> "Pair", kind |-> "struct", items |-> <<>>, target |-> B("i32"),
      fields |-> << Field(1, "a", B("string"), TRUE, NoDef), Field(2, "b", B("i32"), FALSE, I(7)),
                    Field(5, "c", ListOf(Ref("Inner")), FALSE, NoDef), Field(6, "d", Ref("MyMap"), FALSE, NoDef),
                    Field(32767, "e", B("double"), FALSE, NoDef), Field(4, "g", Ref("Color"), TRUE, I(5)) >>],
     [name |-> "Choice", kind |-> "union", items |-> <<>>, target |-> B("i32"),
      fields |-> << Field(1, "a", B("i32"), FALSE, NoDef), Field(2, "b", B("string"), FALSE, NoDef),
                    Field(3, "c", Ref("Inner"), FALSE, NoDef), Field(4, "d", ListOf(B("i64")), FALSE, NoDef) >>],
     [name |-> "Oops", kind |-> "exception", items |-> <<>>, target |-> B("i32"),
      fields |-> << Field(1, "message", B("string"), FALSE, NoDef), Field(2, "code", Ref("MyInt"), TRUE, NoDef),
                    Field(3, "inner", Ref("Inner"), FALSE, NoDef) >>],
     [name |-> "Nest", kind |-> "struct", items |-> <<>>, target |-> B("i32"),
      fields |-> << Field(1, "p", Ref("Pair"), FALSE, NoDef), Field(2, "u", Ref("Choice"), FALSE, NoDef),
                    Field(3, "ps", ListOf(Ref("Pair")), FALSE, NoDef), Field(4, "m", MapOf(B("string"), Ref("Choice")), FALSE, NoDef) >>],
     \* recursive types: values may be nested deeper than any fixed bound
     [name |-> "Tree", kind |-> "union", items |-> <<>>, target |-> B("i32"),
      fields |-> << Field(1, "n", B("i64"), FALSE, NoDef), Field(2, "kids", ListOf(Ref("Tree")), FALSE, NoDef),
                    Field(3, "byName", MapOf(B("string"), Ref("Tree")), FALSE, NoDef) >>],
     [name |-> "Chain", kind |-> "struct", items |-> <<>>, target |-> B("i32"),
      fields |-> << Field(1, "tail", Ref("Chain"), FALSE, NoDef), Field(2, "v", B("i32"), FALSE, NoDef),
                    Field(3, "trees", SetOf(Ref("Tree")), FALSE, NoDef) >>] >>
MultiSchema == Support \o Multi
PairVals == { St(<< F("a", Str(<<120>>)) >>),
              St(<< F("a", Str(<<>>)), F("b", I(-1)), F("c", LV(<< St(<< F("x", I(3)) >>) >>)), F("g", I(1)) >>),
              St(<< F("a", Str(<<120,121>>)), F("d", MV(<< [k |-> Str(<<107>>), v |-> I(9)] >>)), F("e", Dbl(<<32760,0,0,1>>)) >>) }
ChoiceVals == { St(<< F("a", I(0)) >>), St(<< F("b", Str(<<98>>)) >>), St(<< F("c", St(<< F("x", I(2)) >>)) >>), St(<< F("d", LV(<<>>)) >>) }
OopsVals == { St(<< F("code", I(404)) >>), St(<< F("message", Str(<<109>>)), F("code", I(-1)), F("inner", St(<< F("x", I(0)), F("s", Str(<<>>)) >>)) >>) }
NestVals == { St(<<>>) }
              \cup { St(<< F("p", p), F("u", u) >>) : p \in PairVals, u \in ChoiceVals }
              \cup { St(<< F("ps", LV(<< p, p >>)), F("m", MV(<< [k |-> Str(<<107>>), v |-> u] >>)) >>) : p \in PairVals, u \in ChoiceVals }
TreeLeaf == St(<< F("n", L64(<<0,0,0,7>>)) >>)
RECURSIVE TreeDeep(_), TreeMix(_), ChainDeep(_)
TreeDeep(k) == IF k = 0 THEN TreeLeaf ELSE St(<< F("kids", LV(<< TreeDeep(k - 1) >>)) >>)                     \* 2k levels of struct / list
TreeMix(k) == IF k = 0 THEN TreeLeaf
              ELSE IF k % 2 = 0 THEN St(<< F("kids", LV(<< TreeMix(k - 1), TreeLeaf >>)) >>)
              ELSE St(<< F("byName", MV(<< [k |-> Str(<<107>>), v |-> TreeMix(k - 1)] >>)) >>)
ChainDeep(k) == IF k = 0 THEN St(<< F("v", I(1)) >>) ELSE St(<< F("tail", ChainDeep(k - 1)), F("v", I(k)) >>)
TreeVals == { TreeLeaf, St(<< F("kids", LV(<<>>)) >>), TreeDeep(1), TreeDeep(33), TreeMix(5), TreeMix(34) }
ChainVals == { St(<<>>), ChainDeep(1), ChainDeep(65), St(<< F("trees", SV(<< TreeDeep(33), TreeLeaf >>)) >>) }
MultiCases == { <<"Pair", v>> : v \in PairVals } \cup { <<"Tree", v>> : v \in TreeVals } \cup { <<"Chain", v>> : v \in ChainVals } \cup { <<"Choice", v>> : v \in ChoiceVals }
              \cup { <<"Oops", v>> : v \in OopsVals } \cup { <<"Nest", v>> : v \in NestVals }
=============================================================================
