INIT Init
NEXT Next
CONSTANTS
  MaxDepth = 2
  MaxWidth = 2
  Fuel = 12
  EmitMod = 1
  ClearsAlways = FALSE
INVARIANTS NoOverflow CycleRefused NeverRelinks EmitCase
CHECK_DEADLOCK FALSE
