------------------------------ MODULE C02Trace ------------------------------
(***************************************************************************)
(* C02: judge recorded encodings/decodings of the real binary protocol     *)
(* against Wire.tla.  One line per value v:                                *)
(*   enc  = bytes of Protocol.Encode(v)        sw = bytes of StreamWriter  *)
(*   calls = the stream.Writer call sequence   dec = Decode + force        *)
(*   sdec = stream-reader decodes under several read segmentations         *)
(***************************************************************************)
EXTENDS TraceBase, Wire

VARIABLES l, bad, drift

ChecksSmall(e) == {
  <<"no-panic", e.panic = "">>,
  <<"well-typed-case", WellTyped(e.v)>>,
  <<"encode-bytes", e.encerr = "none" /\ e.enc = Enc(e.v)>>,              \* bytes the protocol prescribes
  <<"writer-calls", e.calls = WriterCalls(e.v)>>,                          \* the corresponding write calls ...
  <<"stream-writer-bytes", e.swerr = "none" /\ e.sw = Enc(e.v)>>,          \* ... emit identical bytes
  <<"per-call-bytes", e.sw = CallsBytes(e.calls)>>,
  <<"decode-roundtrip", e.decerr = "none" /\ e.dec = e.v>>,                \* random-access decode, bit for bit
  <<"stream-decode-roundtrip",                                             \* streaming decode, any segmentation
      /\ Len(e.sdec) >= 1
      /\ \A i \in 1..Len(e.sdec) : e.sdec[i].ec = "none" /\ e.sdec[i].v = e.v /\ e.sdec[i].n = Len(e.enc)>> }

\* values made of large binaries, with every payload abstracted to (len, sha256):
\* shape "struct" = fields 7, 8, ... of type binary; shape "list" = list<binary>
PartHead(e, i) == IF e.shape = "list" THEN BE32(e.parts[i].len)
                  ELSE << TBinary >> \o BE16(6 + i) \o BE32(e.parts[i].len)
BigSide(s, e) ==
  /\ s.wellformed
  /\ s.pre = (IF e.shape = "list" THEN << TBinary >> \o BE32(Len(e.parts)) ELSE <<>>)
  /\ Len(s.parts) = Len(e.parts)
  /\ \A i \in 1..Len(e.parts) : /\ s.parts[i].head = PartHead(e, i)
                                 /\ s.parts[i].bodylen = e.parts[i].len /\ s.parts[i].bodysha = e.parts[i].sha
  /\ s.tail = (IF e.shape = "list" THEN <<>> ELSE << 0 >>)
BigDec(d, e) ==
  /\ d.ec = "none" /\ Len(d.parts) = Len(e.parts)
  /\ \A i \in 1..Len(e.parts) : /\ d.parts[i].id = (IF e.shape = "list" THEN i - 1 ELSE 6 + i)
                                 /\ d.parts[i].len = e.parts[i].len /\ d.parts[i].sha = e.parts[i].sha
ChecksBig(e) == {
  <<"no-panic", e.panic = "">>,
  <<"encode-bytes", e.encerr = "none" /\ BigSide(e.enc, e)>>,
  <<"stream-writer-bytes", e.swerr = "none" /\ BigSide(e.sw, e)>>,
  <<"decode-roundtrip", BigDec(e.dec, e)>>,
  <<"stream-decode-roundtrip", BigDec(e.sdec, e)>>,
  \* the string entry points of the streaming API (WriteString / ReadString) carry the same bytes
  \* the same encoding cut short is refused by both decoders and by Skip, however much of it arrived
  <<"truncated-encoding-refused", Has(e, "truncs") => \A i \in 1..Len(e.truncs) :
        e.truncs[i].dec # "none" /\ e.truncs[i].sdec # "none" /\ e.truncs[i].skip # "none">>,
  <<"stream-writer-string-bytes", Has(e, "sws") => (e.swserr = "none" /\ BigSide(e.sws, e))>>,
  <<"stream-reader-string-roundtrip", Has(e, "sdecs") => BigDec(e.sdecs, e)>> }

Fails(e) == Failed(IF e.op = "c02big" THEN ChecksBig(e) ELSE ChecksSmall(e))

Init == l = 1 /\ bad = {} /\ drift = {}
Next == /\ l <= Len(Trace)
        /\ l' = l + 1
        /\ bad' = bad \cup Tag(l, Fails(Trace[l]))
        /\ UNCHANGED drift
Spec == Init /\ [][Next]_<<l, bad, drift>>

Done == l = Len(Trace) + 1 => WriteVerdict(Len(Trace), bad, drift)
=============================================================================
