------------------------------ MODULE C02Trace ------------------------------
(***************************************************************************)
(* C02: judge recorded encodings/decodings of the real binary protocol     *)
(* against Wire.tla.  One line per value v:                                *)
(*   enc  = bytes of Protocol.Encode(v)        sw = bytes of StreamWriter  *)
(*   calls = the stream.Writer call sequence   dec = Decode + force        *)
(*   sdec = stream-reader decodes under several read segmentations         *)
(***************************************************************************)
EXTENDS TraceBase, Wire

VARIABLES l, bad, drift

ChecksSmall(e) == {
  <<"no-panic", e.panic = "">>,
  <<"well-typed-case", WellTyped(e.v)>>,
  <<"encode-bytes", e.encerr = "none" /\ e.enc = Enc(e.v)>>,              \* bytes the protocol prescribes
  <<"writer-calls", e.calls = WriterCalls(e.v)>>,                          \* the corresponding write calls ...
  <<"stream-writer-bytes", e.swerr = "none" /\ e.sw = Enc(e.v)>>,          \* ... emit identical bytes
  <<"per-call-bytes", e.sw = CallsBytes(e.calls)>>,
  <<"decode-roundtrip", e.decerr = "none" /\ e.dec = e.v>>,                \* random-access decode, bit for bit
  <<"stream-decode-roundtrip",                                             \* streaming decode, any segmentation
      /\ Len(e.sdec) >= 1
      /\ \A i \in 1..Len(e.sdec) : e.sdec[i].ec = "none" /\ e.sdec[i].v = e.v /\ e.sdec[i].n = Len(e.enc)>> }

\* struct {7: binary(len)} with the payload abstracted to (len, sha256)
BigHead(n) == << TBinary >> \o BE16(7) \o BE32(n)
BigSide(s, e) == s.head = BigHead(e.len) /\ s.bodylen = e.len /\ s.bodysha = e.sha /\ s.tail = << 0 >>
ChecksBig(e) == {
  <<"no-panic", e.panic = "">>,
  <<"encode-bytes", e.encerr = "none" /\ BigSide(e.enc, e)>>,
  <<"stream-writer-bytes", e.swerr = "none" /\ BigSide(e.sw, e)>>,
  <<"decode-roundtrip", e.dec.ec = "none" /\ e.dec.id = 7 /\ e.dec.len = e.len /\ e.dec.sha = e.sha>>,
  <<"stream-decode-roundtrip", e.sdec.ec = "none" /\ e.sdec.id = 7 /\ e.sdec.len = e.len /\ e.sdec.sha = e.sha>> }

Fails(e) == Failed(IF e.op = "c02big" THEN ChecksBig(e) ELSE ChecksSmall(e))

Init == l = 1 /\ bad = {} /\ drift = {}
Next == /\ l <= Len(Trace)
        /\ l' = l + 1
        /\ bad' = bad \cup Tag(l, Fails(Trace[l]))
        /\ UNCHANGED drift
Spec == Init /\ [][Next]_<<l, bad, drift>>

Done == l = Len(Trace) + 1 => WriteVerdict(Len(Trace), bad, drift)
=============================================================================
