INIT RInit
NEXT RNext
CONSTANTS
  Alphabet = {0, 1, 2, 3, 8, 11, 12, 13, 15, 127, 128, 255}
  MaxLen = 3
  MutAlphabet = {0, 1, 11, 12, 15, 127, 128, 255}
  Types = {2, 3, 4, 6, 8, 10, 11, 12, 13, 14, 15, 1, 16}
  AllocThreshold = 2
  MutantsOn = TRUE
  MaxElems = 1
  Deep = FALSE
INVARIANTS InvCanonical InvSkipAgrees InvReadersAgree InvLinear
CHECK_DEADLOCK FALSE
