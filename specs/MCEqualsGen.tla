---------------------------- MODULE MCEqualsGen ----------------------------
(* Role B for C14: triples of encodings per generated type: a value, the same value    *)
(* with permuted set / map / field order, and another value of the type (one leaf,      *)
(* presence, length or order perturbation away, as the family's value sets are).        *)
EXTENDS SchemaFamily

Rev(q) == [ i \in 1..Len(q) |-> q[Len(q) + 1 - i] ]
RECURSIVE Perm(_)
Perm(w) ==
  CASE w.t = TStruct -> [w EXCEPT !.f = Rev([ i \in 1..Len(w.f) |-> [id |-> w.f[i].id, v |-> Perm(w.f[i].v)] ])]
    [] w.t = TSet    -> [w EXCEPT !.e = Rev([ i \in 1..Len(w.e) |-> Perm(w.e[i]) ])]
    [] w.t = TMap    -> [w EXCEPT !.m = Rev([ i \in 1..Len(w.m) |-> [k |-> Perm(w.m[i].k), v |-> Perm(w.m[i].v)] ])]
    [] w.t = TList   -> [w EXCEPT !.e = [ i \in 1..Len(w.e) |-> Perm(w.e[i]) ]]
    [] OTHER -> w

Triples(S, tn, vs) == { [S |-> S, tn |-> tn, v1 |-> x, v2 |-> y] : x \in vs, y \in vs }
AllT == UNION { Triples(SchemaOf(i), NameOf(i), ValuesOf(i)) : i \in 1..Len(Specs) }
        \cup Triples(MultiSchema, "Pair", PairVals) \cup Triples(MultiSchema, "Choice", ChoiceVals)
        \cup Triples(MultiSchema, "Oops", OopsVals)
TSeq == SetToSeq(AllT)
Out == [ i \in 1..Len(TSeq) |->
   LET c == TSeq[i] w1 == ToWireRef(c.S, Ref(c.tn), c.v1) w2 == ToWireRef(c.S, Ref(c.tn), c.v2) IN
   [ id |-> "q" \o ToString(i), op |-> "equals", S |-> c.S, tn |-> c.tn, v1 |-> c.v1, v2 |-> c.v2,
     bs |-> << Enc(w1), Enc(Perm(w1)), Enc(w2) >> ] ]
ASSUME ndJsonSerialize("cases.ndjson", Out)
=============================================================================
