----------------------------- MODULE MCWireGen -----------------------------
EXTENDS MCWire
ASSUME WriteCases
GenInit == v = Nil /\ calls = <<>> /\ outb = <<>>
GenNext == UNCHANGED <<v, calls, outb>>
=============================================================================
