------------------------------ MODULE PluginLib ------------------------------
(***************************************************************************)
(* The plugin side of the protocol as the plugin LIBRARY implements it      *)
(* (C16: "a conforming plugin built with the plugin library answers          *)
(* handshake, generate and goodbye accordingly").                            *)
(* Code anchors: plugin/plugin.go (Main, pluginHandler.Handshake / Goodbye), *)
(* internal/frame/server.go (Serve loop, Stop closes the READER only, the     *)
(* writer is closed when the loop ends), internal/envelope/server.go          *)
(* (one reply per request, name and sequence id echoed, handler errors         *)
(* become Exception envelopes), internal/multiplex/handler.go (routing at      *)
(* the first colon), plugin/api (generated handlers: unknown method).          *)
(*                                                                         *)
(* The host is the environment: it delivers any request, one at a time, or     *)
(* closes the plugin's stdin.  Requests:                                       *)
(*   "hs" "gen" "bye"  the three calls of the protocol                         *)
(*   "nomethod"        Plugin:nope       (service known, method not)           *)
(*   "nosvc"           Nope:handshake    (no such service)                     *)
(*   "nocolon"         handshake         (not multiplexed)                     *)
(*   "garbage"         a frame that is not an envelope                         *)
(* StopClosesWriter is the negative control: had Stop() closed the writer as   *)
(* well, the answer to goodbye could not be sent.                              *)
(***************************************************************************)
EXTENDS Integers, Sequences, FiniteSets, TLC, Json, PluginLibBase

CONSTANTS MaxRequests,        \* length bound of the host's script
          StopClosesWriter,   \* negative control
          EmitMod             \* role B: 0 = emit nothing, k = scripts whose weight is divisible by k (all of length <= 2)

VARIABLES
  hasGen,    \* the plugin provides a ServiceGenerator (chosen initially)
  st,        \* "serving" | "stopped" (Serve returned nil: exit 0) | "failed" (Serve returned an error: log.Fatalf)
  running,   \* frame.Server.running
  rdOpen,    \* the server's reader (the plugin's stdin) is open on the plugin side
  wrOpen,    \* the server's writer
  sent,      \* what the host delivered so far
  replies,   \* what the plugin wrote: sequence of [to, kind]  kind = "reply" | "exception"
  stdin      \* "open" | "closed"  (the host's end)
vars == <<hasGen, st, running, rdOpen, wrOpen, sent, replies, stdin>>

Init == hasGen \in BOOLEAN /\ st = "serving" /\ running = TRUE /\ rdOpen = TRUE /\ wrOpen = TRUE /\ sent = <<>> /\ replies = <<>> /\ stdin = "open"

Answer(r) == AnswerOf(r, hasGen)

\* one iteration of the Serve loop on a delivered request
Deliver(r) ==
  /\ stdin = "open" /\ st = "serving" /\ Len(sent) < MaxRequests
  /\ sent' = Append(sent, r)
  /\ IF r = "garbage"
     THEN \* envelope.Server.Handle fails to decode: Serve returns the error, nothing is written
          /\ st' = "failed" /\ running' = running /\ rdOpen' = FALSE /\ wrOpen' = FALSE /\ replies' = replies
     ELSE LET stops == r = "bye"                       \* Goodbye() calls server.Stop(): running := false, reader closed
              canWrite == IF stops /\ StopClosesWriter THEN FALSE ELSE wrOpen IN
          /\ running' = IF stops THEN FALSE ELSE running
          /\ replies' = IF canWrite THEN Append(replies, [to |-> r, kind |-> Answer(r)]) ELSE replies
          /\ IF ~canWrite THEN st' = "failed" /\ rdOpen' = FALSE /\ wrOpen' = FALSE           \* the write fails: Serve returns it
             ELSE IF stops THEN st' = "stopped" /\ rdOpen' = FALSE /\ wrOpen' = FALSE         \* loop condition false: deferred closes
             ELSE st' = st /\ rdOpen' = rdOpen /\ wrOpen' = wrOpen
  /\ UNCHANGED <<stdin, hasGen>>

\* the host closes the plugin's stdin: a serving plugin sees EOF while running, Serve returns it
CloseStdin ==
  /\ stdin = "open" /\ stdin' = "closed"
  /\ IF st = "serving" THEN st' = "failed" /\ rdOpen' = FALSE /\ wrOpen' = FALSE ELSE UNCHANGED <<st, rdOpen, wrOpen>>
  /\ UNCHANGED <<running, sent, replies, hasGen>>

Next == (\E r \in Requests : Deliver(r)) \/ CloseStdin
Spec == Init /\ [][Next]_vars /\ WF_vars(CloseStdin)

---------------------------------------------------------------------------
Served == IF st = "failed" /\ Len(sent) > 0 /\ sent[Len(sent)] = "garbage" THEN SubSeq(sent, 1, Len(sent) - 1) ELSE sent

\* every request up to the end of service is answered exactly once, in order, under its own name
OneReplyPerRequest == /\ Len(replies) = Len(Served)
                      /\ \A i \in 1..Len(replies) : replies[i].to = Served[i] /\ replies[i].kind = Answer(Served[i])
\* the three calls of the protocol are answered with results (generate only when the plugin has a generator)
ProtocolAnswered == \A i \in 1..Len(replies) :
                       (replies[i].to \in {"hs", "bye"} \/ (replies[i].to = "gen" /\ hasGen)) => replies[i].kind = "reply"
\* goodbye is answered, ends the service cleanly, and nothing is served after it
GoodbyeEndsService == /\ (st = "stopped") = (Len(sent) > 0 /\ sent[Len(sent)] = "bye" /\ Len(replies) = Len(sent))
                      /\ \A i \in 1..Len(sent) : sent[i] = "bye" => i = Len(sent)
\* whatever the host does, once stdin is closed the plugin is not left serving, and its pipes are closed
EndsWhenStdinCloses == stdin = "closed" => (st # "serving" /\ ~rdOpen /\ ~wrOpen)
Terminates == <>(st # "serving")

\* role B: the finished runs (stdin closed) as scripts for a real plugin built with plugin.Main
RECURSIVE Weight(_)
Code(r) == CASE r = "hs" -> 1 [] r = "gen" -> 2 [] r = "bye" -> 3 [] r = "nomethod" -> 4 [] r = "nosvc" -> 5 [] r = "nocolon" -> 6 [] OTHER -> 7
Weight(q) == IF q = <<>> THEN 0 ELSE (Code(Head(q)) + 7 * Weight(Tail(q))) % 1009
EmitCase == (EmitMod > 0 /\ stdin = "closed" /\ (Len(sent) <= 2 \/ Weight(sent) % EmitMod = 0))
            => PrintT(<<"CASE", ToJson([gen |-> hasGen, script |-> sent, replies |-> replies, st |-> st])>>)
=============================================================================
