SPECIFICATION Spec
CONSTANTS
  Alphabet = {0, 1, 2, 3, 11, 12, 13, 14, 15}
  MaxLen = 7
  AllocThreshold = 1048576
INVARIANTS InvNeverDifferent InvWireImpliesStream InvAgreeWithReference
CHECK_DEADLOCK FALSE
