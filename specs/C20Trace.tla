------------------------------ MODULE C20Trace ------------------------------
(***************************************************************************)
(* C20: recorded runs of the real thriftbreak binary on scratch git           *)
(* repositories (HEAD~ = old, HEAD = new), judged against Break.tla's          *)
(* SpecDiag.  One line per (old, new): lines = the set of "file:message"       *)
(* lines printed, jlines = the set of (FilePath, Message) pairs of -json mode, *)
(* code / jcode = exit statuses, nlines = number of lines printed.             *)
(***************************************************************************)
EXTENDS TraceBase, Break

VARIABLES l, bad, drift

ToProg(j) == [ f \in DOMAIN j |-> [ structs |-> j[f].structs,
                                    services |-> [ s \in DOMAIN j[f].services |-> Range(j[f].services[s]) ] ] ]
Want(e) == SpecDiag(ToProg(e.old), ToProg(e.new))
\* known finding C20-deleted-service-base-name: a deleted service is attributed to the base name of its
\* file (the directory is lost); e.base maps every path to its base name
BaseOf(e, f) == e.base[f]
IsDelete(d) == \E i \in 1..1 : d[2] \in { MsgDeleteService(s) : s \in {"K", "L", "M", "Z", "Y", "P"} }
WantKnown(e) == { IF IsDelete(d) THEN << BaseOf(e, d[1]), d[2] >> ELSE d : d \in Want(e) }
Affected(e) == WantKnown(e) # Want(e)
AsLines(D) == { d[1] \o ":" \o d[2] : d \in D }
Pairs(q) == { << q[i].FilePath, q[i].Message >> : i \in 1..Len(q) }

Checks(e) ==
  { <<"tool-ran", e.setup = "" /\ ~e.crashed>>,
    <<"reports-exactly-the-breaking-changes", Affected(e) \/ Range(e.lines) = AsLines(Want(e))>>,
    <<"each-reported-once", e.nlines = Cardinality(Want(e))>>,
    <<"json-mode-reports-the-same", Affected(e) \/ (Pairs(e.jlines) = Want(e) /\ Len(e.jlines) = Cardinality(Want(e)))>>,
    <<"KNOWN-CLASS-deleted-service-base-name", ~Affected(e) \/ (Range(e.lines) = AsLines(Want(e)) /\ Pairs(e.jlines) = Want(e))>>,
    <<"known-class-otherwise-exact", Affected(e) => (Range(e.lines) \in {AsLines(Want(e)), AsLines(WantKnown(e))} /\ Pairs(e.jlines) \in {Want(e), WantKnown(e)})>>,
    <<"exit-status-nonzero-iff-diagnostics", (e.code # 0) = (Want(e) # {}) /\ (e.jcode # 0) = (Want(e) # {})>>,
    <<"independent-of-ordering", \A i \in 1..Len(e.repeats) : Range(e.repeats[i]) = Range(e.lines)>> }

Init == l = 1 /\ bad = {} /\ drift = {}
Next == /\ l <= Len(Trace)
        /\ l' = l + 1
        /\ bad' = bad \cup Tag(l, Failed(Checks(Trace[l])))
        /\ UNCHANGED drift
Spec == Init /\ [][Next]_<<l, bad, drift>>
Done == l = Len(Trace) + 1 => WriteVerdict(Len(Trace), bad, drift)
=============================================================================
