------------------------------ MODULE C18Trace ------------------------------
(***************************************************************************)
(* C18: recorded concurrent executions judged against Pools.tla's rules.    *)
(* Lines, in order:                                                          *)
(*   c18round  start of a stress round (resets the holder map)               *)
(*   c18ev     one pool event (after Get / before Put), in the order of the  *)
(*             global sequence number; g = goroutine id                      *)
(*   c18res    result digest of operation i run alone (base) and run         *)
(*             concurrently with the others (conc)                           *)
(*   c18frame  K concurrent Sends on one frame client against an echo server *)
(*   c18merge  concurrent plugin fan-out (MultiServiceGenerator)             *)
(* The holder map is Pools.tla's `holder`: an object is held by at most one   *)
(* goroutine, is put back only by its holder and only after its reset.       *)
(***************************************************************************)
EXTENDS TraceBase

VARIABLES l, bad, drift, holder

\* objects are told apart by pool and address: a lazy container dropped without Close is freed by the collector and its
\* address may come back as an object of ANOTHER pool (StreamReader and lazy list share a size class)
Obj(e) == e.kind \o "@" \o e.obj
HeldBy(o) == IF o \in DOMAIN holder THEN holder[o] ELSE 0          \* 0 = in the pool / never seen

Checks(e) ==
  CASE e.op = "c18ev" /\ e.ev = "get" ->
         \* lazy containers may legitimately be dropped without Close (then the collector frees them and
         \* the address can come back as a new object), so for them double holding is caught at the
         \* next put (put-by-the-holder); readers and writers are always returned explicitly
         { <<"object-has-one-holder", e.kind \in {"lazylist", "lazymap"} \/ HeldBy(Obj(e)) = 0>>,
           <<"object-comes-clean-from-pool", e.clean>> }
    [] e.op = "c18ev" /\ e.ev = "put" ->
         { <<"put-by-the-holder", HeldBy(Obj(e)) = e.g>>,
           <<"fields-reset-before-put", e.clean>> }
    [] e.op = "c18res" -> { <<"result-equals-sequential-result", e.base = e.conc>>,
                            \* a destination that fails does so with an error private to one operation: it shows up in no other result
                            <<"no-operation-sees-the-failure-of-another", Has(e, "alien") => ~e.alien>> }
    [] e.op = "c18frame" -> { <<"each-send-gets-its-own-reply", e.mismatch = 0 /\ e.errors = 0>> }
    [] e.op = "c18sched" ->
         \* a TLC-generated interleaving of concurrent Sends forced through the gate hook
         { <<"each-send-gets-its-own-reply", ~e.hung /\ \A i \in 1..Len(e.results) : e.results[i].err = "" /\ e.results[i].got = e.results[i].sent>> }
    [] e.op = "c18merge" -> { <<"fan-out-merges-without-loss", e.err = "" /\ e.got = e.expected /\ e.wrongcontent = 0>> }
    [] OTHER -> {}

Init == l = 1 /\ bad = {} /\ drift = {} /\ holder = << >>
Next == /\ l <= Len(Trace)
        /\ l' = l + 1
        /\ LET e == Trace[l] IN
           /\ bad' = bad \cup Tag(l, Failed(Checks(e)))
           /\ holder' = IF Has(e, "canary") THEN holder
                        ELSE IF e.op = "c18round" THEN << >>
                        ELSE IF e.op = "c18ev" /\ e.ev = "get" THEN (Obj(e) :> e.g) @@ holder
                        ELSE IF e.op = "c18ev" /\ e.ev = "put" THEN (Obj(e) :> 0) @@ holder
                        ELSE holder
        /\ UNCHANGED drift
Spec == Init /\ [][Next]_<<l, bad, drift, holder>>
Done == l = Len(Trace) + 1 => WriteVerdict(Len(Trace), bad, drift)
=============================================================================
