------------------------------- MODULE Quote -------------------------------
(***************************************************************************)
(* String literals of the IDL (C11): what a literal denotes, and what          *)
(* idl/internal/quote.go computes.                                             *)
(*                                                                         *)
(* A literal body is a sequence of bytes between two quote characters of one    *)
(* style (34 = double, 39 = single).  The scanner (lex.rl: literal) accepts      *)
(* any body made of plain bytes other than the quote, newline and backslash,     *)
(* and of backslash + any byte.                                                  *)
(*   Denote(body)      - the meaning: Go's escape sequences, plus both quote     *)
(*                       characters escapable in both styles                     *)
(*   Fixed(q, body)    - quote.go as repaired: rewrite as a Go double quoted      *)
(*                       string escape by escape, then strconv.Unquote            *)
(*   Pinned(q, body)   - quote.go as pinned: bytes.ReplaceAll of the escaped      *)
(*                       other quote, (swap quotes,) strconv.Unquote, (swap back) *)
(* Results are [ok, v]: v the denoted bytes.                                      *)
(***************************************************************************)
EXTENDS Integers, Sequences

BS == 92
DQ == 34
SQ == 39
Err == [ok |-> FALSE, v |-> << >>]
Ok(v) == [ok |-> TRUE, v |-> v]

HexVal(c) == CASE c >= 48 /\ c <= 57 -> c - 48
               [] c >= 97 /\ c <= 102 -> c - 87
               [] c >= 65 /\ c <= 70 -> c - 55
               [] OTHER -> -1
IsOct(c) == c >= 48 /\ c <= 55

RECURSIVE HexNum(_, _, _)
HexNum(b, i, n) == IF n = 0 THEN 0 ELSE (HexNum(b, i, n - 1) * 16) + HexVal(b[i + n - 1])
AllHex(b, i, n) == i + n - 1 <= Len(b) /\ \A j \in i..(i + n - 1) : HexVal(b[j]) >= 0

Utf8(r) == IF r < 128 THEN << r >>
           ELSE IF r < 2048 THEN << 192 + (r \div 64), 128 + (r % 64) >>
           ELSE IF r < 65536 THEN << 224 + (r \div 4096), 128 + ((r \div 64) % 64), 128 + (r % 64) >>
           ELSE << 240 + (r \div 262144), 128 + ((r \div 4096) % 64), 128 + ((r \div 64) % 64), 128 + (r % 64) >>
ValidRune(r) == r <= 1114111 /\ ~(r >= 55296 /\ r <= 57343)

Simple(c) == CASE c = 97 -> 7 [] c = 98 -> 8 [] c = 102 -> 12 [] c = 110 -> 10 [] c = 114 -> 13 [] c = 116 -> 9 [] c = 118 -> 11
               [] c = BS -> BS [] OTHER -> -1

(* One escape sequence starting at b[i] = backslash.  allowed = the quote characters that may be escaped.  *)
(* Result: [ok, v, n] with n the bytes consumed.                                                           *)
Escape(b, i, allowed) ==
  IF i + 1 > Len(b) THEN [ok |-> FALSE, v |-> << >>, n |-> 0]
  ELSE LET c == b[i + 1] IN
    IF Simple(c) >= 0 THEN [ok |-> TRUE, v |-> << Simple(c) >>, n |-> 2]
    ELSE IF c \in allowed THEN [ok |-> TRUE, v |-> << c >>, n |-> 2]
    ELSE IF c = 120 THEN (IF AllHex(b, i + 2, 2) THEN [ok |-> TRUE, v |-> << HexNum(b, i + 2, 2) >>, n |-> 4] ELSE [ok |-> FALSE, v |-> << >>, n |-> 0])
    ELSE IF c = 117 THEN (IF AllHex(b, i + 2, 4) /\ ValidRune(HexNum(b, i + 2, 4))
                          THEN [ok |-> TRUE, v |-> Utf8(HexNum(b, i + 2, 4)), n |-> 6] ELSE [ok |-> FALSE, v |-> << >>, n |-> 0])
    ELSE IF IsOct(c) THEN (IF i + 3 <= Len(b) /\ IsOct(b[i + 2]) /\ IsOct(b[i + 3]) /\ (c - 48) * 64 + (b[i + 2] - 48) * 8 + (b[i + 3] - 48) <= 255
                           THEN [ok |-> TRUE, v |-> << (c - 48) * 64 + (b[i + 2] - 48) * 8 + (b[i + 3] - 48) >>, n |-> 4]
                           ELSE [ok |-> FALSE, v |-> << >>, n |-> 0])
    ELSE [ok |-> FALSE, v |-> << >>, n |-> 0]

(* The meaning of a body: both quotes may be escaped, either may appear plain (the scanner excludes the delimiter) *)
RECURSIVE DenoteFrom(_, _, _)
DenoteFrom(b, i, acc) ==
  IF i > Len(b) THEN Ok(acc)
  ELSE IF b[i] = BS THEN LET e == Escape(b, i, {DQ, SQ}) IN IF e.ok THEN DenoteFrom(b, i + e.n, acc \o e.v) ELSE Err
  ELSE DenoteFrom(b, i + 1, Append(acc, b[i]))
Denote(b) == DenoteFrom(b, 1, << >>)

(* strconv.Unquote on a double quoted Go string with body b: only the double quote may be escaped, none plain *)
RECURSIVE GoFrom(_, _, _)
GoFrom(b, i, acc) ==
  IF i > Len(b) THEN Ok(acc)
  ELSE IF b[i] = DQ THEN Err
  ELSE IF b[i] = BS THEN LET e == Escape(b, i, {DQ}) IN IF e.ok THEN GoFrom(b, i + e.n, acc \o e.v) ELSE Err
  ELSE GoFrom(b, i + 1, Append(acc, b[i]))
GoUnquote(b) == GoFrom(b, 1, << >>)

(* quote.go, repaired: unquote(in, quote) *)
RECURSIVE Rewrite(_, _, _)
Rewrite(b, i, acc) ==
  IF i > Len(b) THEN acc
  ELSE IF b[i] = BS /\ i + 1 <= Len(b)
       THEN Rewrite(b, i + 2, IF b[i + 1] = SQ THEN Append(acc, SQ) ELSE acc \o << BS, b[i + 1] >>)
  ELSE IF b[i] = DQ THEN Rewrite(b, i + 1, acc \o << BS, DQ >>)
  ELSE Rewrite(b, i + 1, Append(acc, b[i]))
Fixed(q, b) == GoUnquote(Rewrite(b, 1, << >>))

(* quote.go, pinned *)
RECURSIVE ReplaceAll(_, _, _, _)
ReplaceAll(b, i, q, acc) ==        \* bytes.ReplaceAll(in, `\q`, `q`): leftmost, non-overlapping, not escape-aware
  IF i > Len(b) THEN acc
  ELSE IF b[i] = BS /\ i + 1 <= Len(b) /\ b[i + 1] = q THEN ReplaceAll(b, i + 2, q, Append(acc, q))
  ELSE ReplaceAll(b, i + 1, q, Append(acc, b[i]))
Swap(b) == [ j \in 1..Len(b) |-> IF b[j] = DQ THEN SQ ELSE IF b[j] = SQ THEN DQ ELSE b[j] ]
Pinned(q, b) ==
  IF q = DQ THEN GoUnquote(ReplaceAll(b, 1, SQ, << >>))
  ELSE LET r == GoUnquote(Swap(ReplaceAll(b, 1, DQ, << >>))) IN IF r.ok THEN Ok(Swap(r.v)) ELSE Err

(* what the scanner accepts as the body of a literal delimited by q *)
RECURSIVE LexOK(_, _, _)
LexOK(b, i, q) == IF i > Len(b) THEN TRUE
                  ELSE IF b[i] = BS THEN i + 1 <= Len(b) /\ LexOK(b, i + 2, q)
                  ELSE b[i] # q /\ b[i] # 10 /\ LexOK(b, i + 1, q)
=============================================================================
