INIT Init
NEXT Next
CONSTANTS
  SweepTo = 1100
  MaxPow = 21
CHECK_DEADLOCK FALSE
