------------------------------ MODULE MCLexer ------------------------------
(***************************************************************************)
(* Roles A and B for the position / docstring half of C11.                     *)
(*                                                                         *)
(* skeletons.ndjson: token sequences of small documents drawn from the full     *)
(* grammar by the pretty-printer (lib/idlgen.py), every token annotated with     *)
(* the grammar markers it carries (see Lexer.tla).  gaps.ndjson: the layout       *)
(* alphabet - what may stand between two tokens (blanks, newlines, CRLF, line      *)
(* and block comments with and without newlines, docstrings of several shapes      *)
(* followed by 0, 1 or 2 newlines, a docstring followed by another comment).       *)
(* TLC explores, per skeleton, every assignment of layout to the gaps with at       *)
(* most MaxFancy non-trivial ones, runs the scanner model over the resulting        *)
(* document and checks at its end that every recorded position and docstring is     *)
(* the true one (modulo the recorded finding for positions read before the token).  *)
(* A deterministic sample of the explored documents is printed for replay          *)
(* against the real parser.                                                         *)
(***************************************************************************)
EXTENDS Lexer, Json

CONSTANTS MaxFancy, EmitMod, EmitPick

Skels == ndJsonDeserialize("skeletons.ndjson")
Gaps  == ndJsonDeserialize("gaps.ndjson")

VARIABLES sk, i, st, gaps, fancy
vars == <<sk, i, st, gaps, fancy>>

NToks == Len(Skels[sk].toks)
Sp1 == [k |-> "sp", w |-> 1, nls |-> 0, lw |-> 0, id |-> 0]
Trivial(t) == IF t.sep THEN << Sp1 >> ELSE << >>
WithDocId(atoms, n) == [ j \in 1..Len(atoms) |-> IF atoms[j].k = "doc" THEN [atoms[j] EXCEPT !.id = n] ELSE atoms[j] ]

RECURSIVE Feed(_, _, _)
Feed(s, atoms, j) == IF j > Len(atoms) THEN s ELSE Feed(Step(s, atoms[j]), atoms, j + 1)

Init == sk \in 1..Len(Skels) /\ i = 1 /\ st = LexInit /\ gaps = << >> /\ fancy = 0

Take(g) ==
  /\ i <= NToks + 1
  /\ g # 0 => fancy < MaxFancy
  /\ LET atoms == IF g = 0 THEN (IF i <= NToks THEN Trivial(Skels[sk].toks[i]) ELSE << >>)
                  ELSE WithDocId(Gaps[g].atoms, i)
         s1 == Feed(st, atoms, 1)
     IN st' = IF i <= NToks THEN Step(s1, Skels[sk].toks[i]) ELSE Flush(s1)
  /\ i' = i + 1
  /\ gaps' = Append(gaps, g)
  /\ fancy' = fancy + (IF g = 0 THEN 0 ELSE 1)
  /\ UNCHANGED sk

Next == \E g \in 0..Len(Gaps) : Take(g)
Spec == Init /\ [][Next]_vars

Final == i = NToks + 2
NextNodes == { Skels[sk].nextnodes[j] : j \in 1..Len(Skels[sk].nextnodes) }

\* every node that has a position got one, from exactly the markers the skeleton says
AllMarked == Final => /\ DOMAIN st.pos = { Skels[sk].posnodes[j] : j \in 1..Len(Skels[sk].posnodes) }
                      /\ DOMAIN st.tpos = DOMAIN st.pos
                      /\ DOMAIN st.doc = { Skels[sk].docnodes[j] : j \in 1..Len(Skels[sk].docnodes) }
PositionsOK == Final => PositionsTrue(st, DOMAIN st.tpos \ NextNodes)
\* the recorded finding, stated positively: such a node is never positioned after its own first token
EarlyOnlyEarlier == Final => \A n \in NextNodes : st.pos[n][1] < st.tpos[n][1] \/ (st.pos[n][1] = st.tpos[n][1] /\ st.pos[n][2] < st.tpos[n][2])
DocsOK == Final => DocsTrue(st)
\* the property as stated, without the finding: violated wherever a value follows '=' (negative control)
PositionsAllOK == Final => PositionsTrue(st, DOMAIN st.tpos)

RECURSIVE WSum(_, _)
WSum(s, j) == IF j > Len(s) THEN 0 ELSE s[j] * (j + 2) + WSum(s, j + 1)
EmitCase == (Final /\ (WSum(gaps, 1) + sk) % EmitMod = EmitPick) => PrintT(<<"CASE", ToJson([sk |-> sk, gaps |-> gaps])>>)
=============================================================================
