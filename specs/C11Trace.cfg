SPECIFICATION Spec
CONSTANTS
  FixTokNl = TRUE
  FixDocNl = TRUE
  FixDocLeak = TRUE
INVARIANT Done
CHECK_DEADLOCK FALSE
