------------------------------ MODULE WireSizes ------------------------------
(***************************************************************************)
(* Role B for C02: the lengths of binary / string payloads.  Wire.tla's      *)
(* encoding of a binary is its length prefix followed by the bytes, whatever  *)
(* the length; writers and readers switch strategy at internal sizes (scratch  *)
(* buffers, pooled buffers, the 1 MiB allocation threshold), so every length   *)
(* up to a few hundred bytes and the neighbours of every power of two are       *)
(* written as cases (judged by header + digest, C02Trace.tla's BigSide/BigDec).  *)
(***************************************************************************)
EXTENDS Integers, Sequences, FiniteSets, TLC, Json, SequencesExt

CONSTANTS SweepTo, MaxPow

RECURSIVE Pow2(_)
Pow2(k) == IF k = 0 THEN 1 ELSE 2 * Pow2(k - 1)
Sweep == 0..SweepTo
Near  == UNION { { Pow2(k) - 1, Pow2(k), Pow2(k) + 1 } : k \in 9..MaxPow }
Single == { [shape |-> sh, sizes |-> << n >>] : sh \in {"struct"}, n \in Sweep \cup Near }
\* a payload between two others: what follows a payload must not be disturbed by it
Trio == { [shape |-> sh, sizes |-> << 3, n, 5 >>] : sh \in {"struct", "list"}, n \in { m \in Sweep : m % 16 \in {0, 13, 14, 15} } \cup Near }
CSeq == SetToSeq(Single \cup Trio)
Cases == [ i \in 1..Len(CSeq) |-> [ id |-> "z" \o ToString(i), shape |-> CSeq[i].shape, sizes |-> CSeq[i].sizes ] ]
ASSUME ndJsonSerialize("cases.ndjson", Cases)
VARIABLE x
Init == x = 0
Next == UNCHANGED x
=============================================================================
