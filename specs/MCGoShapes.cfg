SPECIFICATION Spec
CONSTANTS
  EmitMod = 1
  EmitPick = 0
INVARIANTS EmitCase
CHECK_DEADLOCK FALSE
