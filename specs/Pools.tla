------------------------------- MODULE Pools -------------------------------
(***************************************************************************)
(* The five sync.Pools of protocol/binary (writerPool, streamWriterPool,    *)
(* streamReaderPool, lazyValueListPool, lazyMapItemListPool) and the        *)
(* operations that borrow from them: BorrowWriter/ReturnWriter (writer.go), *)
(* NewStreamWriter/returnStreamWriter (stream_writer.go),                    *)
(* NewStreamReader/returnStreamReader (stream_reader.go), newReader/close    *)
(* and the lazy containers' ForEach/Close (reader.go, lazy_list.go).         *)
(*                                                                         *)
(* An object is either in its pool, held by exactly one operation, or        *)
(* dropped by the garbage collector (then it can be allocated again as a     *)
(* fresh object).  `field` is the resettable state of an object: the id of   *)
(* the operation that set it, or "nil" after the reset that precedes Put.    *)
(***************************************************************************)
EXTENDS Integers, Sequences, FiniteSets, TLC

CONSTANTS Ops,        \* operation ids (one goroutine each)
          Kinds,      \* pool names
          ObjsPer,    \* objects per pool
          Programs,   \* the programs an operation may run (names)
          DoubleClose \* TRUE: a lazy container is closed twice (negative control)

Objs == Kinds \X (1..ObjsPer)
KindOf(o) == o[1]

\* programs as sequences of steps: <<"get", kind>>, <<"use", kind>>, <<"put", kind>>
Prog(name) ==
  CASE name = "encode" ->          \* Protocol.Encode: BorrowWriter (stream writer, then writer) ... ReturnWriter
         << <<"get", "swriter">>, <<"get", "writer">>, <<"use", "writer">>, <<"use", "swriter">>,
            <<"put", "swriter">>, <<"put", "writer">> >>
    [] name = "decode-list" ->      \* Protocol.Decode of a list, force it, close it
         << <<"get", "sreader">>, <<"get", "lazylist">>, <<"put", "sreader">>,         \* ReadValue: header, skip pass, lazy list
            <<"get", "sreader">>, <<"use", "lazylist">>, <<"use", "sreader">>, <<"put", "sreader">>,   \* ForEach with a fresh reader
            <<"put", "lazylist">> >>                                                    \* Close
         \o (IF DoubleClose THEN << <<"put", "lazylist">> >> ELSE <<>>)
    [] name = "stream-encode" ->    \* Protocol.Writer(w) ... Close
         << <<"get", "swriter">>, <<"use", "swriter">>, <<"put", "swriter">> >>
    [] name = "stream-decode" ->    \* Protocol.Reader(r) ... Close
         << <<"get", "sreader">>, <<"use", "sreader">>, <<"put", "sreader">> >>

VARIABLES prog,    \* [Ops -> program name]
          pc,      \* [Ops -> index of the next step]
          pool,    \* set of objects currently in their pool
          holder,  \* [Objs -> op or "none"]
          field,   \* [Objs -> op id or "nil"]
          mine,    \* [Ops -> sequence of objects held, in acquisition order]
          broken   \* an operation saw another operation's data in an object it holds

vars == <<prog, pc, pool, holder, field, mine, broken>>

Init == /\ prog \in [Ops -> Programs]
        /\ pc = [i \in Ops |-> 1]
        /\ pool = {} /\ holder = [o \in Objs |-> "none"] /\ field = [o \in Objs |-> "nil"]
        /\ mine = [i \in Ops |-> <<>>] /\ broken = FALSE

Step(i) == Prog(prog[i])[pc[i]]
Active(i) == pc[i] <= Len(Prog(prog[i]))
HeldOf(i, k) == { mine[i][n] : n \in { m \in 1..Len(mine[i]) : KindOf(mine[i][m]) = k } }

\* sync.Pool.Get: any pooled object of that kind, or a new one (an object neither pooled nor held)
Get(i) ==
  /\ Active(i) /\ Step(i)[1] = "get"
  /\ LET k == Step(i)[2] IN
     \E o \in Objs :
       /\ KindOf(o) = k
       /\ o \in pool \/ (holder[o] = "none" /\ field[o] = "nil")          \* reused or freshly allocated
       /\ pool' = pool \ {o}
       /\ holder' = [holder EXCEPT ![o] = i]
       /\ broken' = (broken \/ field[o] # "nil")                          \* a pooled object must come back clean
       /\ field' = [field EXCEPT ![o] = i]                                 \* sr.reader = r / writer.sw = ...
       /\ mine' = [mine EXCEPT ![i] = Append(@, o)]
  /\ pc' = [pc EXCEPT ![i] = @ + 1]
  /\ UNCHANGED prog

\* the operation reads/writes through an object it holds
Use(i) ==
  /\ Active(i) /\ Step(i)[1] = "use"
  /\ LET k == Step(i)[2] IN
     broken' = (broken \/ \E o \in HeldOf(i, k) : field[o] # i)           \* someone else touched my object
  /\ pc' = [pc EXCEPT ![i] = @ + 1]
  /\ UNCHANGED <<prog, pool, holder, field, mine>>

\* reset the fields, then sync.Pool.Put
Put(i) ==
  /\ Active(i) /\ Step(i)[1] = "put"
  /\ LET k == Step(i)[2]
         cands == HeldOf(i, k) IN
     /\ cands # {}
     /\ \E o \in cands :
          /\ field' = [field EXCEPT ![o] = "nil"]
          /\ pool' = pool \cup {o}
          /\ holder' = [holder EXCEPT ![o] = IF @ = i THEN "none" ELSE @]
          \* a second Close of the same lazy container keeps the stale reference in `mine`
          /\ mine' = IF DoubleClose /\ k = "lazylist" /\ pc[i] < Len(Prog(prog[i])) THEN mine
                     ELSE [mine EXCEPT ![i] = SelectSeq(@, LAMBDA x : x # o)]
  /\ pc' = [pc EXCEPT ![i] = @ + 1]
  /\ UNCHANGED <<prog, broken>>

\* the garbage collector may drop pooled objects at any time
GC == /\ \E o \in pool : pool' = pool \ {o}
      /\ UNCHANGED <<prog, pc, holder, field, mine, broken>>

Next == (\E i \in Ops : Get(i) \/ Use(i) \/ Put(i)) \/ GC
Spec == Init /\ [][Next]_vars

---------------------------------------------------------------------------
OneHolder   == \A o \in Objs : Cardinality({ i \in Ops : \E n \in 1..Len(mine[i]) : mine[i][n] = o }) <= 1
NotPooledWhileHeld == \A o \in pool : \A i \in Ops : \A n \in 1..Len(mine[i]) : mine[i][n] # o
CleanInPool == \A o \in pool : field[o] = "nil"
Isolated    == ~broken
AllReturned == (\A i \in Ops : ~Active(i)) => \A i \in Ops : mine[i] = <<>>
=============================================================================
