----------------------------- MODULE MCGenCodec -----------------------------
(***************************************************************************)
(* Role A for C01: self-consistency of the reference codec over the family   *)
(* F1, stepped as a small machine: choose (type, value); serialize with the   *)
(* reference serializer; write the bytes; read them with the strict reader;   *)
(* deserialize with the reference deserializer.  An error in the oracle is    *)
(* found here before it judges any code.                                      *)
(***************************************************************************)
EXTENDS SchemaFamily

VARIABLES S, tn, val, stage, wireV, bytes, back

vars == <<S, tn, val, stage, wireV, bytes, back>>

Init == /\ \/ \E i \in 1..Len(Specs) : S = SchemaOf(i) /\ tn = NameOf(i) /\ val \in ValuesOf(i)
           \/ \E c \in MultiCases : S = MultiSchema /\ tn = c[1] /\ val = c[2]
        /\ stage = "value" /\ wireV = Nil /\ bytes = <<>> /\ back = NoDef

Serialize == /\ stage = "value"
             /\ wireV' = ToWireRef(S, Ref(tn), val) /\ stage' = "wire"
             /\ UNCHANGED <<S, tn, val, bytes, back>>
WriteBytes == /\ stage = "wire"
              /\ bytes' = Enc(wireV) /\ stage' = "bytes"
              /\ UNCHANGED <<S, tn, val, wireV, back>>
Deserialize == /\ stage = "bytes"
               /\ back' = DecRef(S, Ref(tn), bytes) /\ stage' = "done"
               /\ UNCHANGED <<S, tn, val, wireV, bytes>>
Next == Serialize \/ WriteBytes \/ Deserialize
Spec == Init /\ [][Next]_vars

ValuesValid == Valid(S, Ref(tn), val)
WireWellTyped == stage # "value" => WellTyped(wireV)
RoundTrip == stage = "done" => EqL(back, WithDefaults(S, Ref(tn), val))
ReadersInvert == stage \in {"bytes", "done"} =>
   LET a == DecStrict(bytes, 1, TStruct, 0, 0) b == DecLazy(bytes, 1, TStruct, 0, 0) IN
   a.ok /\ a.v = wireV /\ b.ok /\ b.v = wireV /\ a.p = Len(bytes) + 1
=============================================================================
