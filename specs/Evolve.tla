-------------------------------- MODULE Evolve --------------------------------
(***************************************************************************)
(* Schema evolution (C05): a value written under schema W is read by code    *)
(* generated for schema R.  Project(W, R, v) states declaratively what the    *)
(* reader must see: for every field of R, the writer's field with the same id *)
(* if its wire type is the one R declares (re-read under R's type), otherwise  *)
(* the field is absent and takes its default or stays unset; reading fails iff *)
(* a required field without default is absent or mistyped, or a union does not *)
(* end with exactly one member.  Fields of W unknown to R do not matter.       *)
(* Inject puts arbitrary foreign fields into a wire term at any depth.          *)
(***************************************************************************)
EXTENDS GenPaths, SchemaFamily

RECURSIVE Project(_, _, _, _, _), ProjFields(_, _, _, _, _, _), ProjSeq(_, _, _, _, _), ProjPairs(_, _, _, _, _, _, _)

\* value v of type tw under W, seen as type tr under R (the wire types already match)
ProjSeq(W, R, tw, tr, vs) ==
  IF vs = <<>> THEN <<>>
  ELSE LET h == Project(W, R, tw, tr, Head(vs)) rest == ProjSeq(W, R, tw, tr, Tail(vs)) IN
       IF h = Bad \/ IsBadSeq(rest) THEN BadSeq ELSE << h >> \o rest
ProjPairs(W, R, kw, vw, kr, vr, ms) ==
  IF ms = <<>> THEN <<>>
  ELSE LET k == Project(W, R, kw, kr, Head(ms).k) v == Project(W, R, vw, vr, Head(ms).v)
           rest == ProjPairs(W, R, kw, vw, kr, vr, Tail(ms)) IN
       IF k = Bad \/ v = Bad \/ IsBadSeq(rest) THEN BadSeq ELSE << [k |-> k, v |-> v] >> \o rest

\* the fields of R's struct, in R's declaration order
ProjFields(W, R, dw, dr, v, j) ==
  IF j > Len(dr.fields) THEN <<>>
  ELSE LET fr == dr.fields[j]
           cands == { i \in 1..Len(dw.fields) : dw.fields[i].id = fr.id /\ TypeCode(W, dw.fields[i].t) = TypeCode(R, fr.t) }
           written == IF cands = {} THEN NoDef
                      ELSE LET fw == dw.fields[CHOOSE i \in cands : TRUE]
                               given == FieldValue(v, fw.name)
                               sent == IF given # NoDef THEN given ELSE fw.def IN     \* the writer also writes its own defaults
                           IF sent = NoDef THEN NoDef ELSE Project(W, R, fw.t, fr.t, sent)
           rest == ProjFields(W, R, dw, dr, v, j + 1)
       IN IF written = Bad \/ IsBadSeq(rest) THEN BadSeq
          ELSE IF written # NoDef /\ ~IsNilC(written) THEN << [n |-> fr.name, v |-> written] >> \o rest
          ELSE IF fr.def # NoDef THEN << [n |-> fr.name, v |-> fr.def] >> \o rest
          ELSE IF fr.req /\ written = NoDef THEN BadSeq                              \* required, no default, absent or mistyped
          ELSE rest

Project(W, R, tw, tr, v) ==
  LET rw == Root(W, tw) rr == Root(R, tr) IN
  CASE rr.k \in {"bool", "i8", "i16", "i32", "i64", "double", "string", "binary"} -> v
    [] rr.k \in {"list", "set"} ->
         IF TypeCode(W, rw.e) # TypeCode(R, rr.e) THEN NilC(rr.k)
         ELSE LET es == ProjSeq(W, R, rw.e, rr.e, v.e) IN IF IsBadSeq(es) THEN Bad ELSE [k |-> rr.k, e |-> es]
    [] rr.k = "map" ->
         IF TypeCode(W, rw.kt) # TypeCode(R, rr.kt) \/ TypeCode(W, rw.vt) # TypeCode(R, rr.vt) THEN NilC("map")
         ELSE LET ms == ProjPairs(W, R, rw.kt, rw.vt, rr.kt, rr.vt, v.m) IN IF IsBadSeq(ms) THEN Bad ELSE [k |-> "map", m |-> ms]
    [] rr.k = "ref" ->
         IF Def(R, rr.n).kind = "enum" THEN v
         ELSE LET dw == Def(W, rw.n) dr == Def(R, rr.n)
                  fs == ProjFields(W, R, dw, dr, v, 1) IN
              IF IsBadSeq(fs) THEN Bad
              ELSE IF dr.kind = "union" /\ Len(fs) # 1 THEN Bad
              ELSE [k |-> "struct", f |-> fs]

---------------------------------------------------------------------------
(* Injection of foreign fields into a wire term: at position k of the field list of *)
(* the struct reached by following `path` (a sequence of field indices).             *)
InsAfter(q, k, x) == SubSeq(q, 1, k) \o << x >> \o SubSeq(q, k + 1, Len(q))
RECURSIVE Inject(_, _, _, _)
Inject(w, path, k, extra) ==
  IF path = <<>> THEN [w EXCEPT !.f = InsAfter(@, k, extra)]
  ELSE [w EXCEPT !.f[Head(path)].v = Inject(@, Tail(path), k, extra)]

\* all (path, k) injection points of a wire struct term, down to nested struct fields
RECURSIVE Points(_, _)
Points(w, prefix) ==
  { <<prefix, k>> : k \in 0..Len(w.f) }
  \cup UNION { IF w.f[i].v.t = TStruct THEN Points(w.f[i].v, Append(prefix, i)) ELSE {} : i \in 1..Len(w.f) }
=============================================================================
