------------------------------- MODULE Wire -------------------------------
(***************************************************************************)
(* Thrift wire values and the Thrift Binary Protocol layout.               *)
(*                                                                         *)
(* Code anchors: wire/value.go (Value, Struct, Field, MapItem),            *)
(* protocol/binary/writer.go (Writer.WriteValue), stream_writer.go         *)
(* (StreamWriter writes), stream_reader.go (StreamReader reads, Skip).      *)
(*                                                                         *)
(* Value terms (identical to the JSON projection written by the harness):  *)
(*   [t |-> 2|3|6|8, n |-> Int]          bool (0/1), i8, i16, i32          *)
(*   [t |-> 4|10,   l |-> <<a,b,c,d>>]   double / i64 as four 16-bit limbs *)
(*                                        (TLC integers are 32-bit)         *)
(*   [t |-> 11, b |-> <<bytes>>]          binary / string                   *)
(*   [t |-> 12, f |-> << [id, v] ... >>]  struct, fields in wire order      *)
(*   [t |-> 13, kt, vt, m |-> << [k, v] ... >>]   map                       *)
(*   [t |-> 14|15, et, e |-> << v ... >>]          set / list               *)
(***************************************************************************)
EXTENDS Integers, Sequences, FiniteSets

TBool == 2   TI8 == 3   TDouble == 4   TI16 == 6   TI32 == 8   TI64 == 10
TBinary == 11   TStruct == 12   TMap == 13   TSet == 14   TList == 15

WireTypes == {TBool, TI8, TDouble, TI16, TI32, TI64, TBinary, TStruct, TMap, TSet, TList}

\* fixedWidth (stream_reader.go): encoded size, or -1 if value-dependent/unknown
FixedWidth(t) == CASE t = TBool -> 1 [] t = TI8 -> 1 [] t = TDouble -> 8
                   [] t = TI16 -> 2 [] t = TI32 -> 4 [] t = TI64 -> 8
                   [] OTHER -> -1

MinI32 == -2147483647 - 1
MaxI32 == 2147483647

---------------------------------------------------------------------------
(* Big-endian fixed-width encodings.  \div is floor division and % is the  *)
(* non-negative remainder, so two's complement falls out for negatives.    *)
Byte(n)  == n % 256
BE8(n)   == << n % 256 >>
BE16(n)  == << (n \div 256) % 256, n % 256 >>
BE32(n)  == << (n \div 16777216) % 256, (n \div 65536) % 256, (n \div 256) % 256, n % 256 >>
BELimbs(l) == BE16(l[1]) \o BE16(l[2]) \o BE16(l[3]) \o BE16(l[4])

\* decoding of the same
S8(b)        == IF b >= 128 THEN b - 256 ELSE b
I16Of(b1,b2) == S8(b1) * 256 + b2
I32Of(b1,b2,b3,b4) == S8(b1) * 16777216 + b2 * 65536 + b3 * 256 + b4
LimbsOf(bs, p) == << bs[p]*256 + bs[p+1], bs[p+2]*256 + bs[p+3],
                     bs[p+4]*256 + bs[p+5], bs[p+6]*256 + bs[p+7] >>

---------------------------------------------------------------------------
(* Enc: the bytes the Thrift Binary Protocol prescribes for a value.       *)
RECURSIVE Enc(_), EncSeq(_), EncFields(_), EncItems(_)

EncSeq(vs)    == IF vs = <<>> THEN <<>> ELSE Enc(Head(vs)) \o EncSeq(Tail(vs))
EncFields(fs) == IF fs = <<>> THEN << 0 >>
                 ELSE << Byte(Head(fs).v.t) >> \o BE16(Head(fs).id) \o Enc(Head(fs).v) \o EncFields(Tail(fs))
EncItems(ms)  == IF ms = <<>> THEN <<>>
                 ELSE Enc(Head(ms).k) \o Enc(Head(ms).v) \o EncItems(Tail(ms))

Enc(v) ==
  CASE v.t = TBool   -> << IF v.n = 0 THEN 0 ELSE 1 >>
    [] v.t = TI8     -> BE8(v.n)
    [] v.t = TI16    -> BE16(v.n)
    [] v.t = TI32    -> BE32(v.n)
    [] v.t = TI64    -> BELimbs(v.l)
    [] v.t = TDouble -> BELimbs(v.l)
    [] v.t = TBinary -> BE32(Len(v.b)) \o v.b
    [] v.t = TStruct -> EncFields(v.f)
    [] v.t = TMap    -> << Byte(v.kt), Byte(v.vt) >> \o BE32(Len(v.m)) \o EncItems(v.m)
    [] v.t = TSet    -> << Byte(v.et) >> \o BE32(Len(v.e)) \o EncSeq(v.e)
    [] v.t = TList   -> << Byte(v.et) >> \o BE32(Len(v.e)) \o EncSeq(v.e)

---------------------------------------------------------------------------
(* WriterCalls: the stream.Writer call sequence Writer.WriteValue makes    *)
(* (writer.go), and CallBytes: what StreamWriter emits for each call.      *)
(* Calls are uniform records [c, n, l, b, t2] so that sets of them hash.   *)
Call(c, n, l, b, t2) == [c |-> c, n |-> n, l |-> l, b |-> b, t2 |-> t2]
Z4 == <<0,0,0,0>>

RECURSIVE WriterCalls(_), CallsSeq(_), CallsFields(_), CallsItems(_)
CallsSeq(vs)    == IF vs = <<>> THEN <<>> ELSE WriterCalls(Head(vs)) \o CallsSeq(Tail(vs))
CallsFields(fs) == IF fs = <<>> THEN <<>>
                   ELSE << Call("FieldBegin", Head(fs).id, Z4, <<>>, Head(fs).v.t) >>
                        \o WriterCalls(Head(fs).v) \o << Call("FieldEnd", 0, Z4, <<>>, 0) >>
                        \o CallsFields(Tail(fs))
CallsItems(ms)  == IF ms = <<>> THEN <<>>
                   ELSE WriterCalls(Head(ms).k) \o WriterCalls(Head(ms).v) \o CallsItems(Tail(ms))

WriterCalls(v) ==
  CASE v.t = TBool   -> << Call("Bool", v.n, Z4, <<>>, 0) >>
    [] v.t = TI8     -> << Call("Int8", v.n, Z4, <<>>, 0) >>
    [] v.t = TI16    -> << Call("Int16", v.n, Z4, <<>>, 0) >>
    [] v.t = TI32    -> << Call("Int32", v.n, Z4, <<>>, 0) >>
    [] v.t = TI64    -> << Call("Int64", 0, v.l, <<>>, 0) >>
    [] v.t = TDouble -> << Call("Double", 0, v.l, <<>>, 0) >>
    [] v.t = TBinary -> << Call("Binary", 0, Z4, v.b, 0) >>
    [] v.t = TStruct -> << Call("StructBegin", 0, Z4, <<>>, 0) >> \o CallsFields(v.f)
                        \o << Call("StructEnd", 0, Z4, <<>>, 0) >>
    [] v.t = TMap    -> << Call("MapBegin", Len(v.m), Z4, <<>>, v.kt * 256 + v.vt) >> \o CallsItems(v.m)
                        \o << Call("MapEnd", 0, Z4, <<>>, 0) >>
    [] v.t = TSet    -> << Call("SetBegin", Len(v.e), Z4, <<>>, v.et) >> \o CallsSeq(v.e)
                        \o << Call("SetEnd", 0, Z4, <<>>, 0) >>
    [] v.t = TList   -> << Call("ListBegin", Len(v.e), Z4, <<>>, v.et) >> \o CallsSeq(v.e)
                        \o << Call("ListEnd", 0, Z4, <<>>, 0) >>

CallBytes(c) ==
  CASE c.c = "Bool"       -> << IF c.n = 0 THEN 0 ELSE 1 >>
    [] c.c = "Int8"       -> BE8(c.n)
    [] c.c = "Int16"      -> BE16(c.n)
    [] c.c = "Int32"      -> BE32(c.n)
    [] c.c = "Int64"      -> BELimbs(c.l)
    [] c.c = "Double"     -> BELimbs(c.l)
    [] c.c = "Binary"     -> BE32(Len(c.b)) \o c.b
    [] c.c = "FieldBegin" -> << Byte(c.t2) >> \o BE16(c.n)
    [] c.c = "StructEnd"  -> << 0 >>
    [] c.c = "MapBegin"   -> << Byte(c.t2 \div 256), Byte(c.t2) >> \o BE32(c.n)
    [] c.c = "SetBegin"   -> << Byte(c.t2) >> \o BE32(c.n)
    [] c.c = "ListBegin"  -> << Byte(c.t2) >> \o BE32(c.n)
    [] OTHER              -> <<>>      \* StructBegin, FieldEnd, MapEnd, SetEnd, ListEnd: no bytes

RECURSIVE CallsBytes(_)
CallsBytes(cs) == IF cs = <<>> THEN <<>> ELSE CallBytes(Head(cs)) \o CallsBytes(Tail(cs))

---------------------------------------------------------------------------
(* Well-typedness of a value term (element types match the declared ones). *)
RECURSIVE WellTyped(_)
WellTyped(v) ==
  CASE v.t \in {TBool} -> v.n \in {0, 1}
    [] v.t = TI8     -> v.n \in -128..127
    [] v.t = TI16    -> v.n \in -32768..32767
    [] v.t = TI32    -> TRUE
    [] v.t \in {TI64, TDouble} -> Len(v.l) = 4 /\ \A i \in 1..4 : v.l[i] \in 0..65535
    [] v.t = TBinary -> \A i \in 1..Len(v.b) : v.b[i] \in 0..255
    [] v.t = TStruct -> \A i \in 1..Len(v.f) : v.f[i].id \in -32768..32767 /\ WellTyped(v.f[i].v)
    [] v.t = TMap    -> \A i \in 1..Len(v.m) : /\ v.m[i].k.t = v.kt /\ v.m[i].v.t = v.vt
                                               /\ WellTyped(v.m[i].k) /\ WellTyped(v.m[i].v)
    [] v.t \in {TSet, TList} -> \A i \in 1..Len(v.e) : v.e[i].t = v.et /\ WellTyped(v.e[i])
    [] OTHER -> FALSE

---------------------------------------------------------------------------
(* A bounded universe of values: boundary scalars and small containers.    *)
Num(t, n)   == [t |-> t, n |-> n]
Limb(t, l)  == [t |-> t, l |-> l]
Bin(b)      == [t |-> TBinary, b |-> b]

ScalarsFull(t) ==
  CASE t = TBool   -> { Num(t, 0), Num(t, 1) }
    [] t = TI8     -> { Num(t, n) : n \in {-128, -1, 0, 1, 127} }
    [] t = TI16    -> { Num(t, n) : n \in {-32768, -256, -1, 0, 1, 255, 256, 32767} }
    [] t = TI32    -> { Num(t, n) : n \in {MinI32, -65536, -1, 0, 1, 255, 256, 65536, 16777216, MaxI32} }
    [] t = TI64    -> { Limb(t, l) : l \in { <<0,0,0,0>>, <<0,0,0,1>>, <<65535,65535,65535,65535>>,
                                             <<32768,0,0,0>>, <<32767,65535,65535,65535>>,
                                             <<0,1,0,0>>, <<1,2,3,4>>, <<0,0,32768,0>> } }
    [] t = TDouble -> { Limb(t, l) : l \in { <<0,0,0,0>>, <<32768,0,0,0>>,             \* +0, -0
                                             <<32752,0,0,0>>, <<65520,0,0,0>>,          \* +inf, -inf
                                             <<32760,0,0,1>>, <<32752,0,0,1>>,          \* quiet NaN+payload, signalling NaN
                                             <<65528,0,0,0>>,                            \* negative quiet NaN
                                             <<0,0,0,1>>, <<32751,65535,65535,65535>>,   \* min subnormal, max finite
                                             <<16368,0,0,0>> } }                         \* 1.0
    [] t = TBinary -> { Bin(<<>>), Bin(<<0>>), Bin(<<255, 128>>), Bin(<<97, 98, 99>>) }

ScalarsSmall(t) ==
  CASE t = TBool   -> { Num(t, 1) }
    [] t = TI8     -> { Num(t, -128), Num(t, 1) }
    [] t = TI16    -> { Num(t, -2), Num(t, 258) }
    [] t = TI32    -> { Num(t, MinI32), Num(t, 16909060) }
    [] t = TI64    -> { Limb(t, <<32768,0,0,0>>), Limb(t, <<1,2,3,4>>) }
    [] t = TDouble -> { Limb(t, <<32760,0,0,1>>), Limb(t, <<32768,0,0,0>>) }
    [] t = TBinary -> { Bin(<<>>), Bin(<<255, 0>>) }

ScalarTypes == {TBool, TI8, TDouble, TI16, TI32, TI64, TBinary}

SeqsUpTo(S, n) == UNION { [1..k -> S] : k \in 0..n }

FieldIds == {-32768, -1, 0, 1, 32767}

\* structs over a set of field values, up to n fields with distinct ids (wire order free)
StructsOver(S, n, ids) ==
  { [t |-> TStruct, f |-> fs] :
      fs \in { q \in SeqsUpTo([id : ids, v : S], n) :
               \A i, j \in 1..Len(q) : i # j => q[i].id # q[j].id } }

ListsOver(S, et, n) == { [t |-> TList, et |-> et, e |-> es] : es \in SeqsUpTo(S, n) }
SetsOver(S, et, n)  == { [t |-> TSet,  et |-> et, e |-> es] :
                          es \in { q \in SeqsUpTo(S, n) : \A i, j \in 1..Len(q) : i # j => q[i] # q[j] } }
MapsOver(K, V, kt, vt, n) ==
  { [t |-> TMap, kt |-> kt, vt |-> vt, m |-> ms] :
      ms \in { q \in SeqsUpTo([k : K, v : V], n) : \A i, j \in 1..Len(q) : i # j => q[i].k # q[j].k } }

\* depth-1 containers over small scalars
Depth1(n) ==
  UNION { ListsOver(ScalarsSmall(t), t, n) \cup SetsOver(ScalarsSmall(t), t, n) : t \in ScalarTypes }
  \cup UNION { MapsOver(ScalarsSmall(kt), ScalarsSmall(vt), kt, vt, n) : kt \in ScalarTypes, vt \in ScalarTypes }
  \cup StructsOver(UNION { ScalarsSmall(t) : t \in ScalarTypes }, n, FieldIds)

AllScalars == UNION { ScalarsFull(t) : t \in ScalarTypes }

=============================================================================
