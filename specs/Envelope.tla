----------------------------- MODULE Envelope -----------------------------
(***************************************************************************)
(* RPC envelopes of the Thrift Binary Protocol and the two request APIs.   *)
(*                                                                         *)
(* Code anchors: protocol/binary/envelope.go (WriteEnveloped,              *)
(* WriteLegacyEnveloped, Reader.ReadEnveloped), stream_envelope.go          *)
(* (WriteEnvelopeBegin, WriteLegacyEnvelopeBegin, ReadEnvelopeBegin),        *)
(* protocol.go (DecodeRequest, ReadRequest), responder.go.                   *)
(*                                                                         *)
(* Envelope term: [fr, name, ty, seq, body]                                 *)
(*   fr   = "strict" | "legacy" | "bare"                                    *)
(*   name = sequence of bytes (method names are inspected byte-wise)        *)
(*   ty   = message type 0..127, seq = i32, body = struct value term        *)
(***************************************************************************)
EXTENDS Reader

Version1Hi == << 128, 1 >>                 \* 0x8001 in the top 16 bits

EncStr(name) == BE32(Len(name)) \o name

EncHeader(fr, name, ty, seq) ==
  CASE fr = "strict" -> Version1Hi \o << 0, ty >> \o EncStr(name) \o BE32(seq)
    [] fr = "legacy" -> EncStr(name) \o << ty >> \o BE32(seq)
    [] fr = "bare"   -> <<>>

EncEnv(e) == EncHeader(e.fr, e.name, e.ty, e.seq) \o Enc(e.body)

---------------------------------------------------------------------------
(* Header readers.  Result: [ok, p, name, ty, seq, ec, al]                   *)
HOk(p, name, ty, seq, al) == [ok |-> TRUE, p |-> p, name |-> name, ty |-> ty, seq |-> seq, ec |-> "none", al |-> al]
HErr(ec, al)              == [ok |-> FALSE, p |-> 0, name |-> <<>>, ty |-> 0, seq |-> 0, ec |-> ec, al |-> al]

\* readStrictNameType / readStrictEnvelope: version mask, low byte = type, name, seqid
StrictHeader(bs) ==
  IF ~(bs[1] = 128 /\ bs[2] = 1) THEN HErr("decode", 0)           \* version mismatch
  ELSE LET nm == ReadScalar(bs, 5, TBinary, 0) IN
       IF ~nm.ok THEN HErr(nm.ec, nm.al)
       ELSE IF ~Have(bs, nm.p, 4) THEN HErr("eof", nm.al)
       ELSE HOk(nm.p + 4, nm.v.b, S8(bs[4]), I32At(bs, nm.p), nm.al)

\* readNonStrictNameType (random access: name read as a binary at offset 0)
LegacyHeaderRA(bs) ==
  LET nm == ReadScalar(bs, 1, TBinary, 0) IN
  IF ~nm.ok THEN HErr(nm.ec, nm.al)
  ELSE IF ~Have(bs, nm.p, 1) THEN HErr("eof", nm.al)
  ELSE IF ~Have(bs, nm.p + 1, 4) THEN HErr("eof", nm.al)
  ELSE HOk(nm.p + 5, nm.v.b, S8(bs[nm.p]), I32At(bs, nm.p + 1), nm.al)

\* readNonStrictEnvelope (stream): make([]byte, length) then byte-by-byte reads
LegacyHeaderStream(bs) ==
  LET n == I32At(bs, 1) IN
  IF n > Len(bs) \/ ~Have(bs, 5, n) THEN HErr("eof", n)           \* buffer of n bytes already allocated
  ELSE IF ~Have(bs, 5 + n, 1) THEN HErr("eof", n)
  ELSE IF ~Have(bs, 6 + n, 4) THEN HErr("eof", n)
  ELSE HOk(10 + n, SubSeq(bs, 5, 4 + n), S8(bs[5 + n]), I32At(bs, 6 + n), n)

\* ReadEnveloped / ReadEnvelopeBegin: first i32 > 0 => legacy, else strict
Header(bs, api) ==
  IF ~Have(bs, 1, 4) THEN HErr("eof", 0)
  ELSE IF I32At(bs, 1) > 0
       THEN (IF api = "ra" THEN LegacyHeaderRA(bs) ELSE LegacyHeaderStream(bs))
       ELSE StrictHeader(bs)

---------------------------------------------------------------------------
(* Request decoding.  Result: [ok, fr, name, seq, body, ec]                  *)
ROk(fr, name, seq, body) == [ok |-> TRUE, fr |-> fr, name |-> name, seq |-> seq, body |-> body, ec |-> "none"]
RErr(ec)                 == [ok |-> FALSE, fr |-> "none", name |-> <<>>, seq |-> 0, body |-> Nil, ec |-> ec]

Body(bs, p, api) == IF api = "ra" THEN DecLazy(bs, p, TStruct, 0, 0) ELSE DecStrict(bs, p, TStruct, 0, 0)

Bare(bs, api) == LET b == Body(bs, 1, api) IN
                 IF b.ok THEN ROk("bare", <<>>, 0, b.v) ELSE RErr(b.ec)

\* DecodeRequest decodes the whole envelope (ReadEnveloped: header and body,
\* nothing forced yet) before it compares the type; ReadRequest compares the
\* type right after the header.
Enveloped(bs, et, api, fr) ==
  LET h == Header(bs, api) IN
  IF ~h.ok THEN RErr(h.ec)
  ELSE IF api = "ra" THEN
         LET b1 == DecLazyF(bs, h.p, TStruct, 0, 0, FALSE) IN
         IF ~b1.ok THEN RErr(b1.ec)
         ELSE IF h.ty # et THEN RErr("wrongtype")
         ELSE LET b == Body(bs, h.p, api) IN
              IF ~b.ok THEN RErr(b.ec) ELSE ROk(fr, h.name, h.seq, b.v)
  ELSE IF h.ty # et THEN RErr("wrongtype")
  ELSE LET b == Body(bs, h.p, api) IN
       IF ~b.ok THEN RErr(b.ec) ELSE ROk(fr, h.name, h.seq, b.v)

\* Classification on the first two bytes (peeked = how many bytes the peek saw):
\*   fewer than 2 bytes => the only valid message is the empty struct, decoded
\*   from the peeked bytes alone; 0x00 => legacy; high bit => strict; else bare.
Request(bs, et, api, peeked) ==
  IF peeked < 2 THEN Bare(SubSeq(bs, 1, peeked), api)
  ELSE IF bs[1] = 0 THEN Enveloped(bs, et, api, "legacy")
  ELSE IF bs[1] >= 128 THEN Enveloped(bs, et, api, "strict")
  ELSE Bare(bs, api)

Min2(n) == IF n < 2 THEN n ELSE 2

\* Responders echo the framing, name and sequence id of the request
Reply(r, rty, rbody) == EncHeader(r.fr, r.name, rty, r.seq) \o Enc(rbody)

---------------------------------------------------------------------------
(* The envelope layer's client and the plugin-side server                     *)
(* (envelope/envelope.go ReadReply; internal/envelope client.Send and          *)
(* Server.Handle).  A response is a success only when its type is Reply; an     *)
(* Exception carries a TApplicationException; every other type is an error.     *)
(* The server answers in a versioned envelope that echoes the request's name     *)
(* and sequence id, of type Reply, or Exception when the handler failed.         *)
ReplyClass(ty) == IF ty = 2 THEN "none" ELSE IF ty = 3 THEN "appexc" ELSE "err"
ClientCall(name, body) == EncEnv([fr |-> "strict", name |-> name, ty |-> 1, seq |-> 1, body |-> body])
\* internal/multiplex: the client sends "<service>:<method>"; the handler splits at the FIRST colon and hands the rest
\* (further colons and all) to the service registered under the part before it; anything else is an unknown method
FirstColon(name) == IF \E i \in 1..Len(name) : name[i] = 58
                    THEN CHOOSE i \in 1..Len(name) : name[i] = 58 /\ \A j \in 1..(i - 1) : name[j] # 58
                    ELSE 0
Route(name, registered) ==
  LET i == FirstColon(name) IN
  IF i = 0 \/ SubSeq(name, 1, i - 1) \notin registered THEN [ok |-> FALSE, svc |-> <<>>, method |-> <<>>]
  ELSE [ok |-> TRUE, svc |-> SubSeq(name, 1, i - 1), method |-> SubSeq(name, i + 1, Len(name))]
ServerReplyHeader(name, seq, failed) == EncHeader("strict", name, IF failed THEN 3 ELSE 2, seq)

=============================================================================
