------------------------------- MODULE MCBreak -------------------------------
(***************************************************************************)
(* Role A for C20: a base program (two files, one in a subdirectory) and every *)
(* edit script of up to MaxEdits edits of every kind (breaking and not);        *)
(* the tool as written reports exactly what the property demands.               *)
(* BaseNameBug = TRUE is the tool as it is (a deleted service is attributed to   *)
(* the base name of its file: known finding, pinned by the repository's tests);   *)
(* it meets the property modulo that class (ToolMatchesModuloKnown) and violates  *)
(* the property as stated (negative control 1).  MethodPathBug = TRUE is the      *)
(* pinned code before fix 9ec733b (removed methods lose the directory as well):   *)
(* negative control 2 for ToolMatchesModuloKnown.                                 *)
(***************************************************************************)
EXTENDS Break, Json, SequencesExt

CONSTANTS MaxEdits, BaseNameBug, MethodPathBug, EmitMod, EmitPick, MultiMod

Fd(id, name, ty, req) == [id |-> id, name |-> name, ty |-> ty, req |-> req]
FA == "a.thrift"
FB == "sub/b.thrift"
FC == "c.thrift"
BaseProg ==
  (FA :> [structs |-> ("S" :> << Fd(1, "x", "i32", TRUE), Fd(2, "y", "string", FALSE) >>) @@ ("T" :> << Fd(1, "z", "list<i32>", FALSE) >>) @@ ("R" :> << Fd(1, "r", "i32", FALSE) >>)
                      \* V is rendered as a union (no required fields), E as an exception
                      @@ ("V" :> << Fd(1, "va", "i32", FALSE), Fd(2, "vb", "string", FALSE) >>) @@ ("E" :> << Fd(1, "why", "string", FALSE) >>),
          \* K extends P, and P declares a method of K's name as well (ParentOf below; rendered as "extends" while the parent is in the file)
          services |-> ("K" :> {"f", "g"}) @@ ("P" :> {"g"})])
  @@ (FB :> [structs |-> ("U" :> << Fd(1, "u", "i64", FALSE) >>) @@ ("R" :> << Fd(1, "r", "i32", FALSE) >>), services |-> ("L" :> {"h"}) @@ ("M" :> {"p"})])

FileBase(f) == IF f = FB THEN "b.thrift" ELSE f
BaseNameOf(f) == IF BaseNameBug THEN FileBase(f) ELSE f
MethodFileOf(f) == IF MethodPathBug THEN FileBase(f) ELSE f
AllSvcs == {"K", "L", "M", "Z", "Y", "P"}
\* service inheritance: a method removed from a service is removed, whatever the services it extends declare
ParentOf == ("K" :> "P") @@ ("M" :> "L")
ChildrenOf(s) == { c \in DOMAIN ParentOf : ParentOf[c] = s }
\* names a service may gain: a fresh one, or one its children declare (a method "moved up")
Gainable(s) == {"added"} \cup UNION { UNION { BaseProg[f].services[c] : f \in { g \in DOMAIN BaseProg : c \in DOMAIN BaseProg[g].services } } : c \in ChildrenOf(s) }

\* TI = typedef i32, TL = typedef list<i32>, defined alike in every file: a type change is a change of the type NAME
\* (string and binary share a wire type and are different types all the same)
Types == {"i32", "string", "binary", "list<i32>", "R", "map<string, i32>", "TI", "TL"}
VARIABLES new, nedits
vars == <<new, nedits>>
Init == new = BaseProg /\ nedits = 0

SetStruct(f, st, fs) == new' = [new EXCEPT ![f].structs = (st :> fs) @@ @]
SetSvc(f, s, ms)     == new' = [new EXCEPT ![f].services = (s :> ms) @@ @]
KeepKeys(fn, keep) == [ k \in keep |-> fn[k] ]

\* the new version has to compile: a field of struct type R only where the file defines R (c.thrift does not)
TypeKnown(f, ty) == ty = "R" => "R" \in DOMAIN new[f].structs
Edit ==
  /\ nedits < MaxEdits
  /\ nedits' = nedits + 1
  /\ \/ \E f \in DOMAIN new : \E st \in DOMAIN new[f].structs :
          LET fs == new[f].structs[st] IN
          \/ \E id \in {3, 7}, ty \in {"i32", "R"}, rq \in BOOLEAN :                 \* add a field (optional: compatible; required: breaking)
                ~HasId(fs, id) /\ (rq => st # "V") /\ TypeKnown(f, ty) /\ SetStruct(f, st, Append(fs, Fd(id, "n" \o ToString(id), ty, rq)))
          \/ \E i \in 1..Len(fs) : ~fs[i].req /\ st # "V" /\ SetStruct(f, st, [fs EXCEPT ![i].req = TRUE])    \* optional -> required
          \/ \E i \in 1..Len(fs) : fs[i].req /\ SetStruct(f, st, [fs EXCEPT ![i].req = FALSE])    \* required -> optional
          \/ \E i \in 1..Len(fs), ty \in Types : ty # fs[i].ty /\ TypeKnown(f, ty) /\ SetStruct(f, st, [fs EXCEPT ![i].ty = ty])   \* type changed
          \/ \E i \in 1..Len(fs) : SetStruct(f, st, SubSeq(fs, 1, i - 1) \o SubSeq(fs, i + 1, Len(fs)))           \* field removed
          \/ Len(fs) >= 2 /\ SetStruct(f, st, << fs[Len(fs)] >> \o SubSeq(fs, 1, Len(fs) - 1))                    \* fields reordered
          \/ st \notin {"R", "V", "E"} /\ new' = [new EXCEPT ![f].structs = KeepKeys(@, DOMAIN @ \ {st})]                          \* struct deleted
     \/ \E f \in DOMAIN new : "N" \notin DOMAIN new[f].structs /\ SetStruct(f, "N", << Fd(1, "q", "i32", TRUE) >>)  \* new struct (even with a required field)
     \/ \E f \in DOMAIN new : \E s \in DOMAIN new[f].services :
          \/ \E m \in new[f].services[s] : SetSvc(f, s, new[f].services[s] \ {m})                                   \* method removed
          \/ \E a \in Gainable(s) : a \notin new[f].services[s] /\ SetSvc(f, s, new[f].services[s] \cup {a})         \* method added
          \/ new' = [new EXCEPT ![f].services = KeepKeys(@, DOMAIN @ \ {s})]                                        \* service removed
     \/ \E f \in DOMAIN new : "Z" \notin DOMAIN new[f].services /\ SetSvc(f, "Z", {"a"})                             \* service added
     \/ \E f \in DOMAIN new : new' = KeepKeys(new, DOMAIN new \ {f})                                                 \* file deleted
     \/ FC \notin DOMAIN new /\ new' = (FC :> [structs |-> ("W" :> << Fd(1, "w", "i32", TRUE) >>), services |-> ("Y" :> {"a"})]) @@ new   \* file added

Next == Edit
Spec == Init /\ [][Next]_vars

ToolMatchesProperty == AlgoDiag(BaseProg, new, BaseNameOf, MethodFileOf) = SpecDiag(BaseProg, new)
ToolMatchesModuloKnown == AlgoDiag(BaseProg, new, BaseNameOf, MethodFileOf) = SpecDiagKnown(BaseProg, new, FileBase, AllSvcs)
IdenticalIsSilent == new = BaseProg => SpecDiag(BaseProg, new) = {}

\* Role B: a deterministic sample of the (old, new) pairs as cases
Ser(P) == [ f \in DOMAIN P |-> [ structs |-> P[f].structs, services |-> [ s \in DOMAIN P[f].services |-> SetToSeq(P[f].services[s]) ] ] ]
Hash == Cardinality(SpecDiag(BaseProg, new)) * 7 + nedits * 3 + Cardinality(DOMAIN new)
\* every program pair with two or more diagnostics (where reports can interact) and a sample of the others
\* a method that left a service while a service it extends declares one of that name: always a case
MovedUp == \E f \in DOMAIN new \cap DOMAIN BaseProg : \E c \in DOMAIN ParentOf \cap DOMAIN new[f].services \cap DOMAIN BaseProg[f].services :
              /\ ParentOf[c] \in DOMAIN new[f].services
              /\ (BaseProg[f].services[c] \ new[f].services[c]) \cap new[f].services[ParentOf[c]] # {}
EmitCase == ((MovedUp /\ (nedits = 1 \/ (TLCGet("distinct") + Hash) % 3 = 0))
             \/ (Cardinality(SpecDiag(BaseProg, new)) >= 2 /\ (TLCGet("distinct") + Hash) % MultiMod = 0)
             \/ (TLCGet("distinct") + Hash) % EmitMod = EmitPick) => PrintT(<<"CASE", ToJson([old |-> Ser(BaseProg), new |-> Ser(new), parents |-> ParentOf])>>)
=============================================================================
