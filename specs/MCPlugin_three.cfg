SPECIFICATION Spec
CONSTANTS
  Plugins = {"p1", "p2", "p3"}
  HsFaults = {"ok", "nofeature", "wrongname", "trunc"}
  GenFaults = {"ok", "exception", "samepath"}
  ByeFaults = {"ok", "noreply"}
  NamesGoodbyeFailure = TRUE
  DetachesStdout = TRUE
INVARIANTS GenerateOnlyAfterGoodHandshake ExactlyOneGoodbye GoodbyeIsLast AllClosedAllReaped ExitCodeIffFailure FailureNamesPlugin OnlyFailingPluginsNamed WriteOnlyOnSuccess ProtocolAutomaton SentIsScriptDetermined NeverStuck
CHECK_DEADLOCK FALSE
