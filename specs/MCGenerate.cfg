SPECIFICATION Spec
CONSTANTS
  Modules = {"m1", "m2", "m3"}
  FailingModules = {}
  PluginIds = {"p1", "p2"}
  Shapes = {"own", "core", "core-dot", "core-slash", "core-abs", "shared", "shared-dot", "dotdot", "dotdot-inner", "none"}
  CleanCompare = TRUE
INVARIANTS Confined AllOrNothing NothingBeforeWritePhase ConflictIsError DeterministicOutput
CHECK_DEADLOCK FALSE
