-------------------------------- MODULE Redact --------------------------------
(***************************************************************************)
(* Redaction (go.redact) and log opt-out (go.nolog) of struct fields (C15).  *)
(* Code anchors: gen/field.go (String, Error via String, MarshalLogObject:    *)
(* shouldRedact / zapOptOut per field), gen/zap.go (delegation to the          *)
(* marshalers of typedefs, lists, sets, maps and their items), gen/list.go,    *)
(* set.go, map.go (zap helpers).                                               *)
(*                                                                         *)
(* A field record may carry ann = "go.redact" | "go.nolog".  Every leaf of a   *)
(* value carries a unique marker payload; Leaves classifies each leaf by the    *)
(* annotations on the path that leads to it:                                    *)
(*   "redact" - below a redacted field: must appear in no sink                  *)
(*   "nolog"  - below a no-log field (and no redacted one): must not appear in  *)
(*              the zap output (String() still shows it)                        *)
(*   "plain"  - visible everywhere                                              *)
(* Whether a container hands its items to their own marshalers ("delegate") or  *)
(* prints them raw is the Delegates table: all TRUE in the templates; a FALSE    *)
(* entry is the negative control.                                               *)
(***************************************************************************)
EXTENDS SchemaFamily

Ann(fd) == IF "ann" \in DOMAIN fd THEN fd.ann ELSE ""
\* a field may carry both annotations
Both == "go.redact, go.nolog"
\* the annotations count by their presence, whatever value they are given
RedactSpellings == { "go.redact", "go.redact = \"\"", "go.redact = \"true\"", "go.redact = \"false\"", "go.redact = \"yes\"", "go.redact = \"0\"" }
NologSpellings  == { "go.nolog", "go.nolog = \"false\"", "go.nolog = \"no\"" }
IsRedact(fd) == Ann(fd) \in RedactSpellings \cup {Both}
IsNolog(fd)  == Ann(fd) \in NologSpellings \cup {Both}

CONSTANT RawKinds       \* container kinds that print their items raw, bypassing the item's own redaction ({} in the templates)

\* the class of a leaf given what the path so far says
Class(red, nolog) == IF red THEN "redact" ELSE IF nolog THEN "nolog" ELSE "plain"

RECURSIVE Leaves(_, _, _, _, _), LeavesSeq(_, _, _, _, _), LeavesPairs(_, _, _, _, _, _), LeavesFields(_, _, _, _, _, _)
LeavesSeq(S, t, vs, red, nolog) == UNION { Leaves(S, t, vs[i], red, nolog) : i \in 1..Len(vs) }
LeavesPairs(S, kt, vt, ms, red, nolog) ==
  UNION { Leaves(S, kt, ms[i].k, red, nolog) \cup Leaves(S, vt, ms[i].v, red, nolog) : i \in 1..Len(ms) }
LeavesFields(S, fields, v, red, nolog, i) ==
  IF i > Len(fields) THEN {}
  ELSE LET fd == fields[i] given == FieldValue(v, fd.name) IN
       (IF given = NoDef THEN {}
        ELSE Leaves(S, fd.t, given, red \/ IsRedact(fd), nolog \/ IsNolog(fd)))
       \cup LeavesFields(S, fields, v, red, nolog, i + 1)
Leaves(S, t, v, red, nolog) ==
  LET r == Root(S, t) IN
  CASE r.k \in {"i8", "i16", "i32"} -> { [kind |-> "int", n |-> v.n, b |-> <<>>, cls |-> Class(red, nolog)] }
    [] r.k = "string" -> { [kind |-> "str", n |-> 0, b |-> v.b, cls |-> Class(red, nolog)] }
    [] r.k = "binary" -> { [kind |-> "bin", n |-> 0, b |-> v.b, cls |-> Class(red, nolog)] }
    [] r.k \in {"list", "set"} -> LeavesSeq(S, r.e, v.e, red, nolog)
    [] r.k = "map" -> LeavesPairs(S, r.kt, r.vt, v.m, red, nolog)
    [] r.k = "ref" /\ Def(S, r.n).kind # "enum" -> LeavesFields(S, Def(S, r.n).fields, v, red, nolog, 1)
    [] OTHER -> {}

---------------------------------------------------------------------------
(* What a sink emits according to the delegation structure of the templates:   *)
(* a struct hides its own redacted fields when ITS marshaler runs; a container   *)
(* of kind k that is in RawKinds prints its items without running theirs.         *)
RECURSIVE Emitted(_, _, _, _, _), EmSeq(_, _, _, _, _), EmFields(_, _, _, _, _, _)
EmSeq(S, t, vs, sink, raw) == UNION { Emitted(S, t, vs[i], sink, raw) : i \in 1..Len(vs) }
EmFields(S, fields, v, sink, raw, i) ==
  IF i > Len(fields) THEN {}
  ELSE LET fd == fields[i] given == FieldValue(v, fd.name)
           hide == ~raw /\ (IsRedact(fd) \/ (sink = "zap" /\ IsNolog(fd))) IN
       (IF given = NoDef \/ hide THEN {} ELSE Emitted(S, fd.t, given, sink, raw))
       \cup EmFields(S, fields, v, sink, raw, i + 1)
Emitted(S, t, v, sink, raw) ==
  LET r == Root(S, t) IN
  CASE r.k \in {"i8", "i16", "i32"} -> { [kind |-> "int", n |-> v.n, b |-> <<>>] }
    [] r.k = "string" -> { [kind |-> "str", n |-> 0, b |-> v.b] }
    [] r.k = "binary" -> { [kind |-> "bin", n |-> 0, b |-> v.b] }
    [] r.k \in {"list", "set"} -> EmSeq(S, r.e, v.e, sink, raw \/ r.k \in RawKinds)
    [] r.k = "map" -> UNION { Emitted(S, r.kt, v.m[i].k, sink, raw \/ "mapkey" \in RawKinds)
                              \cup Emitted(S, r.vt, v.m[i].v, sink, raw \/ "mapvalue" \in RawKinds) : i \in 1..Len(v.m) }
    [] r.k = "ref" /\ Def(S, r.n).kind # "enum" -> EmFields(S, Def(S, r.n).fields, v, sink, raw, 1)
    [] OTHER -> {}

Strip(m) == [kind |-> m.kind, n |-> m.n, b |-> m.b]
\* C15 on the model: nothing classified redact is emitted anywhere, nothing classified nolog reaches zap
NoLeak(S, t, v) ==
  LET L == Leaves(S, t, v, FALSE, FALSE) IN
  /\ \A sink \in {"string", "error", "zap"} : \A m \in L : m.cls = "redact" => Strip(m) \notin Emitted(S, t, v, sink, FALSE)
  /\ \A m \in L : m.cls = "nolog" => Strip(m) \notin Emitted(S, t, v, "zap", FALSE)
\* and nothing else is lost
PlainVisible(S, t, v) ==
  LET L == Leaves(S, t, v, FALSE, FALSE) IN
  /\ \A m \in L : m.cls = "plain" => \A sink \in {"string", "zap"} : Strip(m) \in Emitted(S, t, v, sink, FALSE)
  /\ \A m \in L : m.cls = "nolog" => Strip(m) \in Emitted(S, t, v, "string", FALSE)
=============================================================================
