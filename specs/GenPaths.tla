------------------------------- MODULE GenPaths -------------------------------
(***************************************************************************)
(* The two deserialization paths of generated code as machines over the     *)
(* same bytes (C04, C05):                                                    *)
(*  value path  = Protocol.Decode (structs eager, containers skip-validated  *)
(*                and lazy) followed by the generated FromWire, which forces  *)
(*                only the containers it actually reads;                      *)
(*  stream path = the generated Decode(stream.Reader): field header switch,   *)
(*                decode by schema or Skip.                                   *)
(* Code anchors: gen/field.go, gen/list.go, gen/set.go, gen/map.go (both the  *)
(* ValueList / wire readers and the stream readers).                          *)
(***************************************************************************)
EXTENDS GenCodec

IsLazy(w) == "lz" \in DOMAIN w

---------------------------------------------------------------------------
(* value path: FromWire over a phase-1 wire term, forcing on demand *)
RECURSIVE VFrom(_, _, _, _), VSeq(_, _, _, _), VPairs(_, _, _, _, _), VLoop(_, _, _, _, _, _)

VSeq(S, t, bs, ws) ==
  IF ws = <<>> THEN <<>>
  ELSE LET h == VFrom(S, t, bs, Head(ws)) rest == VSeq(S, t, bs, Tail(ws)) IN
       IF h = Bad \/ IsBadSeq(rest) THEN BadSeq ELSE << h >> \o rest
VPairs(S, kt, vt, bs, ms) ==
  IF ms = <<>> THEN <<>>
  ELSE LET k == VFrom(S, kt, bs, Head(ms).k) v == VFrom(S, vt, bs, Head(ms).v) rest == VPairs(S, kt, vt, bs, Tail(ms)) IN
       IF k = Bad \/ v = Bad \/ IsBadSeq(rest) THEN BadSeq ELSE << [k |-> k, v |-> v] >> \o rest

VLoop(S, d, bs, wf, i, acc) ==
  IF i > Len(wf) THEN acc
  ELSE LET hits == { j \in 1..Len(d.fields) : d.fields[j].id = wf[i].id /\ TypeCode(S, d.fields[j].t) = wf[i].v.t } IN
       IF hits = {} THEN VLoop(S, d, bs, wf, i + 1, acc)
       ELSE LET fd == d.fields[CHOOSE j \in hits : TRUE]
                val == VFrom(S, fd.t, bs, wf[i].v) IN
            IF val = Bad THEN Bad ELSE VLoop(S, d, bs, wf, i + 1, [acc EXCEPT ![fd.name] = val])

VFrom(S, t, bs, w) ==
  LET r == Root(S, t) IN
  CASE r.k \in {"bool", "i8", "i16", "i32"} -> [k |-> "int", n |-> w.n]
    [] r.k = "i64"    -> [k |-> "i64", l |-> w.l]
    [] r.k = "double" -> [k |-> "dbl", l |-> w.l]
    [] r.k \in {"string", "binary"} -> [k |-> "bin", b |-> w.b]
    [] r.k \in {"list", "set"} ->
         \* element type guard first: a mismatch yields nil without touching the items
         IF w.et # TypeCode(S, r.e) THEN NilC(r.k)
         ELSE LET items == IF IsLazy(w) THEN ForceOne(bs, w) ELSE [ok |-> TRUE, e |-> w.e, ec |-> "none"] IN
              IF ~items.ok THEN Bad
              ELSE LET es == VSeq(S, r.e, bs, items.e) IN IF IsBadSeq(es) THEN Bad ELSE [k |-> r.k, e |-> es]
    [] r.k = "map" ->
         IF w.kt # TypeCode(S, r.kt) \/ w.vt # TypeCode(S, r.vt) THEN NilC("map")
         ELSE LET items == IF IsLazy(w) THEN ForceOne(bs, w) ELSE [ok |-> TRUE, e |-> w.m, ec |-> "none"] IN
              IF ~items.ok THEN Bad
              ELSE LET ms == VPairs(S, r.kt, r.vt, bs, items.e) IN IF IsBadSeq(ms) THEN Bad ELSE [k |-> "map", m |-> IF GoMapKey(S, r.kt) THEN KeepLast(ms, 1) ELSE ms]
    [] r.k = "ref" ->
         IF Def(S, r.n).kind = "enum" THEN [k |-> "int", n |-> w.n]
         ELSE LET d == Def(S, r.n)
                  acc0 == [ n \in { d.fields[j].name : j \in 1..Len(d.fields) } |-> NoDef ] IN
              FinishStruct(S, d, VLoop(S, d, bs, w.f, 1, acc0))

ValuePath(S, t, bs) ==
  LET w == DecLazyF(bs, 1, TStruct, 0, 0, FALSE) IN
  IF ~w.ok THEN Bad ELSE VFrom(S, t, bs, w.v)

---------------------------------------------------------------------------
(* stream path: decode driven by the schema, Skip for everything else.       *)
(* Results: [ok, p, v]                                                        *)
SOk(p, v) == [ok |-> TRUE, p |-> p, v |-> v]
SErr == [ok |-> FALSE, p |-> 0, v |-> Bad]

RECURSIVE SDec(_, _, _, _), SFields(_, _, _, _, _), SItems(_, _, _, _, _, _), SKVs(_, _, _, _, _, _, _)

SItems(S, t, bs, p, n, acc) ==
  IF n = 0 THEN SOk(p, acc)
  ELSE LET r == SDec(S, t, bs, p) IN
       IF ~r.ok THEN SErr ELSE SItems(S, t, bs, r.p, n - 1, Append(acc, r.v))
SKVs(S, kt, vt, bs, p, n, acc) ==
  IF n = 0 THEN SOk(p, acc)
  ELSE LET k == SDec(S, kt, bs, p) IN
       IF ~k.ok THEN SErr
       ELSE LET v == SDec(S, vt, bs, k.p) IN
            IF ~v.ok THEN SErr ELSE SKVs(S, kt, vt, bs, v.p, n - 1, Append(acc, [k |-> k.v, v |-> v.v]))

\* field loop: ReadFieldBegin; known id and matching type => decode, else Skip
SFields(S, d, bs, p, acc) ==
  IF ~Have(bs, p, 1) THEN SErr
  ELSE IF bs[p] = 0 THEN SOk(p + 1, acc)
  ELSE IF ~Have(bs, p + 1, 2) THEN SErr
  ELSE LET ty == bs[p] id == I16At(bs, p + 1)
           hits == { j \in 1..Len(d.fields) : d.fields[j].id = id /\ TypeCode(S, d.fields[j].t) = ty } IN
       IF hits = {} THEN
            LET s == SkipAt(bs, p + 3, ty, FALSE, 0) IN
            IF ~s.ok THEN SErr ELSE SFields(S, d, bs, s.p, acc)
       ELSE LET fd == d.fields[CHOOSE j \in hits : TRUE]
                r == SDec(S, fd.t, bs, p + 3) IN
            IF ~r.ok THEN SErr ELSE SFields(S, d, bs, r.p, [acc EXCEPT ![fd.name] = r.v])

SDec(S, t, bs, p) ==
  LET r == Root(S, t) IN
  CASE r.k \in {"bool", "i8", "i16", "i32", "i64", "double", "string", "binary"} ->
         LET x == ReadScalar(bs, p, TypeCode(S, r), 0) IN
         IF ~x.ok THEN SErr
         ELSE SOk(x.p, CASE r.k \in {"bool", "i8", "i16", "i32"} -> [k |-> "int", n |-> x.v.n]
                         [] r.k = "i64" -> [k |-> "i64", l |-> x.v.l]
                         [] r.k = "double" -> [k |-> "dbl", l |-> x.v.l]
                         [] OTHER -> [k |-> "bin", b |-> x.v.b])
    [] r.k \in {"list", "set"} ->
         IF ~Have(bs, p, 5) THEN SErr
         ELSE LET n == I32At(bs, p + 1) IN
              IF n < 0 THEN SErr
              ELSE IF bs[p] # TypeCode(S, r.e) THEN          \* element type guard: skip the items, value nil
                     (LET s == SkipN(bs, p + 5, bs[p], n, FALSE, 0) IN IF ~s.ok THEN SErr ELSE SOk(s.p, NilC(r.k)))
              ELSE LET it == SItems(S, r.e, bs, p + 5, n, <<>>) IN
                   IF ~it.ok THEN SErr ELSE SOk(it.p, [k |-> r.k, e |-> it.v])
    [] r.k = "map" ->
         IF ~Have(bs, p, 6) THEN SErr
         ELSE LET n == I32At(bs, p + 2) IN
              IF n < 0 THEN SErr
              ELSE IF bs[p] # TypeCode(S, r.kt) \/ bs[p+1] # TypeCode(S, r.vt) THEN
                     (LET s == SkipKV(bs, p + 6, bs[p], bs[p+1], n, FALSE, 0) IN IF ~s.ok THEN SErr ELSE SOk(s.p, NilC("map")))
              ELSE LET it == SKVs(S, r.kt, r.vt, bs, p + 6, n, <<>>) IN
                   IF ~it.ok THEN SErr ELSE SOk(it.p, [k |-> "map", m |-> IF GoMapKey(S, r.kt) THEN KeepLast(it.v, 1) ELSE it.v])
    [] r.k = "ref" ->
         IF Def(S, r.n).kind = "enum" THEN
              (LET x == ReadScalar(bs, p, TI32, 0) IN IF ~x.ok THEN SErr ELSE SOk(x.p, [k |-> "int", n |-> x.v.n]))
         ELSE LET d == Def(S, r.n)
                  acc0 == [ n \in { d.fields[j].name : j \in 1..Len(d.fields) } |-> NoDef ]
                  lp == SFields(S, d, bs, p, acc0) IN
              IF ~lp.ok THEN SErr
              ELSE LET fin == FinishStruct(S, d, lp.v) IN IF fin = Bad THEN SErr ELSE SOk(lp.p, fin)

StreamPath(S, t, bs) == LET r == SDec(S, t, bs, 1) IN IF r.ok THEN r.v ELSE Bad

---------------------------------------------------------------------------
\* C04: the paths never produce different values; what the value path accepts the stream path accepts
NeverDifferent(S, t, bs) == LET a == ValuePath(S, t, bs) b == StreamPath(S, t, bs) IN (a # Bad /\ b # Bad) => EqL(a, b)
WireImpliesStream(S, t, bs) == LET a == ValuePath(S, t, bs) b == StreamPath(S, t, bs) IN a # Bad => (b # Bad /\ EqL(a, b))
=============================================================================
