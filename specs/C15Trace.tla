------------------------------ MODULE C15Trace ------------------------------
(***************************************************************************)
(* C15: where marker payloads of a value show up in String(), Error() and     *)
(* the zap encoder output of generated code.  One line per (schema, value):   *)
(*   marks = for every leaf marker (classified by Redact.tla's Leaves when the *)
(*   case was generated): does any spelling of it occur in each sink;          *)
(*   counts = occurrences of the field labels / the <redacted> token.          *)
(***************************************************************************)
EXTENDS TraceBase

VARIABLES l, bad, drift

Checks(e) ==
  { <<"no-panic", e.panic = "" /\ e.known /\ e.decoded>>,
    <<"redacted-value-never-in-String", \A i \in 1..Len(e.marks) : e.marks[i].cls = "redact" => ~e.marks[i].inString>>,
    <<"redacted-value-never-in-Error",  \A i \in 1..Len(e.marks) : e.marks[i].cls = "redact" => ~e.marks[i].inError>>,
    <<"redacted-value-never-in-zap",    \A i \in 1..Len(e.marks) : e.marks[i].cls = "redact" => ~e.marks[i].inZap>>,
    <<"nolog-value-never-in-zap",       \A i \in 1..Len(e.marks) : e.marks[i].cls = "nolog" => ~e.marks[i].inZap>>,
    <<"nolog-field-label-never-in-zap", e.haszap => e.counts.zapQuiet = 0>>,
    <<"other-fields-appear-in-String",
        /\ \A i \in 1..Len(e.marks) : e.marks[i].cls \in {"plain", "nolog"} => e.marks[i].inString
        /\ e.counts.strPlain >= e.case.nsec - 1 /\ e.counts.strQuiet >= e.case.nsec - 1 /\ e.counts.strSecret >= e.case.nsec - 1>>,
    <<"other-fields-appear-in-zap", e.haszap =>
        /\ ~e.counts.zapErr
        /\ \A i \in 1..Len(e.marks) : e.marks[i].cls = "plain" => e.marks[i].inZap
        /\ e.counts.zapPlain >= e.case.nsec - 1 /\ e.counts.zapSecret >= e.case.nsec - 1>>,
    <<"zap-generated-iff-enabled", e.haszap = e.case.zap>>,
    <<"error-text-of-exceptions-is-redacted-too", e.iserror => \A i \in 1..Len(e.marks) : e.marks[i].cls = "redact" => ~e.marks[i].inError>> }

Init == l = 1 /\ bad = {} /\ drift = {}
Next == /\ l <= Len(Trace)
        /\ l' = l + 1
        /\ bad' = bad \cup Tag(l, Failed(Checks(Trace[l])))
        /\ UNCHANGED drift
Spec == Init /\ [][Next]_<<l, bad, drift>>
Done == l = Len(Trace) + 1 => WriteVerdict(Len(Trace), bad, drift)
=============================================================================
