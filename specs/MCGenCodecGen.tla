--------------------------- MODULE MCGenCodecGen ---------------------------
(* Role B for C01/C04: the family F1 as cases: mini-schema, type, logical     *)
(* value, and its reference encoding (fields in declaration order and, for    *)
(* multi-field types, in reverse order).                                       *)
EXTENDS SchemaFamily

Rev(q) == [ i \in 1..Len(q) |-> q[Len(q) + 1 - i] ]
RevFields(w) == [w EXCEPT !.f = Rev(@)]

SingleCases == UNION { { [S |-> SchemaOf(i), tn |-> NameOf(i), v |-> v] : v \in ValuesOf(i) } : i \in 1..Len(Specs) }
MultiCs == { [S |-> MultiSchema, tn |-> c[1], v |-> c[2]] : c \in MultiCases }
CaseSeq == SetToSeq(SingleCases \cup MultiCs)
Out == [ i \in 1..Len(CaseSeq) |->
          LET c == CaseSeq[i] w == ToWireRef(c.S, Ref(c.tn), c.v) IN
          [ id |-> "f" \o ToString(i), op |-> "codec", S |-> c.S, tn |-> c.tn, v |-> c.v,
            b |-> Enc(w), brev |-> Enc(RevFields(w)) ] ]
ASSUME ndJsonSerialize("cases.ndjson", Out)
=============================================================================
