SPECIFICATION Spec
CONSTANTS
  AllocThreshold = 1048576
  MaxDepth = 3
INVARIANTS FaithfulInv EmitType
CHECK_DEADLOCK FALSE
