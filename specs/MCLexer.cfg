SPECIFICATION Spec
CONSTANTS
  FixTokNl = TRUE
  FixDocNl = TRUE
  FixDocLeak = TRUE
  MaxFancy = 2
  EmitMod = 1
  EmitPick = 0
INVARIANTS AllMarked PositionsOK EarlyOnlyEarlier DocsOK
CHECK_DEADLOCK FALSE
