INIT GenInit
NEXT GenNext
CONSTANTS
  Fuel = 24
  Repaired = TRUE
  Family = "xcycle"
CHECK_DEADLOCK FALSE
