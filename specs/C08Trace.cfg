SPECIFICATION Spec
CONSTANT StrictOutcome = FALSE
INVARIANT Done
CHECK_DEADLOCK FALSE
