------------------------------ MODULE Generate ------------------------------
(***************************************************************************)
(* gen.Generate and its callers: everything is accumulated in the `files`   *)
(* map before the first write.  Code anchors: gen/generate.go (Generate,     *)
(* addFile, mergeFiles, the write loop), internal/plugin/multi.go            *)
(* (MultiServiceGenerator.Generate merges plugin results under a mutex),     *)
(* internal/plugin/transport.go (serviceGenerator.Generate rejects paths     *)
(* containing ".."), main.go (verifyAncestry, plugin handles opened before   *)
(* generation, closed afterwards).                                           *)
(*                                                                         *)
(* Every place where the Go code ranges over a map or waits for concurrent   *)
(* plugins is a nondeterministic choice: the module walk, the completion     *)
(* order of plugins, the write loop.                                          *)
(*                                                                         *)
(* Paths are abstract shapes with a Clean table: spelling -> location        *)
(* relative to the output directory ("OUTSIDE" when it escapes).             *)
(***************************************************************************)
EXTENDS Integers, Sequences, FiniteSets, TLC

CONSTANTS Modules,        \* module names
          FailingModules, \* subset whose generateModule fails
          PluginIds,      \* plugin names
          Shapes,         \* path shapes a plugin may answer with
          CleanCompare    \* TRUE: repaired tree (conflicts detected on the cleaned location)

\* shape -> [raw spelling, location, hasDotDot]
Shape(sh, p) ==
  CASE sh = "own"          -> [raw |-> "own-" \o p,        loc |-> "own-" \o p,  dd |-> FALSE]
    [] sh = "core"         -> [raw |-> "m1.go",            loc |-> "m1.go",      dd |-> FALSE]   \* exactly the core generator's path of module m1
    [] sh = "core-dot"     -> [raw |-> "./m1.go",          loc |-> "m1.go",      dd |-> FALSE]
    [] sh = "core-slash"   -> [raw |-> "m1//go",           loc |-> "m1.go",      dd |-> FALSE]
    [] sh = "core-abs"     -> [raw |-> "/m1.go",           loc |-> "m1.go",      dd |-> FALSE]
    [] sh = "shared"       -> [raw |-> "shared.go",        loc |-> "shared.go",  dd |-> FALSE]
    [] sh = "shared-dot"   -> [raw |-> "./shared.go",      loc |-> "shared.go",  dd |-> FALSE]
    [] sh = "dotdot"       -> [raw |-> "../esc-" \o p,     loc |-> "OUTSIDE",    dd |-> TRUE]
    [] sh = "dotdot-inner" -> [raw |-> "a/../in-" \o p,    loc |-> "in-" \o p,   dd |-> TRUE]
    [] sh = "none"         -> [raw |-> "",                 loc |-> "",           dd |-> FALSE]   \* no file

CorePath(m) == [raw |-> m \o ".go", loc |-> m \o ".go", dd |-> FALSE]

VARIABLES answers,   \* [PluginIds -> Shapes] what each plugin will answer
          todoMods,  \* modules not yet generated (walk order is a choice)
          todoPlug,  \* plugins whose generate call has not been merged yet
          files,     \* the accumulated map: set of [key, loc, src]  (key = the map key used by the code)
          phase,     \* "modules" | "plugins" | "merge" | "write" | "done" | "failed"
          written,   \* set of [loc, src] on disk
          plugFiles  \* merged plugin response (MultiServiceGenerator): set of [key, loc, src]

vars == <<answers, todoMods, todoPlug, files, phase, written, plugFiles>>

KeyOf(path) == IF CleanCompare THEN path.loc ELSE path.raw

Init == /\ answers \in [PluginIds -> Shapes]
        /\ todoMods = Modules /\ todoPlug = PluginIds
        /\ files = {} /\ plugFiles = {} /\ written = {}
        /\ phase = "modules"

\* generate(m): generateModule, then addFile
GenModule ==
  /\ phase = "modules" /\ todoMods # {}
  /\ \E m \in todoMods :
       /\ todoMods' = todoMods \ {m}
       /\ IF m \in FailingModules THEN phase' = "failed" /\ UNCHANGED files
          ELSE LET p == CorePath(m) IN
               IF \E f \in files : f.key = KeyOf(p) THEN phase' = "failed" /\ UNCHANGED files
               ELSE files' = files \cup {[key |-> KeyOf(p), loc |-> p.loc, src |-> m]} /\ UNCHANGED phase
  /\ UNCHANGED <<answers, todoPlug, written, plugFiles>>
ModulesDone == /\ phase = "modules" /\ todoMods = {}
               /\ phase' = "plugins"
               /\ UNCHANGED <<answers, todoMods, todoPlug, files, written, plugFiles>>

\* one plugin's generate call returns and is merged under the mutex (usedPaths keyed by the raw string)
PluginReturns ==
  /\ phase = "plugins" /\ todoPlug # {}
  /\ \E p \in todoPlug :
       LET path == Shape(answers[p], p) IN
       /\ todoPlug' = todoPlug \ {p}
       /\ IF answers[p] = "none" THEN UNCHANGED <<phase, plugFiles>>
          ELSE IF path.dd THEN phase' = "failed" /\ UNCHANGED plugFiles        \* path contains ".."
          ELSE IF \E f \in plugFiles : f.key = path.raw THEN phase' = "failed" /\ UNCHANGED plugFiles
          ELSE plugFiles' = plugFiles \cup {[key |-> path.raw, loc |-> path.loc, src |-> p]} /\ UNCHANGED phase
  /\ UNCHANGED <<answers, todoMods, files, written>>
PluginsDone == /\ phase = "plugins" /\ todoPlug = {}
               /\ phase' = "merge"
               /\ UNCHANGED <<answers, todoMods, todoPlug, files, written, plugFiles>>

\* mergeFiles(files, res.Files): addFile for every plugin file, in map order, errors combined
Merge ==
  /\ phase = "merge"
  /\ LET conflict == \/ \E f \in plugFiles : \E g \in files : g.key = (IF CleanCompare THEN f.loc ELSE f.key)
                     \/ CleanCompare /\ \E f, g \in plugFiles : f # g /\ f.loc = g.loc
     IN IF conflict THEN phase' = "failed" /\ UNCHANGED files
        ELSE /\ files' = files \cup { [key |-> (IF CleanCompare THEN f.loc ELSE f.key), loc |-> f.loc, src |-> f.src] : f \in plugFiles }
             /\ phase' = "write"
  /\ UNCHANGED <<answers, todoMods, todoPlug, written, plugFiles>>

\* the write loop ranges over the map; two keys with the same location overwrite each other
WriteOne ==
  /\ phase = "write" /\ \E f \in files : [loc |-> f.loc, src |-> f.src] \notin written
  /\ \E f \in files :
       /\ [loc |-> f.loc, src |-> f.src] \notin written
       /\ written' = { w \in written : w.loc # f.loc } \cup {[loc |-> f.loc, src |-> f.src]}
  /\ UNCHANGED <<answers, todoMods, todoPlug, files, phase, plugFiles>>
WriteDone ==
  /\ phase = "write" /\ \A f \in files : \E w \in written : w.loc = f.loc
  /\ phase' = "done"
  /\ UNCHANGED <<answers, todoMods, todoPlug, files, written, plugFiles>>

Next == GenModule \/ ModulesDone \/ PluginReturns \/ PluginsDone \/ Merge \/ WriteOne \/ WriteDone
Spec == Init /\ [][Next]_vars

---------------------------------------------------------------------------
\* C17: written only beneath the output directory
Confined == \A w \in written : w.loc # "OUTSIDE"
\* C17: all-or-nothing -- nothing is written unless every module and every plugin succeeded
AllOrNothing == phase = "failed" => written = {}
NothingBeforeWritePhase == phase \in {"modules", "plugins", "merge"} => written = {}
\* C17: two sources producing the same location is an error
SameLocation == \E a, b \in (Modules \cup PluginIds) : a # b /\
                  LET la == IF a \in Modules THEN CorePath(a).loc ELSE Shape(answers[a], a).loc
                      lb == IF b \in Modules THEN CorePath(b).loc ELSE Shape(answers[b], b).loc
                  IN la = lb /\ la # ""
ConflictIsError == phase \in {"write", "done"} => ~SameLocation
\* C10: the result does not depend on map order / plugin completion order
DeterministicOutput == phase = "done" =>
   written = { [loc |-> CorePath(m).loc, src |-> m] : m \in Modules }
             \cup { [loc |-> Shape(answers[p], p).loc, src |-> p] : p \in { q \in PluginIds : answers[q] # "none" } }
=============================================================================
