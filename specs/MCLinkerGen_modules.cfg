INIT GenInit
NEXT GenNext
CONSTANTS
  Fuel = 24
  Repaired = TRUE
  Family = "modules"
CHECK_DEADLOCK FALSE
