---------------------------- MODULE DefaultCycle ----------------------------
(***************************************************************************)
(* Field defaults written in terms of the enclosing struct (C08).           *)
(* Code anchors: compile/field.go (FieldSpec.Link: linkingDefault set while  *)
(* the default is linked), compile/constant_value.go (ConstantStruct.Link:    *)
(* a literal that leaves a field out takes the field's default, linking it    *)
(* again; refuses when that default is the one being linked; the flag is put   *)
(* back only by the frame that raised it).                                     *)
(*                                                                         *)
(*   struct C { 1: optional list<C> f = D }                                   *)
(* D is a tree: a list of literals of C; a literal either gives f (another     *)
(* list) or leaves it out.  Linking D with the flag up visits the literals      *)
(* in order; a literal that leaves f out would need D itself: the answer is      *)
(* the "defined in terms of itself" error, whatever came before it.              *)
(* ClearsAlways is the negative control: a frame that did not raise the flag      *)
(* lowers it, and the literal after it links D again, without end.                 *)
(***************************************************************************)
EXTENDS Integers, Sequences, FiniteSets, TLC, Json

CONSTANTS MaxDepth, MaxWidth, Fuel, ClearsAlways,
          EmitMod      \* role B: 0 = emit nothing, 1 = every tree, k = the trees whose structural weight is divisible by k

Omit == [given |-> FALSE, val |-> <<>>]
Give(l) == [given |-> TRUE, val |-> l]

RECURSIVE Lists(_)
Lits(d) == {Omit} \cup (IF d = 0 THEN {} ELSE { Give(l) : l \in Lists(d - 1) })
Lists(d) == UNION { [1..n -> Lits(d)] : n \in 0..MaxWidth }

Defaults == Lists(MaxDepth)

RECURSIVE HasOmit(_)
HasOmit(l) == \E i \in 1..Len(l) : ~l[i].given \/ HasOmit(l[i].val)

\* linking state: flag = linkingDefault of f, err, fuel left, relinks = how often D was linked again
St(flag, err, fuel, relinks) == [flag |-> flag, err |-> err, fuel |-> fuel, relinks |-> relinks]

RECURSIVE LinkList(_, _, _, _), LinkLit(_, _, _)
\* ConstantList.Link: items in order, stops at the first error
LinkList(D, l, i, st) ==
  IF i > Len(l) \/ st.err # "" THEN st
  ELSE LinkList(D, l, i + 1, LinkLit(D, l[i], st))
\* ConstantStruct.Link for the one field f
LinkLit(D, lit, st) ==
  IF st.fuel = 0 THEN [st EXCEPT !.err = "overflow"]
  ELSE IF lit.given
       THEN LET r == LinkList(D, lit.val, 1, st) IN
            IF ClearsAlways THEN [r EXCEPT !.flag = FALSE] ELSE r
       ELSE IF st.flag THEN [st EXCEPT !.err = "defaultcycle"]
            ELSE LET r == LinkList(D, D, 1, [st EXCEPT !.flag = TRUE, !.fuel = @ - 1, !.relinks = @ + 1]) IN
                 [r EXCEPT !.flag = FALSE]
\* FieldSpec.Link: raise the flag, link the default, lower it
LinkField(D) == LET r == LinkList(D, D, 1, St(TRUE, "", Fuel, 0)) IN [r EXCEPT !.flag = FALSE]

Expected(D) == IF HasOmit(D) THEN "defaultcycle" ELSE ""

VARIABLES d, out
vars == <<d, out>>
Init == d \in Defaults /\ out = LinkField(d)
Next == UNCHANGED vars
Spec == Init /\ [][Next]_vars

NoOverflow   == out.err # "overflow"
CycleRefused == out.err = Expected(d)
NeverRelinks == out.relinks = 0

\* role B: the trees with the expected outcome, as cases for the real compiler
RECURSIVE Weight(_)
WItem(i, x) == ((i * 7 + 3) * (IF x.given THEN 2 + Weight(x.val) ELSE 5)) % 1009
Weight(l) == IF Len(l) = 0 THEN 1
             ELSE WItem(1, l[1]) + (IF Len(l) > 1 THEN WItem(2, l[2]) * 11 ELSE 0) + (IF Len(l) > 2 THEN WItem(3, l[3]) * 13 ELSE 0)
EmitCase == (EmitMod > 0 /\ (~HasOmit(d) \/ Weight(d) % EmitMod = 0)) => PrintT(<<"CASE", ToJson([tree |-> d, expect |-> Expected(d)])>>)
=============================================================================
