INIT GenInit
NEXT GenNext
CONSTANTS
  Fuel = 24
  Repaired = TRUE
  Family = "selfstruct"
CHECK_DEADLOCK FALSE
