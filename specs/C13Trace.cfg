SPECIFICATION Spec
CONSTANTS
  CostC = 12582912
  CostK = 64
  CallsC = 16
  CallsK = 8
INVARIANT Done
CHECK_DEADLOCK FALSE
