INIT GenInit
NEXT GenNext
CONSTANTS
  Fuel = 24
  Repaired = TRUE
  Family = "mixed"
CHECK_DEADLOCK FALSE
