---------------------------- MODULE PluginLibBase ----------------------------
(* Constants of PluginLib.tla shared with the trace specification: the requests a host can send to a plugin built  *)
(* with the plugin library, their envelope names, and which of them are answered with a result.                     *)
Requests == {"hs", "gen", "bye", "nomethod", "nosvc", "nocolon", "garbage"}
NameOf(r) == CASE r = "hs" -> "Plugin:handshake" [] r = "gen" -> "ServiceGenerator:generate" [] r = "bye" -> "Plugin:goodbye"
               [] r = "nomethod" -> "Plugin:nope" [] r = "nosvc" -> "Nope:handshake" [] r = "nocolon" -> "handshake"
               [] OTHER -> ""
\* multiplex + generated handlers: which requests reach a handler that answers with a result
AnswerOf(r, hasGenerator) ==
  CASE r \in {"hs", "bye"} -> "reply"
    [] r = "gen" -> IF hasGenerator THEN "reply" ELSE "exception"     \* service not registered without a generator
    [] OTHER -> "exception"                                          \* unknown method / service / no colon
=============================================================================
