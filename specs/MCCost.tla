------------------------------- MODULE MCCost -------------------------------
(***************************************************************************)
(* Role A for C13: short messages whose length / count fields are inflated. *)
(* A base message (a struct, optionally enveloped or framed) is taken from  *)
(* the bounded universe; the Inflate action overwrites any 4-byte window    *)
(* with a large big-endian number (2^16 .. 2^31-1), which reaches every     *)
(* position where the format carries a length: binary length, list/set/map  *)
(* count, legacy envelope name length, frame length.  The invariant bounds  *)
(* the allocation and the number of primitive steps the models of every     *)
(* decoding API perform by the input size.                                  *)
(* LegacyPrealloc = TRUE models the unrepaired readNonStrictEnvelope (name   *)
(* buffer allocated from the declared length) and is the negative control.  *)
(***************************************************************************)
EXTENDS WireUniverse, Envelope, Frame, Json

CONSTANTS LegacyPrealloc, CostC, CostK

StructVals == { u \in AllScalars \cup Depth1(1) \cup Depth2 : u.t = TStruct }
Wrapped    == { [t |-> TStruct, f |-> << [id |-> 1, v |-> u] >>] : u \in AllScalars \cup Depth1(1) \cup Depth2 }
BodiesC    == StructVals \cup Wrapped

\* bodies shaped like the generated plugin/api types (field id, container kind), so that
\* an inflated count reaches the pre-sizing code of generated Decode / FromWire
ES == [t |-> TStruct, f |-> <<>>]
L(et, es)  == [t |-> TList, et |-> et, e |-> es]
M(kt, vt, ms) == [t |-> TMap, kt |-> kt, vt |-> vt, m |-> ms]
F1(id, v) == [t |-> TStruct, f |-> << [id |-> id, v |-> v] >>]
Shaped == { F1(1, L(TI32, << Num(TI32, 1) >>)),                       \* GenerateServiceRequest.rootServices
            F1(2, M(TI32, TStruct, << [k |-> Num(TI32, 1), v |-> ES] >>)),  \* .services
            F1(6, L(TI32, <<>>)),                                      \* .rootModules
            F1(3, L(TI32, << Num(TI32, 1) >>)),                       \* HandshakeResponse.features
            F1(1, M(TBinary, TBinary, << [k |-> Bin(<<97>>), v |-> Bin(<<>>)] >>)),  \* GenerateServiceResponse.files
            F1(3, L(TStruct, << ES >>)),                               \* Function.arguments
            F1(5, L(TStruct, << ES >>)),                               \* Service.functions / Function.exceptions
            F1(3, M(TBinary, TBinary, <<>>)),                          \* annotations
            F1(8, M(TBinary, TBinary, <<>>)),
            F1(2, F1(3, L(TStruct, <<>>))),                            \* nested: Argument.type ...
            \* containers whose items all have a fixed width are skipped by count * width: the count alone decides
            F1(4, M(TI64, TI64, <<>>)), F1(4, M(TI32, TI32, << [k |-> Num(TI32, 1), v |-> Num(TI32, 2)] >>)),
            F1(4, M(TI64, TI32, <<>>)), F1(4, L(TI64, <<>>)), F1(4, [t |-> TSet, et |-> TI32, e |-> <<>>]) }

\* freshly generated code: one struct ("Cost") with a list, a set, a slice-backed set and a map field for every kind of item
\* (field id = 20 * container + item index); the check renders this table to IDL and runs the generator under test on it
LabElems == << [t |-> TBool, idl |-> "bool"], [t |-> TI8, idl |-> "i8"], [t |-> TI16, idl |-> "i16"], [t |-> TI32, idl |-> "i32"],
               [t |-> TI64, idl |-> "i64"], [t |-> TDouble, idl |-> "double"], [t |-> TBinary, idl |-> "string"],
               [t |-> TBinary, idl |-> "binary"], [t |-> TI32, idl |-> "E"], [t |-> TStruct, idl |-> "Empty"] >>
LabContainers == << "list", "set", "sliceset", "map" >>
LabFields == { [id |-> 20 * c + i, c |-> LabContainers[c], idl |-> LabElems[i].idl, t |-> LabElems[i].t] : c \in 1..4, i \in 1..Len(LabElems) }
LabBody(f) == F1(f.id, CASE f.c = "list" -> L(f.t, <<>>)
                         [] f.c \in {"set", "sliceset"} -> [t |-> TSet, et |-> f.t, e |-> <<>>]
                         [] OTHER -> M(f.t, f.t, <<>>))
LabBodies == { LabBody(f) : f \in LabFields }
ASSUME PrintT(<<"LABFIELDS", ToJson(LabFields)>>)

Kinds == {"bare", "strict", "legacy", "frame", "shaped", "lab"}
Name3 == <<102, 111, 111>>

Msg(kind, body) ==
  CASE kind \in {"bare", "shaped", "lab"} -> Enc(body)
    [] kind = "strict" -> EncEnv([fr |-> "strict", name |-> Name3, ty |-> 1, seq |-> 7, body |-> body])
    [] kind = "legacy" -> EncEnv([fr |-> "legacy", name |-> Name3, ty |-> 1, seq |-> 7, body |-> body])
    [] kind = "frame"  -> FrameBytes(Enc(body))

\* counts whose product with an item width of 8, 12 or 16 bytes is a multiple of 2^32 (or just above one)
WrapLens == { <<16, 0, 0, 0>>, <<32, 0, 0, 0>>, <<64, 0, 0, 0>>, <<16, 0, 0, 1>>, <<85, 85, 85, 86>> }
BigLens == { <<0, 1, 0, 0>>, <<0, 16, 0, 1>>, <<1, 0, 0, 0>>, <<15, 255, 255, 255>>, <<127, 255, 255, 255>>, <<255, 255, 255, 255>> }

VARIABLES kind, msg, inflated
vars == <<kind, msg, inflated>>

Init == /\ kind \in Kinds
        /\ \E b \in (IF kind = "shaped" THEN Shaped ELSE IF kind = "lab" THEN LabBodies ELSE BodiesC) : msg = Msg(kind, b)
        /\ inflated = 0
Inflate == /\ inflated < 1
           /\ \E i \in 1..(Len(msg) - 3), big \in (IF kind \in {"shaped", "lab"} THEN BigLens \cup WrapLens ELSE BigLens) :
                 msg' = SubSeq(msg, 1, i - 1) \o big \o SubSeq(msg, i + 4, Len(msg))
           /\ inflated' = inflated + 1
           /\ UNCHANGED kind
Next == Inflate
Spec == Init /\ [][Next]_vars

N == Len(msg)
Bound(al) == al <= CostC + CostK * N

\* allocation of the stream legacy header: repaired code reads the name like ReadBinary
LegacyAl(bs) == IF Have(bs, 1, 4) /\ I32At(bs, 1) > 0
                THEN (IF LegacyPrealloc THEN I32At(bs, 1) ELSE ReadScalar(bs, 1, TBinary, 0).al)
                ELSE 0

ValueAPIsOK ==
  /\ Bound(DecLazy(msg, 1, TStruct, 0, 0).al) /\ Bound(DecStrict(msg, 1, TStruct, 0, 0).al)
  /\ DecLazy(msg, 1, TStruct, 0, 0).st <= 8 + 8 * N
  /\ DecStrict(msg, 1, TStruct, 0, 0).st <= 8 + 4 * N
  /\ \A seek \in BOOLEAN : SkipAt(msg, 1, TStruct, seek, 0).st <= 8 + 4 * N
EnvelopeAPIsOK ==
  /\ Bound(Header(msg, "ra").al)
  /\ Bound(LegacyAl(msg))
FrameAPIOK == FrameCostOK(msg, CostC)

CostOK == ValueAPIsOK /\ EnvelopeAPIsOK /\ FrameAPIOK
=============================================================================
