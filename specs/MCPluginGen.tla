---------------------------- MODULE MCPluginGen ----------------------------
(* Role B for C16/C17: every assignment of fault scripts to the plugins of   *)
(* the model, as cases for the scripted fake plugin.                          *)
EXTENDS Plugin, Json, SequencesExt
PSeq == SetToSeq(Plugins)
Assignments == SetToSeq([Plugins -> Scripts])
Case(i) == [ id |-> "s" \o ToString(i),
             plugins |-> [ k \in 1..Len(PSeq) |-> [ name |-> PSeq[k], hs |-> Assignments[i][PSeq[k]].hs,
                                                     gen |-> Assignments[i][PSeq[k]].gen, bye |-> Assignments[i][PSeq[k]].bye ] ] ]
ASSUME ndJsonSerialize("cases.ndjson", [ i \in 1..Len(Assignments) |-> Case(i) ])
GenInit == /\ script = [p \in Plugins |-> [hs |-> "ok", gen |-> "ok", bye |-> "ok"]] /\ phase = "x"
           /\ hpc = [p \in Plugins |-> "x"] /\ ppc = hpc /\ toP = hpc /\ fromP = hpc
           /\ stdinOpen = [p \in Plugins |-> FALSE] /\ stdoutOpen = stdinOpen /\ waited = stdinOpen
           /\ hsRes = hpc /\ genRes = hpc /\ byeRes = hpc /\ hist = [p \in Plugins |-> <<>>] /\ sent = hist
           /\ named = {} /\ code = 0 /\ wrote = FALSE
GenNext == UNCHANGED vars
=============================================================================
