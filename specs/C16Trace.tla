------------------------------ MODULE C16Trace ------------------------------
(***************************************************************************)
(* C16 (and the plugin half of C17): recorded runs of the real plugin host   *)
(* against scripted fake plugins, judged against the protocol of Plugin.tla. *)
(* One line per run:                                                          *)
(*   case.plugins = the fault script of each plugin (hs / gen / bye)          *)
(*   per[i].events = what plugin i logged: start, request names, eof / fault  *)
(*                   markers, exit;  reaped / named / started                 *)
(*   failed = the host reported failure (error in-process, exit code CLI)     *)
(*   created / modified / escaped = effect on the file system (CLI mode)      *)
(***************************************************************************)
EXTENDS TraceBase, FiniteSets

VARIABLES l, bad, drift

HsGood(s)    == s.hs \in {"ok", "nofeature"}
Feature(s)   == s.hs = "ok"
GenLabelOK(s) == s.gen \in {"ok", "samepath", "samepath-dot", "samepath-same", "samepath-empty", "abs", "nested"}   \* a complete, well-formed reply whose paths are acceptable alone
GenDies(s)   == s.gen \in {"trunc", "exit", "oversize", "neglen", "neglen2"}

S(e) == e.case.plugins
N(e) == Len(S(e))
AllGood(e) == \A i \in 1..N(e) : HsGood(S(e)[i])
\* layout cases may expect a failure that is not a plugin's (compile error, a module that
\* fails to generate, a thrift root that is too narrow): generation stops before the plugin call
CoreFails(e) == Has(e.case, "expect") /\ e.case.expect.fail
Gets(e, i) == AllGood(e) /\ Feature(S(e)[i]) /\ ~CoreFails(e)      \* receives a generate request
Dies(e, i) == Gets(e, i) /\ GenDies(S(e)[i])                       \* gone before the goodbye
ByeSeen(e, i) == HsGood(S(e)[i]) /\ ~Dies(e, i)
\* two generating plugins answering with the same (cleaned) path, or a plugin using a core path
SamePathGroup(s) == IF s.gen \in {"samepath", "samepath-dot", "samepath-same", "samepath-empty"} THEN "x" ELSE IF s.gen \in {"corepath", "corepath-dot", "corepath-slash", "corepath-abs"} THEN "core" ELSE "none"
Conflict(e) == \/ \E i, j \in 1..N(e) : i # j /\ Gets(e, i) /\ Gets(e, j) /\ SamePathGroup(S(e)[i]) = "x" /\ SamePathGroup(S(e)[j]) = "x"
               \/ e.mode = "cli" /\ \E i \in 1..N(e) : Gets(e, i) /\ SamePathGroup(S(e)[i]) = "core"
PluginFailed(e, i) ==
  \/ ~HsGood(S(e)[i])
  \/ Gets(e, i) /\ ~(GenLabelOK(S(e)[i]) \/ SamePathGroup(S(e)[i]) = "core")     \* exception, garbage, truncated, dotdot, ...
  \/ ByeSeen(e, i) /\ S(e)[i].bye \notin {"ok", "flood"}       \* "flood": a proper answer, then output nobody asked for (Plugin.tla)
SomeFailure(e) == (\E i \in 1..N(e) : PluginFailed(e, i)) \/ Conflict(e)
\* a failure before anything is written: handshake, generate request, or a path conflict
\* (a goodbye that fails after a successful generation is not one of them)
PreWriteFailure(e) == \/ CoreFails(e)                                   \* compilation / a module's generation / the layout check failed
                      \/ \E i \in 1..N(e) : ~HsGood(S(e)[i])
                      \/ \E i \in 1..N(e) : Gets(e, i) /\ ~(GenLabelOK(S(e)[i]) \/ SamePathGroup(S(e)[i]) = "core")
                      \/ Conflict(e)

\* the paths of every generating plugin with a plain answer reach the caller / the output directory
\* (plugins are told apart by position, not by name: the same plugin may be asked for twice)
FilesOf(s) == IF Has(s, "files") THEN DOMAIN s.files ELSE {}
Delivered(e) == UNION { FilesOf(S(e)[i]) : i \in { k \in 1..N(e) : Gets(e, k) /\ S(e)[k].gen \in {"ok", "nested"} } }
Answered(e)  == UNION { FilesOf(S(e)[i]) : i \in { k \in 1..N(e) : Gets(e, k) } }

Recv(ev) == SelectSeq(ev, LAMBDA x : x \in {"Plugin:handshake", "ServiceGenerator:generate", "Plugin:goodbye"})
CountOf(seq, x) == Cardinality({ k \in 1..Len(seq) : seq[k] = x })
ExpectedRecv(e, i) ==
  (IF S(e)[i].hs = "exitbefore" THEN <<>> ELSE <<"Plugin:handshake">>)
  \o (IF Gets(e, i) THEN <<"ServiceGenerator:generate">> ELSE <<>>)
  \o (IF ByeSeen(e, i) THEN <<"Plugin:goodbye">> ELSE <<>>)

Checks(e) ==
  { <<"no-panic", e.panic = "" /\ e.setup = "">>,
    <<"host-terminates", ~e.hung>>,
    <<"generate-only-after-good-handshake-with-feature",
        \A i \in 1..N(e) : CountOf(e.per[i].events, "ServiceGenerator:generate") > 0 => Gets(e, i)>>,
    <<"exactly-one-goodbye-per-opened-plugin",
        \A i \in 1..N(e) : CountOf(e.per[i].events, "Plugin:goodbye") = (IF ByeSeen(e, i) THEN 1 ELSE 0)>>,
    <<"goodbye-is-last-request",
        \A i \in 1..N(e) : LET r == Recv(e.per[i].events) IN \A k \in 1..Len(r) : r[k] = "Plugin:goodbye" => k = Len(r)>>,
    <<"pipes-closed-and-process-reaped",
        \A i \in 1..N(e) : e.per[i].started =>
            (e.per[i].reaped /\ Len(e.per[i].events) >= 2 /\ e.per[i].events[1] = "start"
             /\ e.per[i].events[Len(e.per[i].events)] = "exit")>>,
    <<"successful-generation-delivers-every-plugin-file",
        ~e.failed => IF e.mode = "cli" THEN Delivered(e) \subseteq Range(e.created_rel)
                     ELSE Delivered(e) \subseteq Range(e.genfiles) /\ Cardinality(Range(e.genfiles)) = Cardinality(Answered(e))>>,
    <<"fails-iff-some-plugin-failed", e.failed <=> (SomeFailure(e) \/ CoreFails(e))>>,
    <<"failure-names-a-failing-plugin",
        (e.failed /\ \E i \in 1..N(e) : PluginFailed(e, i)) => \E i \in 1..N(e) : e.per[i].named /\ (PluginFailed(e, i) \/ Conflict(e))>> }
  \cup
  (IF e.mode = "cli" THEN
    { <<"output-confined-to-out-dir", e.escaped = <<>> /\ e.created_outside = <<>>>>,
      <<"nothing-written-on-failure", PreWriteFailure(e) => (e.created = <<>> /\ e.modified = <<>> /\ e.deleted = <<>>)>>,
      <<"existing-files-untouched", e.modified = <<>> /\ e.deleted = <<>>>> }
   ELSE {})
  \cup
  \* layout cases carry the expected outcome computed from the file locations alone
  (IF Has(e.case, "expect") THEN
    { <<"expected-outcome", e.failed = e.case.expect.fail>>,
      <<"paths-determined-by-location-relative-to-thrift-root",
          ~e.case.expect.fail => Range(e.created) = Range(e.case.expect.paths)>> }
   ELSE {})

Conf(e) == { <<"model-request-sequence", \A i \in 1..N(e) : Recv(e.per[i].events) = ExpectedRecv(e, i)>> }

Init == l = 1 /\ bad = {} /\ drift = {}
Next == /\ l <= Len(Trace)
        /\ l' = l + 1
        /\ bad' = bad \cup Tag(l, Failed(Checks(Trace[l])))
        /\ drift' = drift \cup Tag(l, Failed(Conf(Trace[l])))
Spec == Init /\ [][Next]_<<l, bad, drift>>
Done == l = Len(Trace) + 1 => WriteVerdict(Len(Trace), bad, drift)
=============================================================================
