------------------------------- MODULE Linker -------------------------------
(***************************************************************************)
(* The linker of the Thrift compiler: compile/compiler.go (load, link,      *)
(* Module.Walk), typedef.go, struct.go, field.go, constant.go,              *)
(* constant_value.go, service.go, once.go, cycle.go, type.go.               *)
(*                                                                         *)
(* A program is a term over two modules "a" (the root) and "b":             *)
(*   prog.inc  : [{"a","b"} -> SUBSET {"a","b"}]       include edges        *)
(*   prog.ty   : [TKeys -> TDef]   TDef = [k |-> "no"]            (absent)  *)
(*                                      | [k |-> "td", tgt |-> Ref]         *)
(*                                      | [k |-> "st", fty |-> Ref, dfl |-> CVal] *)
(*                                      | [k |-> "en"]    (enum {I = 1})    *)
(*   prog.co   : [CKeys -> CDef]   CDef = [k |-> "no"] | [k |-> "co", ty |-> Ref, val |-> CVal] *)
(*   prog.sv   : [SKeys -> SDef]   SDef = [k |-> "no"] | [k |-> "sv", par |-> Ref] *)
(* Keys are strings "module.Name".  Ref = [q, n]: q = "base" (n a base type *)
(* name), q = "" (bare name), q = "none" (no reference), otherwise an       *)
(* include qualifier.  CVal = [k, q, n]: k = "none" | "int" (literal 1) |   *)
(* "str" | "map" (struct literal {"f": 1}) | "emap" ({}) | "ref" (constant  *)
(* or enum item reference q.n / n).                                         *)
(*                                                                         *)
(* Sequential Go recursion is a state-passing RECURSIVE operator with depth *)
(* fuel; the only nondeterminism is the order in which compiler.link ranges *)
(* over the maps, which is the Step action of MCLinker.                     *)
(***************************************************************************)
EXTENDS Integers, Sequences, FiniteSets, TLC

CONSTANTS Fuel,
          Repaired    \* TRUE: the tree with the fix: commits; FALSE: the pinned tree (negative control)

Mods == {"a", "b"}
ModOf(key) == IF key[1] = "a" THEN "a" ELSE "b"          \* keys are <<module, name>> pairs
Key(m, n) == <<m, n>>

NoRef == [q |-> "none", n |-> ""]
BaseRef(n) == [q |-> "base", n |-> n]
Bare(n) == [q |-> "", n |-> n]
Qual(q, n) == [q |-> q, n |-> n]
\* list<X>: eq / n name the element the way q / n name a type ("" bare, "base", or an include); every mention of a
\* container type in the source is a TypeSpec object of its own
ListRef(eq, n) == [q |-> "list", n |-> n, eq |-> eq]
ElemRef(ref) == [q |-> ref.eq, n |-> ref.n]

CNone == [k |-> "none", q |-> "", n |-> ""]
CInt  == [k |-> "int",  q |-> "", n |-> ""]
CStr  == [k |-> "str",  q |-> "", n |-> ""]
CMap  == [k |-> "map",  q |-> "", n |-> ""]      \* {"f": 1}
CEMap == [k |-> "emap", q |-> "", n |-> ""]      \* {}
CRef(q, n) == [k |-> "ref", q |-> q, n |-> n]    \* unresolved constantReference
\* resolved forms produced by linking
CConst(key) == [k |-> "const", q |-> key[1], n |-> key[2]]    \* ConstReference{Target}
CItem(key)  == [k |-> "item",  q |-> key[1], n |-> key[2]]    \* EnumItemReference{Enum}
CStruct(fv) == [k |-> "struct", q |-> "", n |-> "", fv |-> fv] \* ConstantStruct, fv = value of field f
CList(ev)   == [k |-> "list", q |-> "", n |-> "", fv |-> ev]   \* a list literal with one item [ev] (before and after linking)

\* type handles: what a linked TypeSpec pointer denotes.  occ models pointer
\* identity of base type occurrences (each "i32" in the source is its own object).
HNil == [k |-> "nil", key |-> <<"", "">>, n |-> "", occ |-> ""]
HUnlinked == [k |-> "unlinked", key |-> <<"", "">>, n |-> "", occ |-> ""]
HBase(n, occ) == [k |-> "base", key |-> <<"", "">>, n |-> n, occ |-> occ]
HEnt(key) == [k |-> "ent", key |-> key, n |-> "", occ |-> ""]
HList(eh, occ) == [k |-> "list", key |-> <<"", "">>, n |-> "", occ |-> occ, e |-> eh]     \* ListSpec{ValueSpec: eh}

---------------------------------------------------------------------------
(* Program accessors *)
TKeysOf(prog) == DOMAIN prog.ty
CKeysOf(prog) == DOMAIN prog.co
SKeysOf(prog) == DOMAIN prog.sv
TDefd(prog, key) == key \in DOMAIN prog.ty /\ prog.ty[key].k # "no"
CDefd(prog, key) == key \in DOMAIN prog.co /\ prog.co[key].k # "no"
SDefd(prog, key) == key \in DOMAIN prog.sv /\ prog.sv[key].k # "no"

\* Thrift identifiers may contain dots, so "q.n" may be the name of a LOCAL definition: every lookup (LookupType,
\* LookupConstant, LookupService) tries the whole name in the current scope before it splits at the first dot
Dot(q, n) == q \o "." \o n
IsQual(ref) == ref.q \notin {"", "base", "none"}
TLocalDot(prog, m, ref) == IsQual(ref) /\ TDefd(prog, Key(m, Dot(ref.q, ref.n)))
CLocalDot(prog, m, q, n) == q # "" /\ CDefd(prog, Key(m, Dot(q, n)))
SLocalDot(prog, m, ref) == IsQual(ref) /\ SDefd(prog, Key(m, Dot(ref.q, ref.n)))

\* modules loaded from the root "a" (load follows includes; registered before gather)
RECURSIVE ReachFrom(_, _, _)
ReachFrom(prog, frontier, seen) ==
  IF frontier \subseteq seen THEN seen
  ELSE ReachFrom(prog, UNION { prog.inc[m] : m \in frontier }, seen \cup frontier)
Loaded(prog) == ReachFrom(prog, {"a"}, {})

---------------------------------------------------------------------------
(* The mutable store: the fields the Go code writes while linking *)
InitStore(prog) ==
  [ tl   |-> [k \in TKeysOf(prog) |-> FALSE],      \* linkOnce of TypedefSpec / StructSpec
    root |-> [k \in TKeysOf(prog) |-> HNil],        \* TypedefSpec.root (cache written by Link)
    tt   |-> [k \in TKeysOf(prog) |-> HUnlinked],   \* TypedefSpec.Target as stored (assigned when its Link returns)
    fing |-> [k \in TKeysOf(prog) |-> FALSE],       \* a struct field's default is being linked (repaired tree)
    cing |-> [k \in CKeysOf(prog) |-> FALSE],       \* Constant.Link is on the stack (repaired tree)
    sing |-> [k \in SKeysOf(prog) |-> FALSE],       \* ServiceSpec.Link is on the stack (repaired tree)
    ft   |-> [k \in TKeysOf(prog) |-> HUnlinked],   \* StructSpec field type as currently stored
    fd   |-> [k \in TKeysOf(prog) |-> IF prog.ty[k].k = "st" THEN prog.ty[k].dfl ELSE CNone],  \* field default as stored
    cl   |-> [k \in CKeysOf(prog) |-> FALSE],       \* linkOnce of Constant
    ct   |-> [k \in CKeysOf(prog) |-> HUnlinked],   \* Constant.Type as stored
    cv   |-> [k \in CKeysOf(prog) |-> IF prog.co[k].k = "co" THEN prog.co[k].val ELSE CNone],   \* Constant.Value as stored
    sl   |-> [k \in SKeysOf(prog) |-> FALSE],       \* linkOnce of ServiceSpec
    par  |-> [k \in SKeysOf(prog) |-> <<"", "">>],  \* ServiceSpec.Parent
    hz   |-> FALSE,                                  \* a cast consulted a type that is still being linked
                                                     \* (known finding: outcome then depends on the order)
    err  |-> "",                                     \* first error class
    ovf  |-> FALSE,                                  \* recursion deeper than Fuel (unbounded recursion)
    maxd |-> 0 ]

Fail(s, e)  == IF s.err = "" THEN [s EXCEPT !.err = e] ELSE s
Deep(s, d)  == [s EXCEPT !.maxd = IF d > @ THEN d ELSE @]
Overflow(s) == [s EXCEPT !.ovf = TRUE, !.err = IF @ = "" THEN "overflow" ELSE @]
Bad(s) == s.err # ""

R(s, h)    == [s |-> s, h |-> h]         \* result of linking a type expression
V(s, v)    == [s |-> s, v |-> v]         \* result of linking a constant value

\* RootTypeSpec.  Pinned tree: a typedef answers with the root it cached while it was linked.
\* Repaired tree: the targets are followed as they are stored now (nil on a typedef cycle).
RECURSIVE FollowRoot(_, _, _, _)
FollowRoot(prog, s, h, seen) ==
  IF h.k = "ent" /\ prog.ty[h.key].k = "td"
  THEN (IF h.key \in seen THEN HNil ELSE FollowRoot(prog, s, s.tt[h.key], seen \cup {h.key}))
  ELSE h
RootOf(prog, s, h) ==
  IF Repaired THEN FollowRoot(prog, s, h, {})
  ELSE IF h.k = "ent" /\ prog.ty[h.key].k = "td" THEN s.root[h.key] ELSE h

SameObject(h1, h2) == \/ h1.k = "ent" /\ h2.k = "ent" /\ h1.key = h2.key
                      \/ h1.k = "base" /\ h2.k = "base" /\ h1.occ = h2.occ
                      \/ h1.k = "list" /\ h2.k = "list" /\ h1.occ = h2.occ

---------------------------------------------------------------------------
RECURSIVE LinkTRef(_, _, _, _, _, _), LinkType(_, _, _, _), LinkCVal(_, _, _, _, _, _),
          LinkConst(_, _, _, _), ConstRefLink(_, _, _, _, _, _), LinkSvc(_, _, _, _), ResolveSvc(_, _, _, _, _)

\* typeSpecReference.Link / base type Link.  m = scope (module), occ = identity of a base occurrence
LinkTRef(prog, s, m, ref, occ, d) ==
  IF ref.q = "base" THEN R(s, HBase(ref.n, occ))
  ELSE IF ref.q = "list" THEN                          \* ListSpec.Link links the element type
       LET r == LinkTRef(prog, s, m, ElemRef(ref), occ \o "/e", d + 1) IN
       IF Bad(r.s) THEN R(r.s, HNil) ELSE R(r.s, HList(r.h, occ))
  ELSE IF ref.q = "" THEN
         IF TDefd(prog, Key(m, ref.n))
         THEN R(LinkType(prog, s, Key(m, ref.n), d + 1), HEnt(Key(m, ref.n)))
         ELSE R(Fail(s, "reference"), HNil)
  ELSE IF TLocalDot(prog, m, ref)                    \* the whole dotted name is a local type
       THEN R(LinkType(prog, s, Key(m, Dot(ref.q, ref.n)), d + 1), HEnt(Key(m, Dot(ref.q, ref.n))))
  ELSE \* include-qualified: LookupInclude in the scope's Includes, then a bare lookup there
       IF ref.q \in prog.inc[m] /\ TDefd(prog, Key(ref.q, ref.n))
       THEN R(LinkType(prog, s, Key(ref.q, ref.n), d + 1), HEnt(Key(ref.q, ref.n)))
       ELSE R(Fail(s, "reference"), HNil)

\* TypedefSpec.Link / StructSpec.Link / EnumSpec.Link
LinkType(prog, s0, key, d) ==
  LET s == Deep(s0, d) IN
  IF Bad(s) THEN s
  ELSE IF d > Fuel THEN Overflow(s)
  ELSE LET def == prog.ty[key] IN
  IF def.k = "en" THEN s                                   \* nothing to do
  ELSE IF s.tl[key] THEN s                                 \* linkOnce: flag already set (maybe half-linked)
  ELSE LET s1 == [s EXCEPT !.tl[key] = TRUE] IN            \* set BEFORE the body runs
  IF def.k = "td" THEN
       LET r == LinkTRef(prog, s1, ModOf(key), def.tgt, "t:" \o key[1] \o "." \o key[2], d) IN
       IF Bad(r.s) THEN r.s
       ELSE LET s2 == [r.s EXCEPT !.tt[key] = r.h] IN                    \* t.Target = linked target
            [s2 EXCEPT !.root[key] = RootOf(prog, s2, r.h)]              \* root cached at this moment
  ELSE \* struct: FieldGroup.Link: field type, then the default cast to it
       LET r == LinkTRef(prog, s1, ModOf(key), def.fty, "f:" \o key[1] \o "." \o key[2], d) IN
       IF Bad(r.s) THEN r.s
       ELSE LET s2 == [r.s EXCEPT !.ft[key] = r.h] IN
            IF def.dfl.k = "none" THEN s2
            ELSE LET s3 == [s2 EXCEPT !.fing[key] = TRUE]
                     v == LinkCVal(prog, s3, ModOf(key), s3.fd[key], r.h, d + 1) IN
                 IF Bad(v.s) THEN v.s ELSE [v.s EXCEPT !.fd[key] = v.v, !.fing[key] = FALSE]

\* ConstantValue.Link(scope, t)
LinkCVal(prog, s0, m, v, h, d) ==
  LET sA == Deep(s0, d)
      hzNow == \/ RootOf(prog, sA, h).k = "unlinked"
               \/ LET r0 == RootOf(prog, sA, h) IN
                  v.k \in {"map", "emap", "struct"} /\ r0.k = "ent" /\ prog.ty[r0.key].k = "st" /\ sA.ft[r0.key].k = "unlinked"
      s == IF hzNow THEN [sA EXCEPT !.hz = TRUE] ELSE sA IN
  IF Bad(s) THEN V(s, v)
  ELSE IF d > Fuel THEN V(Overflow(s), v)
  ELSE LET rt == RootOf(prog, s, h) IN
  CASE v.k = "int" ->
         IF rt.k = "base" /\ rt.n = "i32" THEN V(s, v)
         ELSE IF rt.k = "ent" /\ prog.ty[rt.key].k = "en" THEN V(s, CItem(rt.key))     \* 1 is the value of item I
         ELSE V(Fail(s, "cast"), v)
    [] v.k = "str" ->
         IF rt.k = "base" /\ rt.n = "string" THEN V(s, v) ELSE V(Fail(s, "cast"), v)
    [] v.k \in {"map", "emap", "struct"} ->
         \* ConstantMap.Link -> buildConstantStruct -> ConstantStruct.Link: reads the struct's
         \* field type and default AS THEY ARE STORED AT THIS MOMENT
         IF ~(rt.k = "ent" /\ prog.ty[rt.key].k = "st") THEN V(Fail(s, "cast"), v)
         ELSE LET given == IF v.k = "map" THEN CInt ELSE IF v.k = "struct" THEN v.fv ELSE CNone
                  fval  == IF given.k # "none" THEN given ELSE s.fd[rt.key]      \* field default fills in
                  usesDefault == given.k = "none"
              IN IF fval.k = "none" THEN V(s, CStruct(CNone))                    \* optional field, unset
                 ELSE IF Repaired /\ usesDefault /\ s.fing[rt.key]
                      THEN V(Fail(s, "defaultcycle"), v)                          \* default defined in terms of itself
                 ELSE LET fh == s.ft[rt.key]
                          s1 == IF usesDefault THEN [s EXCEPT !.fing[rt.key] = TRUE] ELSE s
                          r == LinkCVal(prog, s1, m, fval, fh, d + 1) IN
                      IF Bad(r.s) THEN V(r.s, v)
                      ELSE V(IF usesDefault THEN [r.s EXCEPT !.fing[rt.key] = s.fing[rt.key]] ELSE r.s, CStruct(r.v))
    [] v.k = "list" ->
         \* ConstantList.Link: every item against the element type; a list is not a value of any other type
         IF rt.k # "list" THEN V(Fail(s, "cast"), v)
         ELSE LET r == LinkCVal(prog, s, m, v.fv, rt.e, d + 1) IN
              IF Bad(r.s) THEN V(r.s, v) ELSE V(r.s, CList(r.v))
    [] v.k = "ref" ->
         \* constantReference.Link: the whole name as a local constant first
         IF v.q = "" THEN
              IF CDefd(prog, Key(m, v.n))
              THEN LET s1 == LinkConst(prog, s, Key(m, v.n), d + 1) IN
                   IF Bad(s1) THEN V(s1, v) ELSE ConstRefLink(prog, s1, m, Key(m, v.n), h, d + 1)
              ELSE V(Fail(s, "reference"), v)
         ELSE IF CLocalDot(prog, m, v.q, v.n)               \* the whole dotted name is a local constant
              THEN LET ck == Key(m, Dot(v.q, v.n))
                       s1 == LinkConst(prog, s, ck, d + 1) IN
                   IF Bad(s1) THEN V(s1, v) ELSE ConstRefLink(prog, s1, m, ck, h, d + 1)
         ELSE \* split at the first dot: a local enum named q?  else an included scope named q
              IF TDefd(prog, Key(m, v.q)) /\ prog.ty[Key(m, v.q)].k = "en"
              THEN (IF v.n # "I" THEN V(Fail(s, "reference"), v)
                    ELSE IF ~Repaired THEN V(s, CItem(Key(m, v.q)))             \* pinned: returned without a cast to t
                    ELSE IF rt.k = "ent" /\ rt.key = Key(m, v.q) THEN V(s, CItem(Key(m, v.q)))
                    ELSE V(Fail(s, "cast"), v))
              ELSE IF v.q \in prog.inc[m]
                   THEN LinkCVal(prog, s, v.q, CRef("", v.n), h, d + 1)        \* in the included scope
                   ELSE V(Fail(s, "reference"), v)
    [] v.k = "const" -> ConstRefLink(prog, s, m, Key(v.q, v.n), h, d)
    [] v.k = "item" ->
         IF rt.k = "ent" /\ rt.key = Key(v.q, v.n) THEN V(s, v) ELSE V(Fail(s, "cast"), v)
    [] OTHER -> V(Fail(s, "cast"), v)

\* ConstReference.Link: identical type object => the reference itself; otherwise the
\* target's value (as stored right now) is linked again against the requested type
ConstRefLink(prog, s, m, ckey, h, d) ==
  IF SameObject(h, s.ct[ckey]) THEN V(s, CConst(ckey))
  ELSE LinkCVal(prog, s, m, s.cv[ckey], h, d + 1)

\* Constant.Link
LinkConst(prog, s0, key, d) ==
  LET s == Deep(s0, d) IN
  IF Bad(s) THEN s
  ELSE IF d > Fuel THEN Overflow(s)
  ELSE IF s.cl[key] THEN (IF Repaired /\ s.cing[key] THEN Fail(s, "constcycle") ELSE s)
  ELSE LET s1 == [s EXCEPT !.cl[key] = TRUE, !.cing[key] = TRUE]
           def == prog.co[key]
           r == LinkTRef(prog, s1, ModOf(key), def.ty, "c:" \o key[1] \o "." \o key[2], d) IN
       IF Bad(r.s) THEN r.s
       ELSE LET s2 == [r.s EXCEPT !.ct[key] = r.h]
                v == LinkCVal(prog, s2, ModOf(key), s2.cv[key], r.h, d + 1) IN
            IF Bad(v.s) THEN v.s ELSE [v.s EXCEPT !.cv[key] = v.v, !.cing[key] = FALSE]

\* resolveService: local lookup, else split at the dot and recurse into the include
ResolveSvc(prog, s, m, ref, d) ==
  IF ref.q = "" THEN
       IF SDefd(prog, Key(m, ref.n))
       THEN [s |-> LinkSvc(prog, s, Key(m, ref.n), d + 1), key |-> Key(m, ref.n)]
       ELSE [s |-> Fail(s, "reference"), key |-> <<"", "">>]
  ELSE IF SLocalDot(prog, m, ref)                    \* the whole dotted name is a local service
       THEN [s |-> LinkSvc(prog, s, Key(m, Dot(ref.q, ref.n)), d + 1), key |-> Key(m, Dot(ref.q, ref.n))]
  ELSE IF ref.q \in prog.inc[m] THEN ResolveSvc(prog, s, ref.q, Bare(ref.n), d + 1)
       ELSE [s |-> Fail(s, "reference"), key |-> <<"", "">>]

\* ServiceSpec.Link
LinkSvc(prog, s0, key, d) ==
  LET s == Deep(s0, d) IN
  IF Bad(s) THEN s
  ELSE IF d > Fuel THEN Overflow(s)
  ELSE IF s.sl[key] THEN (IF Repaired /\ s.sing[key] THEN Fail(s, "servicecycle") ELSE s)
  ELSE LET s1 == [s EXCEPT !.sl[key] = TRUE, !.sing[key] = TRUE]
           def == prog.sv[key] IN
       IF def.par.q = "none" THEN [s1 EXCEPT !.sing[key] = FALSE]
       ELSE LET r == ResolveSvc(prog, s1, ModOf(key), def.par, d) IN
            IF Bad(r.s) THEN r.s ELSE [r.s EXCEPT !.par[key] = r.key, !.sing[key] = FALSE]

---------------------------------------------------------------------------
(* findTypeCycles for a typedef: follow linked targets; structs break the chain *)
TargetKey(prog, key) ==      \* the entity a typedef's target denotes, or <<"","">> for a base type
  LET ref == prog.ty[key].tgt m == ModOf(key) IN
  LET r == IF ref.q = "list" THEN ElemRef(ref) ELSE ref IN          \* the cycle walk goes into containers
  IF r.q = "base" THEN <<"", "">> ELSE IF r.q = "" THEN Key(m, r.n)
  ELSE IF TLocalDot(prog, m, r) THEN Key(m, Dot(r.q, r.n)) ELSE Key(r.q, r.n)

RECURSIVE TdChainCycles(_, _, _)
TdChainCycles(prog, key, seen) ==
  IF key = <<"", "">> \/ ~TDefd(prog, key) \/ prog.ty[key].k # "td" THEN FALSE
  ELSE IF key \in seen THEN TRUE
  ELSE TdChainCycles(prog, TargetKey(prog, key), seen \cup {key})

\* generator-side recursion over service parents (gen: addService / buildService walk Parent)
RECURSIVE ParentDepth(_, _, _)
ParentDepth(s, key, d) ==
  IF d > Cardinality(DOMAIN s.par) + 1 THEN d
  ELSE IF s.par[key] = <<"", "">> THEN d ELSE ParentDepth(s, s.par[key], d + 1)

---------------------------------------------------------------------------
(* compiler.link for one module as a sequence of steps; a step is <<kind, key>> *)
StepsOf(prog, m, phase) ==
  CASE phase = "types"  -> { <<"type", k>>     : k \in { x \in TKeysOf(prog) : ModOf(x) = m /\ TDefd(prog, x) } }
    [] phase = "consts" -> { <<"constant", k>> : k \in { x \in CKeysOf(prog) : ModOf(x) = m /\ CDefd(prog, x) } }
    [] phase = "svcs"   -> { <<"service", k>>  : k \in { x \in SKeysOf(prog) : ModOf(x) = m /\ SDefd(prog, x) } }
    [] OTHER -> {}

RunStep(prog, s, step) ==
  CASE step[1] = "type"     -> LinkType(prog, s, step[2], 0)
    [] step[1] = "constant" -> LinkConst(prog, s, step[2], 0)
    [] step[1] = "service"  -> LinkSvc(prog, s, step[2], 0)

\* the cycle pass at the end of link(m)
CyclePass(prog, s, m) ==
  IF Bad(s) THEN s
  ELSE IF \E k \in TKeysOf(prog) : ModOf(k) = m /\ TDefd(prog, k) /\ prog.ty[k].k = "td" /\ TdChainCycles(prog, k, {})
       THEN Fail(s, "typecycle") ELSE s

\* run a whole recorded order (used by the trace spec): the steps in sequence, a cycle
\* pass per loaded module at the end.
RECURSIVE RunOrder(_, _, _)
RunOrder(prog, s, order) ==
  IF order = <<>> THEN s ELSE RunOrder(prog, RunStep(prog, s, Head(order)), Tail(order))

RECURSIVE CycleAll(_, _, _)
CycleAll(prog, s, ms) ==
  IF ms = {} THEN s ELSE LET m == CHOOSE x \in ms : TRUE IN CycleAll(prog, CyclePass(prog, s, m), ms \ {m})

Compile(prog, order) == CycleAll(prog, RunOrder(prog, InitStore(prog), order), Loaded(prog))

---------------------------------------------------------------------------
(* Denote: the order-free meaning of a program (Thrift scoping), against    *)
(* which every linking order is judged.                                     *)
RECURSIVE RefKeyOK(_, _, _)
RefKeyOK(prog, m, ref) ==
  \/ ref.q \in {"base", "none"}
  \/ ref.q = "list" /\ RefKeyOK(prog, m, ElemRef(ref))
  \/ ref.q = "" /\ TDefd(prog, Key(m, ref.n))
  \/ ref.q # "list" /\ TLocalDot(prog, m, ref)
  \/ ref.q \notin {"", "base", "none", "list"} /\ ref.q \in prog.inc[m] /\ TDefd(prog, Key(ref.q, ref.n))
\* a local definition whose name is the whole dotted text hides the included one
RefKey(prog, m, ref) == IF ref.q = "" THEN Key(m, ref.n)
                        ELSE IF TLocalDot(prog, m, ref) THEN Key(m, Dot(ref.q, ref.n)) ELSE Key(ref.q, ref.n)

\* ultimate non-typedef target of a type reference (assumes refs resolve and no typedef cycle)
RECURSIVE TrueRootRef(_, _, _, _)
TrueRootRef(prog, m, ref, fuel) ==
  IF ref.q = "base" THEN [k |-> "base", key |-> <<"", "">>, n |-> ref.n]
  ELSE IF ref.q = "list" THEN [k |-> "list", key |-> <<"", "">>, n |-> "", e |-> IF fuel = 0 THEN [k |-> "nil", key |-> <<"", "">>, n |-> ""]
                                                                                 ELSE TrueRootRef(prog, m, ElemRef(ref), fuel - 1)]
  ELSE LET key == RefKey(prog, m, ref) IN
       IF fuel = 0 \/ ~TDefd(prog, key) THEN [k |-> "nil", key |-> <<"", "">>, n |-> ""]
       ELSE IF prog.ty[key].k = "td" THEN TrueRootRef(prog, ModOf(key), prog.ty[key].tgt, fuel - 1)
       ELSE [k |-> "ent", key |-> key, n |-> ""]
TrueRoot(prog, key) == TrueRootRef(prog, ModOf(key), prog.ty[key].tgt, 8)

\* DKind: the kind of typed value that constant expression v, written in module m,
\* denotes when declared with the type whose root is rt; "bad" if it is not a value of
\* that type (or is defined in terms of itself).  A reference to a constant denotes that
\* constant's own typed value, which must again be a value of the requested type.
KBad == <<"bad", <<"", "">> >>
KInt == <<"int", <<"", "">> >>
KStr == <<"str", <<"", "">> >>
IsEnumRoot(prog, rt)   == rt.k = "ent" /\ prog.ty[rt.key].k = "en"
IsStructRoot(prog, rt) == rt.k = "ent" /\ prog.ty[rt.key].k = "st"

RECURSIVE Recast(_, _, _)
Recast(prog, kd, rt) ==
  CASE kd[1] = "list"   -> IF rt.k # "list" THEN KBad
                           ELSE LET ek == Recast(prog, kd[2], rt.e) IN IF ek = KBad THEN KBad ELSE <<"list", ek>>
    [] kd[1] = "int"    -> IF rt.k = "base" /\ rt.n = "i32" THEN KInt
                           ELSE IF IsEnumRoot(prog, rt) THEN <<"item", rt.key>> ELSE KBad
    [] kd[1] = "str"    -> IF rt.k = "base" /\ rt.n = "string" THEN KStr ELSE KBad
    [] kd[1] = "item"   -> IF rt.k = "ent" /\ rt.key = kd[2] THEN kd ELSE KBad
    [] kd[1] = "struct" -> IF rt.k = "ent" /\ rt.key = kd[2] THEN kd ELSE KBad
    [] OTHER -> KBad

RECURSIVE DKind(_, _, _, _, _)
DKind(prog, m, v, rt, fuel) ==
  IF fuel = 0 THEN KBad                                          \* defined in terms of itself
  ELSE
  CASE v.k = "int"  -> Recast(prog, KInt, rt)
    [] v.k = "str"  -> Recast(prog, KStr, rt)
    [] v.k = "struct" ->                                      \* a literal that gives the field: {"f": fv}
         IF ~IsStructRoot(prog, rt) THEN KBad
         ELSE LET sdef == prog.ty[rt.key]  sm == ModOf(rt.key)
                  fk == DKind(prog, m, v.fv, TrueRootRef(prog, sm, sdef.fty, 8), fuel - 1)
              IN IF fk = KBad THEN KBad ELSE <<"struct", rt.key>>
    [] v.k \in {"map", "emap"} ->
         IF ~IsStructRoot(prog, rt) THEN KBad
         ELSE LET sdef == prog.ty[rt.key]  sm == ModOf(rt.key)
                  frt == TrueRootRef(prog, sm, sdef.fty, 8)
                  fk == IF v.k = "map" THEN DKind(prog, m, CInt, frt, fuel - 1)
                        ELSE IF sdef.dfl.k = "none" THEN KInt          \* unset optional field: fine
                        ELSE DKind(prog, sm, sdef.dfl, frt, fuel - 1)  \* the default belongs to the struct's file
              IN IF fk = KBad THEN KBad ELSE <<"struct", rt.key>>
    [] v.k = "list" ->
         IF rt.k # "list" THEN KBad
         ELSE LET ek == DKind(prog, m, v.fv, rt.e, fuel - 1) IN IF ek = KBad THEN KBad ELSE <<"list", ek>>
    [] v.k = "ref"  ->
         IF v.q = "" THEN
              IF ~CDefd(prog, Key(m, v.n)) THEN KBad
              ELSE LET c == prog.co[Key(m, v.n)]
                       own == IF RefKeyOK(prog, m, c.ty) THEN DKind(prog, m, c.val, TrueRootRef(prog, m, c.ty, 8), fuel - 1) ELSE KBad
                   IN IF own = KBad THEN KBad ELSE Recast(prog, own, rt)
         ELSE IF CLocalDot(prog, m, v.q, v.n) THEN
              LET c == prog.co[Key(m, Dot(v.q, v.n))]
                  own == IF RefKeyOK(prog, m, c.ty) THEN DKind(prog, m, c.val, TrueRootRef(prog, m, c.ty, 8), fuel - 1) ELSE KBad
              IN IF own = KBad THEN KBad ELSE Recast(prog, own, rt)
         ELSE IF TDefd(prog, Key(m, v.q)) /\ prog.ty[Key(m, v.q)].k = "en"
              THEN (IF v.n = "I" THEN Recast(prog, <<"item", Key(m, v.q)>>, rt) ELSE KBad)
              ELSE IF ~(v.q \in prog.inc[m] /\ CDefd(prog, Key(v.q, v.n))) THEN KBad
              ELSE LET c == prog.co[Key(v.q, v.n)]
                       own == IF RefKeyOK(prog, v.q, c.ty) THEN DKind(prog, v.q, c.val, TrueRootRef(prog, v.q, c.ty, 8), fuel - 1) ELSE KBad
                   IN IF own = KBad THEN KBad ELSE Recast(prog, own, rt)
    [] OTHER -> KBad

DCast(prog, m, v, rt, fuel) == DKind(prog, m, v, rt, fuel) # KBad

SvcParentKey(prog, m, par) == IF par.q = "" THEN Key(m, par.n)
                              ELSE IF SLocalDot(prog, m, par) THEN Key(m, Dot(par.q, par.n)) ELSE Key(par.q, par.n)
RECURSIVE SvcChainOK(_, _, _)
SvcChainOK(prog, key, seen) ==
  IF key \in seen THEN FALSE
  ELSE LET par == prog.sv[key].par m == ModOf(key) IN
       IF par.q = "none" THEN TRUE
       ELSE LET pk == SvcParentKey(prog, m, par) IN
            /\ (par.q = "" \/ SLocalDot(prog, m, par) \/ par.q \in prog.inc[m])
            /\ SDefd(prog, pk)
            /\ SvcChainOK(prog, pk, seen \cup {key})

Denote(prog) ==
  LET L == Loaded(prog)
      tks == { k \in TKeysOf(prog) : ModOf(k) \in L /\ TDefd(prog, k) }
      cks == { k \in CKeysOf(prog) : ModOf(k) \in L /\ CDefd(prog, k) }
      sks == { k \in SKeysOf(prog) : ModOf(k) \in L /\ SDefd(prog, k) }
      refsOK == /\ \A k \in tks : LET d == prog.ty[k] IN
                      CASE d.k = "td" -> RefKeyOK(prog, ModOf(k), d.tgt)
                        [] d.k = "st" -> RefKeyOK(prog, ModOf(k), d.fty)
                        [] OTHER -> TRUE
                /\ \A k \in cks : RefKeyOK(prog, ModOf(k), prog.co[k].ty)
      noTdCycle == \A k \in tks : prog.ty[k].k = "td" => ~TdChainCycles(prog, k, {})
      castsOK == /\ \A k \in cks : DCast(prog, ModOf(k), prog.co[k].val,
                                         TrueRootRef(prog, ModOf(k), prog.co[k].ty, 8), 8)
                 /\ \A k \in tks : (prog.ty[k].k = "st" /\ prog.ty[k].dfl.k # "none") =>
                                     DCast(prog, ModOf(k), prog.ty[k].dfl,
                                           TrueRootRef(prog, ModOf(k), prog.ty[k].fty, 8), 8)
      svcsOK == \A k \in sks : SvcChainOK(prog, k, {})
      ok == refsOK /\ noTdCycle /\ castsOK /\ svcsOK
  IN [ ok |-> ok,
       parents |-> [ k \in sks |-> IF ~ok \/ prog.sv[k].par.q = "none" THEN <<"", "">> ELSE SvcParentKey(prog, ModOf(k), prog.sv[k].par) ],
       roots |-> [ k \in { x \in tks : prog.ty[x].k = "td" } |-> IF ok THEN TrueRoot(prog, k) ELSE [k |-> "nil", key |-> <<"", "">>, n |-> ""] ] ]

\* projection of a store root handle for comparison with Denote
ProjRoot(h) == [k |-> h.k, key |-> h.key, n |-> h.n]
\* a list root is compared together with the root of its element type
RECURSIVE ProjRootS(_, _, _)
ProjRootS(prog, s, h) == IF h.k = "list" THEN [k |-> "list", key |-> <<"", "">>, n |-> "", e |-> ProjRootS(prog, s, RootOf(prog, s, h.e))]
                         ELSE ProjRoot(h)

---------------------------------------------------------------------------
(* All final stores over every schedule of compiler.link (the state space of *)
(* MCLinker as one operator; used by the trace spec for natural-order runs   *)
(* and to recognise the known order-dependence hazard).                       *)
NextPhaseOf(ph) == CASE ph = "types" -> "consts" [] ph = "consts" -> "svcs" [] ph = "svcs" -> "cycles"
WalkOrderOf(prog) == IF "b" \in Loaded(prog) THEN <<"a", "b">> ELSE <<"a">>

RECURSIVE Finals(_, _, _, _, _)
Finals(prog, s, ms, ph, todo) ==
  IF Bad(s) THEN {s}
  ELSE IF ph = "cycles" THEN
         LET s2 == CyclePass(prog, s, Head(ms)) IN
         IF Bad(s2) \/ Len(ms) = 1 THEN {s2}
         ELSE Finals(prog, s2, Tail(ms), "types", StepsOf(prog, Head(Tail(ms)), "types"))
  ELSE IF todo = {} THEN Finals(prog, s, ms, NextPhaseOf(ph), StepsOf(prog, Head(ms), NextPhaseOf(ph)))
  ELSE UNION { Finals(prog, RunStep(prog, s, e), ms, ph, todo \ {e}) : e \in todo }

AllFinals(prog) == Finals(prog, InitStore(prog), WalkOrderOf(prog), "types", StepsOf(prog, "a", "types"))

---------------------------------------------------------------------------
(* Reference graph of a program: which entity mentions which.  Programs whose *)
(* graph has a cycle are the ones where a Link call can reach an entity whose  *)
(* own Link is still on the stack (the linkOnce early return), i.e. where the  *)
(* result can depend on the order; the quick tier always replays them.         *)
RefTargets(prog, m, ref) == LET r == IF ref.q = "list" THEN ElemRef(ref) ELSE ref IN
                            IF r.q \in {"base", "none"} THEN {} ELSE {<<"t", RefKey(prog, m, r)>>}
RECURSIVE CValTargets(_, _, _)
CValTargets(prog, m, v) == IF v.k \in {"list", "struct"} THEN CValTargets(prog, m, v.fv) ELSE IF v.k # "ref" THEN {}
                     ELSE IF v.q = "" THEN {<<"c", Key(m, v.n)>>}
                     ELSE IF CLocalDot(prog, m, v.q, v.n) THEN {<<"c", Key(m, Dot(v.q, v.n))>>}
                     ELSE {<<"c", Key(v.q, v.n)>>, <<"t", Key(m, v.q)>>}
Succs(prog, node) ==
  LET kd == node[1] key == node[2] m == ModOf(key) IN
  CASE kd = "t" /\ TDefd(prog, key) ->
         LET d == prog.ty[key] IN
         CASE d.k = "td" -> RefTargets(prog, m, d.tgt)
           [] d.k = "st" -> RefTargets(prog, m, d.fty) \cup CValTargets(prog, m, d.dfl)
           [] OTHER -> {}
    [] kd = "c" /\ CDefd(prog, key) -> RefTargets(prog, m, prog.co[key].ty) \cup CValTargets(prog, m, prog.co[key].val)
    [] kd = "s" /\ SDefd(prog, key) ->
         LET par == prog.sv[key].par IN
         IF par.q = "none" THEN {} ELSE {<<"s", SvcParentKey(prog, m, par)>>}
    [] OTHER -> {}
Nodes(prog) == { <<"t", k>> : k \in TKeysOf(prog) } \cup { <<"c", k>> : k \in CKeysOf(prog) } \cup { <<"s", k>> : k \in SKeysOf(prog) }
RECURSIVE ReachN(_, _, _)
ReachN(prog, frontier, seen) ==
  IF frontier \subseteq seen THEN seen
  ELSE ReachN(prog, UNION { Succs(prog, x) : x \in frontier }, seen \cup frontier)
HasRefCycle(prog) == \E x \in Nodes(prog) : x \in ReachN(prog, Succs(prog, x), {})

=============================================================================
