-------------------------------- MODULE Break --------------------------------
(***************************************************************************)
(* thriftbreak (C20): cmd/thriftbreak/main.go, internal/git/git.go           *)
(* (findChangedThrift: the .thrift files that differ between HEAD~ and HEAD;   *)
(* a deleted file is compared against an empty module), internal/compare/      *)
(* compare.go (CompareModules, service, function, typ, structSpecs).           *)
(*                                                                         *)
(* A program version is a function from file paths to file contents           *)
(*   [structs : name -> sequence of fields [id, name, ty, req],                 *)
(*    services : name -> set of method names]      (absent files: not in DOMAIN) *)
(* A diagnostic is <<file, message>>; messages are built as strings exactly as   *)
(* the tool prints them.                                                         *)
(***************************************************************************)
EXTENDS Integers, Sequences, FiniteSets, TLC

Q(s) == "\"" \o s \o "\""

MsgDeleteService(svc)        == "deleting service " \o Q(svc)
MsgRemoveMethod(m, svc)      == "removing method " \o Q(m) \o " in service " \o Q(svc)
MsgAddRequired(f, st)        == "adding a required field " \o Q(f) \o " to " \o Q(st)
MsgOptToReq(f, st)           == "changing an optional field " \o Q(f) \o " in " \o Q(st) \o " to required"
MsgChangeType(f, st, t1, t2) == "changing type of field " \o Q(f) \o " in struct " \o Q(st) \o " from " \o Q(t1) \o " to " \o Q(t2)

Files(P) == DOMAIN P
Changed(old, new) == { f \in Files(old) : f \notin Files(new) \/ new[f] # old[f] }      \* Modify or Delete (new files are not compared)
EmptyFile == [structs |-> << >>, services |-> << >>]
NewOf(new, f) == IF f \in Files(new) THEN new[f] ELSE EmptyFile

FieldWithId(fs, id) == LET hit == { i \in 1..Len(fs) : fs[i].id = id } IN fs[CHOOSE i \in hit : TRUE]
HasId(fs, id) == \E i \in 1..Len(fs) : fs[i].id = id

---------------------------------------------------------------------------
(* the property, stated declaratively *)
SpecDiag(old, new) ==
  UNION { LET o == old[f] n == NewOf(new, f) IN
    { <<f, MsgDeleteService(s)>> : s \in { x \in DOMAIN o.services : x \notin DOMAIN n.services } }
    \cup UNION { { <<f, MsgRemoveMethod(m, s)>> : m \in o.services[s] \ n.services[s] } : s \in DOMAIN o.services \cap DOMAIN n.services }
    \cup UNION { LET of == o.structs[st] nf == n.structs[st] IN
                 { <<f, MsgAddRequired(nf[i].name, st)>> : i \in { j \in 1..Len(nf) : ~HasId(of, nf[j].id) /\ nf[j].req } }
                 \cup { <<f, MsgOptToReq(nf[i].name, st)>> : i \in { j \in 1..Len(nf) : HasId(of, nf[j].id) /\ ~FieldWithId(of, nf[j].id).req /\ nf[j].req } }
                 \cup { <<f, MsgChangeType(nf[i].name, st, FieldWithId(of, nf[i].id).ty, nf[i].ty)>> :
                          i \in { j \in 1..Len(nf) : HasId(of, nf[j].id) /\ FieldWithId(of, nf[j].id).ty # nf[j].ty } }
               : st \in DOMAIN o.structs \cap DOMAIN n.structs }
    : f \in Changed(old, new) }

---------------------------------------------------------------------------
(* the tool as written: per changed file, CompareModules(from, to) *)
\* BaseName: what filepath.Base yields (deleted services); MethodFile: the file a removed method is
\* attributed to (the pinned code made the path relative twice: fixed by 9ec733b)
AlgoDiag(old, new, BaseName(_), MethodFile(_)) ==
  UNION { LET o == old[f] n == NewOf(new, f) IN
    \* for name, fromService := range from.Services { p.service(fromService, to.Services[name]) }
    UNION { IF s \notin DOMAIN n.services
            THEN { <<BaseName(f), MsgDeleteService(s)>> }                         \* FilePath: filepath.Base(from.File)
            ELSE { <<MethodFile(f), MsgRemoveMethod(m, s)>> : m \in { x \in o.services[s] : x \notin n.services[s] } }
          : s \in DOMAIN o.services }
    \* for n, fromType := range from.Types { p.typ(fromType, to.Types[n], file) }
    \cup UNION { IF st \notin DOMAIN n.structs THEN {}
                 ELSE LET of == o.structs[st] nf == n.structs[st] IN
                      UNION { IF HasId(of, nf[i].id)
                              THEN (IF ~FieldWithId(of, nf[i].id).req /\ nf[i].req THEN { <<f, MsgOptToReq(nf[i].name, st)>> } ELSE {})
                                   \cup (IF FieldWithId(of, nf[i].id).ty # nf[i].ty
                                         THEN { <<f, MsgChangeType(nf[i].name, st, FieldWithId(of, nf[i].id).ty, nf[i].ty)>> } ELSE {})
                              ELSE (IF nf[i].req THEN { <<f, MsgAddRequired(nf[i].name, st)>> } ELSE {})
                            : i \in 1..Len(nf) }
               : st \in DOMAIN o.structs }
    : f \in Changed(old, new) }

\* the property modulo the recorded finding C20-deleted-service-base-name
IsDeleteMsg(m, svcs) == m \in { MsgDeleteService(s) : s \in svcs }
SpecDiagKnown(old, new, BaseName(_), svcs) ==
  { IF IsDeleteMsg(d[2], svcs) THEN << BaseName(d[1]), d[2] >> ELSE d : d \in SpecDiag(old, new) }
=============================================================================
