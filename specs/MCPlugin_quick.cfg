SPECIFICATION Spec
CONSTANTS
  Plugins = {"p1", "p2"}
  HsFaults = {"ok", "nofeature", "wrongname", "garbage", "trunc", "exitbefore"}
  GenFaults = {"ok", "exception", "trunc", "dotdot", "samepath"}
  ByeFaults = {"ok", "noreply"}
  NamesGoodbyeFailure = TRUE
  DetachesStdout = TRUE
INVARIANTS GenerateOnlyAfterGoodHandshake ExactlyOneGoodbye GoodbyeIsLast AllClosedAllReaped ExitCodeIffFailure FailureNamesPlugin OnlyFailingPluginsNamed WriteOnlyOnSuccess ProtocolAutomaton SentIsScriptDetermined NeverStuck
PROPERTY Terminates
CHECK_DEADLOCK FALSE
