SPECIFICATION Spec
CONSTANTS
  Clients = {"c1", "c2", "c3"}
  Mutex = FALSE
INVARIANT OwnReply
CHECK_DEADLOCK FALSE
