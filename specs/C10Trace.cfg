SPECIFICATION Spec
CONSTANTS
  Fuel = 24
  Repaired = TRUE
INVARIANT Done
CHECK_DEADLOCK FALSE
