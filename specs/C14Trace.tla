------------------------------ MODULE C14Trace ------------------------------
(***************************************************************************)
(* C14: equality on generated values and on wire values.                     *)
(* "equals" lines (lab): n decoded values of one generated type; eq = matrix  *)
(* of x_i.Equals(x_j); weq = matrix of wire.ValuesAreEqual(ToWire x_i,        *)
(* ToWire x_j); g = their projections; behaviour on nil receiver / argument.  *)
(* "weq" lines (driver): a pair of arbitrary wire values with                 *)
(* wire.ValuesAreEqual in both directions.                                     *)
(* The independent comparison is structural equality of the logical values     *)
(* (lists by position, sets and maps as sets, doubles numerically).            *)
(***************************************************************************)
EXTENDS TraceBase, GoShape, Equals

VARIABLES l, bad, drift

\* structural equality of logical values with numeric comparison of doubles
RECURSIVE EqN(_, _)
EqN(a, b) ==
  IF a.k # b.k THEN FALSE
  ELSE CASE a.k = "dbl" -> DoubleEq(a.l, b.l)
         [] a.k = "list" -> Len(a.e) = Len(b.e) /\ \A i \in 1..Len(a.e) : EqN(a.e[i], b.e[i])
         [] a.k = "set"  -> /\ \A i \in 1..Len(a.e) : \E j \in 1..Len(b.e) : EqN(a.e[i], b.e[j])
                            /\ \A j \in 1..Len(b.e) : \E i \in 1..Len(a.e) : EqN(a.e[i], b.e[j])
         [] a.k = "map"  -> /\ \A i \in 1..Len(a.m) : \E j \in 1..Len(b.m) : EqN(a.m[i].k, b.m[j].k) /\ EqN(a.m[i].v, b.m[j].v)
                            /\ \A j \in 1..Len(b.m) : \E i \in 1..Len(a.m) : EqN(a.m[i].k, b.m[j].k) /\ EqN(a.m[i].v, b.m[j].v)
         [] a.k = "struct" -> /\ Len(a.f) = Len(b.f)
                              /\ \A i \in 1..Len(a.f) : a.f[i].n = b.f[i].n /\ EqN(a.f[i].v, b.f[i].v)
         [] OTHER -> a = b

RECURSIVE NaNFree(_)
NaNFree(v) ==
  CASE v.k = "dbl" -> ~IsNaNL(v.l)
    [] v.k \in {"list", "set"} -> \A i \in 1..Len(v.e) : NaNFree(v.e[i])
    [] v.k = "map" -> \A i \in 1..Len(v.m) : NaNFree(v.m[i].k) /\ NaNFree(v.m[i].v)
    [] v.k = "struct" -> \A i \in 1..Len(v.f) : NaNFree(v.f[i].v)
    [] OTHER -> TRUE

TF(bv) == IF bv THEN "true" ELSE "false"

ChecksLab(e) ==
  LET S == e.case.S  t == Ref(e.case.tn)
      L == [ i \in 1..e.n |-> FromGo(S, t, e.g[i]) ]
      ok == e.decoded /\ \A i \in 1..e.n : L[i] # Bad /\ NaNFree(L[i])
  IN { <<"no-panic", e.panic = "" /\ e.known>>,
       <<"cases-decode", e.decoded>>,
       <<"never-panics-on-nil", e.decoded => (e.nilarg = "false" /\ e.nilrecv = "false" /\ e.nilnil # "panic")>>,
       <<"equals-iff-structurally-equal", ok => \A i, j \in 1..e.n : e.eq[i][j] = TF(EqN(L[i], L[j]))>>,
       <<"equals-iff-wire-forms-equal", ok => \A i, j \in 1..e.n : e.eq[i][j] = e.weq[i][j]>>,
       <<"reflexive", ok => \A i \in 1..e.n : e.eq[i][i] = "true">>,
       <<"symmetric", ok => \A i, j \in 1..e.n : e.eq[i][j] = e.eq[j][i]>>,
       <<"transitive", ok => \A i, j, k \in 1..e.n : (e.eq[i][j] = "true" /\ e.eq[j][k] = "true") => e.eq[i][k] = "true">> }

ChecksWire(e) ==
  LET dom == WellTyped(e.a) /\ WellTyped(e.b) /\ Decodable(e.a) /\ Decodable(e.b) IN
  { <<"no-panic", e.panic = "">>,
    <<"wire-equality-iff-structural", dom => (e.ab = TF(Structural(e.a, e.b)) /\ e.ba = TF(Structural(e.b, e.a)))>>,
    <<"wire-equality-reflexive", (WellTyped(e.a) /\ Decodable(e.a)) => e.aa = "true">> }
ConfWire(e) == { <<"model-values-are-equal", e.ab = TF(WireEq(e.a, e.b)) /\ e.ba = TF(WireEq(e.b, e.a))>> }

Init == l = 1 /\ bad = {} /\ drift = {}
Next == /\ l <= Len(Trace)
        /\ l' = l + 1
        /\ LET e == Trace[l] IN
           /\ bad' = bad \cup Tag(l, Failed(IF e.op = "weq" THEN ChecksWire(e) ELSE ChecksLab(e)))
           /\ drift' = drift \cup Tag(l, Failed(IF e.op = "weq" THEN ConfWire(e) ELSE {}))
Spec == Init /\ [][Next]_<<l, bad, drift>>
Done == l = Len(Trace) + 1 => WriteVerdict(Len(Trace), bad, drift)
=============================================================================
