CONSTANTS
  MaxElems = 3
  Deep = TRUE
  AllocThreshold = 1048576
INIT GenInit
NEXT GenNext
CHECK_DEADLOCK FALSE
