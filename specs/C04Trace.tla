------------------------------ MODULE C04Trace ------------------------------
(***************************************************************************)
(* C04: the value-based and the streaming path of generated code on the same *)
(* bytes (arbitrary, mutated, evolved-schema inputs).  One line per input:    *)
(*   fw = Decode + FromWire; sd = Decode(stream.Reader) per segmentation      *)
(*   tw / se = both serializers applied to whatever decoded                    *)
(* bad   <- the property: never different values; value-path acceptance        *)
(*          implies stream-path acceptance with an equal result; independence  *)
(*          of segmentation; serializers both fail or agree                     *)
(* drift <- the two machines of GenPaths.tla                                    *)
(***************************************************************************)
EXTENDS TraceBase, GoShape, GenPaths

VARIABLES l, bad, drift

T(e) == Ref(e.case.tn)
ValOf(e, r) == IF r.ok THEN FromGo(e.case.S, T(e), r.g) ELSE Bad

Checks(e) ==
  LET S == e.case.S  a == ValOf(e, e.fw) IN
  { <<"no-panic", e.panic = "" /\ e.known>>,
    <<"projection-interpretable", (e.fw.ok => a # Bad) /\ \A i \in 1..Len(e.sd) : e.sd[i].ok => ValOf(e, e.sd[i]) # Bad>>,
    <<"paths-never-differ", \A i \in 1..Len(e.sd) : (e.fw.ok /\ e.sd[i].ok) => EqL(a, ValOf(e, e.sd[i]))>>,
    <<"value-path-accepts-implies-stream-path-accepts", e.fw.ok => \A i \in 1..Len(e.sd) : e.sd[i].ok /\ EqL(a, ValOf(e, e.sd[i]))>>,
    <<"independent-of-read-segmentation", \A i, j \in 1..Len(e.sd) : e.sd[i].ok = e.sd[j].ok /\ EqL(ValOf(e, e.sd[i]), ValOf(e, e.sd[j]))>>,
    <<"serializers-both-fail-or-agree",
        /\ e.tw.ok = e.se.ok
        /\ e.tw.ok => EqL(DecRef(S, T(e), e.tw.b), DecRef(S, T(e), e.se.b))>> }

Conf(e) ==
  LET S == e.case.S IN
  { <<"model-value-path", EqL(ValOf(e, e.fw), ValuePath(S, T(e), e.case.b))>>,
    <<"model-stream-path", \A i \in 1..Len(e.sd) : EqL(ValOf(e, e.sd[i]), StreamPath(S, T(e), e.case.b))>> }

Init == l = 1 /\ bad = {} /\ drift = {}
Next == /\ l <= Len(Trace)
        /\ l' = l + 1
        /\ bad' = bad \cup Tag(l, Failed(Checks(Trace[l])))
        /\ drift' = drift \cup Tag(l, Failed(Conf(Trace[l])))
Spec == Init /\ [][Next]_<<l, bad, drift>>
Done == l = Len(Trace) + 1 => WriteVerdict(Len(Trace), bad, drift)
=============================================================================
