SPECIFICATION Spec
CONSTANTS
  MaxLen = 4
  UsePinned = FALSE
  EmitMod = 1
  EmitPick = 0
INVARIANTS UnquoteIsDenotation
CHECK_DEADLOCK FALSE
