----------------------------- MODULE MCNumeric -----------------------------
(***************************************************************************)
(* Role A for C09: the three numeric compile loops over every sequence of    *)
(* boundary literals / implicit items, strict and non-strict.                *)
(* Checked = TRUE models the tree with the range-check fix: commits; FALSE    *)
(* is the pinned tree (negative control: silent wrap-around).                 *)
(***************************************************************************)
EXTENDS Numeric, TLC

CONSTANTS Checked, MaxItems

Lits == { x.l : x \in Literals }

VARIABLES kind,      \* "enum" | "fields-strict" | "fields-nonstrict" | "const" | "enumvalue"
          run,       \* running state: prev / nextNeg
          n,         \* items processed
          last,      \* result of the last step
          lastTy,    \* type the last number must fit
          failed     \* the compile call has returned an error

vars == <<kind, run, n, last, lastTy, failed>>
NoRes == [ok |-> FALSE, stored |-> Zero, meant |-> Zero]

Init == /\ kind \in {"enum", "fields-strict", "fields-nonstrict", "const", "enumvalue"}
        /\ run = MinusOne            \* prev := -1 / nextNegativeID := -1
        /\ n = 0 /\ last = NoRes /\ lastTy = "i64" /\ failed = FALSE

EnumItem == /\ kind = "enum" /\ ~failed /\ n < MaxItems
            /\ \E explicit \in BOOLEAN, lit \in Lits :
                 LET r == EnumStep(run, explicit, lit, Checked) IN
                 /\ last' = [ok |-> r.ok, stored |-> r.stored, meant |-> r.meant]
                 /\ run' = r.prev /\ failed' = ~r.ok
            /\ lastTy' = "i32" /\ n' = n + 1 /\ UNCHANGED kind

Field == /\ kind \in {"fields-strict", "fields-nonstrict"} /\ ~failed /\ n < MaxItems
         /\ \E unset \in BOOLEAN, lit \in Lits :
              /\ (unset => kind = "fields-nonstrict")
              /\ LET r == FieldStep(run, unset, lit, kind = "fields-nonstrict", Checked) IN
                 /\ last' = [ok |-> r.ok, stored |-> r.stored, meant |-> r.meant]
                 /\ run' = r.nextNeg /\ failed' = ~r.ok
         /\ lastTy' = "i16" /\ n' = n + 1 /\ UNCHANGED kind

Const == /\ kind = "const" /\ n < 1
         /\ \E ty \in {"i8", "i16", "i32", "i64"}, lit \in Lits :
              LET r == ConstStep(ty, lit, Checked) IN
              /\ last' = r /\ lastTy' = ty /\ failed' = ~r.ok
         /\ n' = n + 1 /\ UNCHANGED <<kind, run>>

\* an integer literal where an enum value is expected (Checked = FALSE: matched after narrowing to 32 bits)
EnumValue == /\ kind = "enumvalue" /\ n < 1
             /\ \E lit \in Lits : LET r == EnumValueStep(lit, ~Checked) IN last' = r /\ failed' = ~r.ok
             /\ lastTy' = "i32" /\ n' = n + 1 /\ UNCHANGED <<kind, run>>

Next == EnumItem \/ Field \/ Const \/ EnumValue
Spec == Init /\ [][Next]_vars

\* C09: every number the compiler accepts equals the number meant by the source and fits its type
NoSilentWrap == n > 0 => NumberOK(last, lastTy)
=============================================================================
