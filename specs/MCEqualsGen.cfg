CONSTANT AllocThreshold = 1048576
