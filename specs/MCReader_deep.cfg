INIT RInit
NEXT RNext
CONSTANTS
  Alphabet = {0, 1, 2, 11, 12, 15, 255}
  MaxLen = 7
  MutAlphabet = {0}
  Types = {2, 3, 4, 6, 8, 10, 11, 12, 13, 14, 15, 1, 16}
  AllocThreshold = 2
  MutantsOn = FALSE
  MaxElems = 1
  Deep = FALSE
INVARIANTS InvCanonical InvSkipAgrees InvReadersAgree InvLinear
CHECK_DEADLOCK FALSE
