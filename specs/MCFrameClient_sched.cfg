SPECIFICATION Spec
CONSTANTS
  Clients = {"c1", "c2"}
  Mutex = FALSE
CHECK_DEADLOCK FALSE
