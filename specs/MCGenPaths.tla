------------------------------ MODULE MCGenPaths ------------------------------
(***************************************************************************)
(* Role A for C04: both decoding paths on every byte string over an alphabet *)
(* (grown by an action) that starts as a struct, for a handful of schemas     *)
(* (one per container kind and requiredness combination).                     *)
(***************************************************************************)
EXTENDS GenPaths, SequencesExt

CONSTANTS Alphabet, MaxLen

Fld(id, name, t, req, def) == [id |-> id, name |-> name, t |-> t, req |-> req, def |-> def]
TB(k) == [k |-> k]
Inner2 == [name |-> "InnerB", kind |-> "struct", items |-> <<>>, target |-> TB("i32"),
           fields |-> << Fld(1, "x", TB("bool"), TRUE, NoDef) >>]
Mk(name, kind, fields) == [name |-> name, kind |-> kind, items |-> <<>>, target |-> TB("i32"), fields |-> fields]
Schemas == <<
  << Inner2, Mk("PA1", "struct", << Fld(1, "f", TB("bool"), TRUE, NoDef), Fld(2, "g", TB("i8"), FALSE, [k |-> "int", n |-> 7]) >>) >>,
  << Inner2, Mk("PA2", "struct", << Fld(1, "f", [k |-> "list", e |-> TB("bool")], FALSE, NoDef) >>) >>,
  << Inner2, Mk("PA3", "struct", << Fld(1, "f", [k |-> "list", e |-> [k |-> "ref", n |-> "InnerB"]], TRUE, NoDef) >>) >>,
  << Inner2, Mk("PA4", "struct", << Fld(1, "f", [k |-> "set", e |-> TB("i8")], FALSE, NoDef) >>) >>,
  << Inner2, Mk("PA5", "struct", << Fld(1, "f", [k |-> "map", kt |-> TB("i8"), vt |-> TB("bool")], FALSE, NoDef) >>) >>,
  << Inner2, Mk("PA6", "union", << Fld(1, "f", TB("bool"), FALSE, NoDef), Fld(2, "g", [k |-> "ref", n |-> "InnerB"], FALSE, NoDef) >>) >>,
  << Inner2, Mk("PA7", "struct", << Fld(1, "f", [k |-> "list", e |-> [k |-> "list", e |-> TB("bool")]], FALSE, NoDef) >>) >>,
  << Inner2, Mk("PA8", "struct", << Fld(1, "f", TB("binary"), TRUE, NoDef) >>) >> >>

VARIABLES si, bs
Init == si \in 1..Len(Schemas) /\ bs = <<>>
Next == /\ Len(bs) < MaxLen
        /\ \E b \in Alphabet : bs' = Append(bs, b)
        /\ UNCHANGED si
Spec == Init /\ [][Next]_<<si, bs>>

T0 == [k |-> "ref", n |-> "PA" \o ToString(si)]
InvNeverDifferent == NeverDifferent(Schemas[si], T0, bs)
InvWireImpliesStream == WireImpliesStream(Schemas[si], T0, bs)
\* on whole, well-formed structs both agree with the reference deserializer
InvAgreeWithReference ==
  LET w == DecStrict(bs, 1, TStruct, 0, 0) IN
  (w.ok /\ w.p = Len(bs) + 1) => EqL(StreamPath(Schemas[si], T0, bs), FromWireRef(Schemas[si], T0, w.v))
=============================================================================
