SPECIFICATION Spec
CONSTANTS
  MaxEdits = 2
  BaseNameBug = TRUE
  MethodPathBug = TRUE
  EmitMod = 1
  EmitPick = 0
  MultiMod = 1
INVARIANTS ToolMatchesModuloKnown
CHECK_DEADLOCK FALSE
