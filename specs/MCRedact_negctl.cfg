SPECIFICATION Spec
CONSTANTS
  AllocThreshold = 1048576
  RawKinds = {"mapkey"}
INVARIANTS InvValid InvNoLeak InvPlainVisible InvMarkersUnique
CHECK_DEADLOCK FALSE
