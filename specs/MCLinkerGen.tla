---------------------------- MODULE MCLinkerGen ----------------------------
(* Role B: the program family of MCLinker as cases for the real compiler.    *)
EXTENDS MCLinker, Json, SequencesExt
Ser(p) == [ inc |-> [ a |-> SetToSeq(p.inc["a"]), b |-> SetToSeq(p.inc["b"]) ],
            ty |-> SetToSeq({ [key |-> k, def |-> p.ty[k]] : k \in DOMAIN p.ty }),
            co |-> SetToSeq({ [key |-> k, def |-> p.co[k]] : k \in DOMAIN p.co }),
            sv |-> SetToSeq({ [key |-> k, def |-> p.sv[k]] : k \in DOMAIN p.sv }) ]
PSeq == SetToSeq(Programs)
GenCases == [ i \in 1..Len(PSeq) |-> [ id |-> Family \o "-" \o ToString(i), cyc |-> HasRefCycle(PSeq[i]), prog |-> Ser(PSeq[i]) ] ]
ASSUME ndJsonSerialize("cases.ndjson", GenCases)
GenInit == prog = 0 /\ st = 0 /\ mods = <<>> /\ phase = "x" /\ todo = {}
GenNext == UNCHANGED vars
=============================================================================
