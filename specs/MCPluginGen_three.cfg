INIT GenInit
NEXT GenNext
CONSTANTS
  Plugins = {"p1", "p2", "p3"}
  HsFaults = {"ok", "nofeature", "wrongname", "trunc"}
  GenFaults = {"ok", "exception", "samepath"}
  ByeFaults = {"ok", "noreply"}
  NamesGoodbyeFailure = TRUE
  DetachesStdout = TRUE
CHECK_DEADLOCK FALSE
