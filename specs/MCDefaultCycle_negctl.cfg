INIT Init
NEXT Next
CONSTANTS
  MaxDepth = 2
  MaxWidth = 2
  Fuel = 12
  EmitMod = 0
  ClearsAlways = TRUE
INVARIANTS NoOverflow CycleRefused NeverRelinks
CHECK_DEADLOCK FALSE
