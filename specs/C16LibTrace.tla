----------------------------- MODULE C16LibTrace -----------------------------
(***************************************************************************)
(* C16, plugin side: recorded runs of a real plugin built with plugin.Main  *)
(* (harness/cmd/libplugin) against a hand-written host following the scripts *)
(* of PluginLib.tla.  One line per script:                                   *)
(*   case.script  = the requests the host sent (then it closed stdin)        *)
(*   case.replies = the replies PluginLib.tla says the plugin writes          *)
(*   case.st      = "stopped" (goodbye served) | "failed"                      *)
(*   replies      = what came back: envelope type, name, sequence id and the    *)
(*                  decoded answer;  exit / hung / extra (frames nobody asked for) *)
(***************************************************************************)
EXTENDS TraceBase, PluginLibBase

VARIABLES l, bad, drift

Exp(e) == e.case.replies
TyOf(kind) == IF kind = "reply" THEN 2 ELSE 3
\* the host numbers its requests 100, 101, ...; position in the script of the i-th answered request = i
Checks(e) ==
  { <<"no-panic", e.panic = "" /\ e.setup = "">>,
    <<"plugin-terminates-when-its-stdin-closes", ~e.hung>>,
    <<"one-reply-per-request-in-order",
        /\ Len(e.replies) = Len(Exp(e)) /\ e.extra = 0
        /\ \A i \in 1..Len(Exp(e)) : i <= Len(e.replies) =>
              /\ e.replies[i].ok /\ e.replies[i].name = NameOf(Exp(e)[i].to)
              /\ e.replies[i].seq = 99 + i /\ e.replies[i].ty = TyOf(Exp(e)[i].kind)>>,
    <<"handshake-answer-describes-the-plugin",
        \A i \in 1..Len(Exp(e)) : (i <= Len(e.replies) /\ Exp(e)[i].to = "hs") =>
              /\ e.replies[i].hsname = "lib" /\ e.replies[i].version = 4
              /\ e.replies[i].features = (IF e.case.gen THEN <<1>> ELSE <<>>)>>,
    <<"generate-answer-carries-the-files",
        \A i \in 1..Len(Exp(e)) : (i <= Len(e.replies) /\ Exp(e)[i].to = "gen" /\ e.case.gen) => e.replies[i].files = <<"lib/out.go">>>>,
    <<"unknown-requests-are-refused-as-unknown-methods",
        \A i \in 1..Len(Exp(e)) : (i <= Len(e.replies) /\ Exp(e)[i].kind = "exception") => e.replies[i].exc = 1>>,
    <<"goodbye-ends-the-plugin-cleanly", e.case.st = "stopped" => e.exit = 0>> }

\* conformance: a plugin whose stdin closes before a goodbye, or that is sent a frame it cannot read, reports failure
Conf(e) == { <<"model-exit-status", (e.exit = 0) = (e.case.st = "stopped")>> }

Init == l = 1 /\ bad = {} /\ drift = {}
Next == /\ l <= Len(Trace)
        /\ l' = l + 1
        /\ bad' = bad \cup Tag(l, Failed(Checks(Trace[l])))
        /\ drift' = drift \cup Tag(l, Failed(Conf(Trace[l])))
Spec == Init /\ [][Next]_<<l, bad, drift>>
Done == l = Len(Trace) + 1 => WriteVerdict(Len(Trace), bad, drift)
=============================================================================
