INIT GenInit
NEXT GenNext
CONSTANTS
  Fuel = 24
  Repaired = TRUE
  Family = "svcs"
CHECK_DEADLOCK FALSE
