------------------------------ MODULE C12Trace ------------------------------
(***************************************************************************)
(* C12: recorded executions of the envelope encoders/decoders and of both   *)
(* request APIs, judged against Envelope.tla.  One line per request:        *)
(*   env   = the envelope the client meant (absent for raw byte strings)    *)
(*   req   = the request bytes (intact = produced by the real encoder)      *)
(*   ra    = DecodeRequest + forcing + EncodeResponse                        *)
(*   st    = ReadRequest + WriteResponse per reader kind (seekable, 1-byte,  *)
(*           zero-length reads, random splits), merged when identical        *)
(*   denv  = DecodeEnveloped                                                 *)
(***************************************************************************)
EXTENDS TraceBase, Envelope

VARIABLES l, bad, drift

ReplyBody == [t |-> TStruct, f |-> << [id |-> 0, v |-> Num(TI32, 42)] >>]

IsEnv(e) == e.env.fr # "bare"
NameOK(e)    == ~IsEnv(e) \/ Len(e.env.name) >= 1
Match(e)     == ~IsEnv(e) \/ e.env.ty = e.et
ExpReply(e)  == EncEnv([fr |-> e.env.fr, name |-> IF IsEnv(e) THEN e.env.name ELSE <<>>, ty |-> 2,
                        seq |-> IF IsEnv(e) THEN e.env.seq ELSE 0, body |-> ReplyBody])

Accepted(e, r) == /\ r.ok /\ r.fr = e.env.fr /\ r.body = e.env.body
                  /\ IsEnv(e) => (r.name = e.env.name /\ r.seq = e.env.seq)
                  /\ r.replyerr = "none" /\ r.reply = ExpReply(e)

SameReq(a, b) == a.fr = b.fr /\ a.body = b.body /\ a.name = b.name /\ a.seq = b.seq /\ a.reply = b.reply

Checks(e) ==
  IF e.op = "c12enc" THEN { <<"encoder-succeeds", FALSE>> }
  ELSE
  { <<"no-panic", e.panic = "">>,
    <<"apis-agree", e.ra.ok => \A i \in 1..Len(e.st) : e.st[i].ok /\ SameReq(e.ra, e.st[i])>>,
    <<"both-ok-equal", \A i \in 1..Len(e.st) : (e.ra.ok /\ e.st[i].ok) => SameReq(e.ra, e.st[i])>>,
    <<"segmentation-independent", \A i, j \in 1..Len(e.st) :
          e.st[i].ok = e.st[j].ok /\ (e.st[i].ok => SameReq(e.st[i], e.st[j]))>> }
  \cup
  (IF Has(e, "rr") /\ e.denv.ok THEN
    { <<"client-accepts-only-replies", /\ (e.rr.ec = "none") = (ReplyClass(e.denv.ty) = "none")
                                       /\ (e.ic.ec = "none") = (ReplyClass(e.denv.ty) = "none")
                                       /\ ReplyClass(e.denv.ty) = "err" => (e.rr.ec = "err" /\ e.ic.ec = "err")>>,
      <<"client-returns-the-reply", e.denv.ty = 2 => (e.rr.seq = e.denv.seq /\ e.rr.body = e.denv.body /\ e.ic.body = e.denv.body)>>,
      <<"client-sends-a-call", e.ic.sent = ClientCall(<<109>>, ReplyBody)>>,
      <<"multiplex-routes-by-the-first-colon",
           LET r == Route(e.denv.name, { <<97>>, <<>> }) IN
           /\ e.mx.ok /\ e.mx.routed = r.ok
           /\ r.ok => (e.mx.svc = r.svc /\ e.mx.method = r.method
                       /\ e.mx.reply = ServerReplyHeader(e.denv.name, e.denv.seq, FALSE) \o Enc(ReplyBody))
           /\ ~r.ok => IsPrefix(ServerReplyHeader(e.denv.name, e.denv.seq, TRUE), e.mx.reply)
           /\ e.mcsent = ClientCall(<<83, 118, 99, 58, 109>>, ReplyBody)>>,
      <<"plugin-server-echoes", /\ e.is.ok /\ e.is.reply = ServerReplyHeader(e.denv.name, e.denv.seq, FALSE) \o Enc(ReplyBody)
                                /\ e.isf.ok /\ IsPrefix(ServerReplyHeader(e.denv.name, e.denv.seq, TRUE), e.isf.reply)>> }
   ELSE {})
  \cup
  (IF Has(e, "env") /\ e.intact THEN
    { <<"encode-exact", e.req = EncEnv(e.env)>>,
      <<"decode-enveloped-roundtrip", (IsEnv(e) /\ NameOK(e)) =>
           (e.denv.ok /\ e.denv.name = e.env.name /\ e.denv.ty = e.env.ty /\ e.denv.seq = e.env.seq /\ e.denv.body = e.env.body)>>,
      <<"stream-header-roundtrip", (IsEnv(e) /\ NameOK(e)) =>
           (e.senv.ok /\ e.senv.name = e.env.name /\ e.senv.ty = e.env.ty /\ e.senv.seq = e.env.seq /\ e.senv.body = e.env.body)>>,
      <<"accept-and-echo", (NameOK(e) /\ Match(e)) =>
           (Accepted(e, e.ra) /\ \A i \in 1..Len(e.st) : Accepted(e, e.st[i]))>>,
      <<"reject-wrong-type", (NameOK(e) /\ ~Match(e)) =>
           (~e.ra.ok /\ \A i \in 1..Len(e.st) : ~e.st[i].ok)>> }
   ELSE {})

\* model conformance (Envelope.tla's Request)
SameModel(r, m) == /\ r.ok = m.ok /\ r.ec = m.ec
                   /\ r.ok => (r.fr = m.fr /\ r.name = m.name /\ r.seq = m.seq /\ r.body = m.body
                               /\ r.reply = Reply(m, 2, ReplyBody))
Conf(e) ==
  IF e.op = "c12enc" THEN {}
  ELSE { <<"model-decode-request", SameModel(e.ra, Request(e.req, e.et, "ra", Min2(Len(e.req))))>>,
         <<"model-read-request", \A i \in 1..Len(e.st) : SameModel(e.st[i], Request(e.req, e.et, "st", Min2(Len(e.req))))>> }

Init == l = 1 /\ bad = {} /\ drift = {}
Next == /\ l <= Len(Trace)
        /\ l' = l + 1
        /\ bad' = bad \cup Tag(l, Failed(Checks(Trace[l])))
        /\ drift' = drift \cup Tag(l, Failed(Conf(Trace[l])))
Spec == Init /\ [][Next]_<<l, bad, drift>>

Done == l = Len(Trace) + 1 => WriteVerdict(Len(Trace), bad, drift)
=============================================================================
