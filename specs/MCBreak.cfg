SPECIFICATION Spec
CONSTANTS
  MaxEdits = 2
  BaseNameBug = TRUE
  MethodPathBug = FALSE
  EmitMod = 1
  EmitPick = 0
INVARIANTS ToolMatchesModuloKnown IdenticalIsSilent
CHECK_DEADLOCK FALSE
