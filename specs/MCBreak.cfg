SPECIFICATION Spec
CONSTANTS
  MaxEdits = 2
  BaseNameBug = TRUE
  MethodPathBug = FALSE
  EmitMod = 1
  EmitPick = 0
  MultiMod = 1
INVARIANTS ToolMatchesModuloKnown IdenticalIsSilent
CHECK_DEADLOCK FALSE
