INIT GenInit
NEXT GenNext
CONSTANTS
  Names <- NamesT
  Types = {0, 1, 2, 3, 4, 5, 8, 9, 12, 17, 20, 33, 36, 64, 65, 68, 127}
  Seqs <- SeqsQ
  Expect = {1, 4}
  PeekReadFull = TRUE
  Mutate = TRUE
  AllocThreshold = 1048576
CHECK_DEADLOCK FALSE
