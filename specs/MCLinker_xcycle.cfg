SPECIFICATION Spec
CONSTANTS
  Fuel = 24
  Repaired = TRUE
  Family = "xcycle"
INVARIANTS NoOverflow ParentsFinite OutcomeCorrect RootsCorrect
CHECK_DEADLOCK FALSE
