------------------------------ MODULE C09Trace ------------------------------
(***************************************************************************)
(* C09: accepted programs are numerically well-formed.  One line per         *)
(* rendered program: c = the case (context, declared type, items = explicit   *)
(* literal or implicit/unset), ok = compile result, nums = the compiled       *)
(* numbers (field ids, enum values, constant leaves) as 64-bit limbs.         *)
(***************************************************************************)
EXTENDS TraceBase, Numeric

VARIABLES l, bad, drift

\* the numbers the source means, computed with the step functions of Numeric.tla
RECURSIVE MeantEnum(_, _, _), MeantFields(_, _, _, _)
MeantEnum(items, i, prev) ==
  IF i > Len(items) THEN <<>>
  ELSE LET r == EnumStep(prev, items[i].explicit, LimbsOf(items[i].lit), TRUE) IN
       << r >> \o MeantEnum(items, i + 1, r.prev)
MeantFields(items, i, nn, nonstrict) ==
  IF i > Len(items) THEN <<>>
  ELSE LET r == FieldStep(nn, ~items[i].explicit, LimbsOf(items[i].lit), nonstrict, TRUE) IN
       << r >> \o MeantFields(items, i + 1, r.nextNeg, nonstrict)

Steps(c) ==
  CASE c.ctx = "enum" -> MeantEnum(c.items, 1, MinusOne)
    [] c.ctx = "fields-strict" -> MeantFields(c.items, 1, MinusOne, FALSE)
    [] c.ctx = "fields-nonstrict" -> MeantFields(c.items, 1, MinusOne, TRUE)
    [] c.ctx \in {"const", "default", "list", "mapkey", "typedef-const"} -> << ConstStep(c.ty, LimbsOf(c.items[1].lit), TRUE) >>
    [] c.ctx \in {"enum-const", "enum-default", "enum-list"} -> << EnumValueStep(LimbsOf(c.items[1].lit), FALSE) >>
    \* an item of an enum written where an integer is expected (enum E { P = lit }, const ty x = E.P): not a value of that type;
    \* should it ever be accepted, the number is the item's value and has to fit the type like any other
    [] c.ctx \in {"enumitem-const", "enumitem-default", "enumitem-list"} ->
         << [ok |-> FALSE, stored |-> LimbsOf(c.items[1].lit), meant |-> LimbsOf(c.items[1].lit)] >>
    [] OTHER -> <<>>

MustReject(c) == c.ctx \in {"dup-id", "dup-name", "dup-item", "dup-item-case", "self-const", "self-const-2", "self-const-struct", "self-const-struct-2", "self-const-list", "self-service", "self-service-2", "dup-fn", "throws-typedef", "throws-struct", "throws-primitive", "oneway-result", "oneway-throws", "dup-param-id", "dup-param-name", "dup-throws-id", "union-required", "extends-struct", "extends-missing", "dup-type-name"}
NumTy(c) == IF c.ctx \in {"enum", "enum-const", "enum-default", "enum-list"} THEN "i32" ELSE IF c.ctx \in {"fields-strict", "fields-nonstrict"} THEN "i16" ELSE c.ty

Checks(e) ==
  LET st == Steps(e.c) IN
  { <<"no-panic", e.panic = "">>,
    <<"ill-formed-source-rejected", MustReject(e.c) => ~e.ok>>,
    <<"accepted-field-ids-are-unique", (e.ok /\ e.c.ctx \in {"fields-strict", "fields-nonstrict"}) =>
         \A a, b \in 1..Len(e.nums) : a # b => e.nums[a] # e.nums[b]>>,
    \* accepted => every compiled number is the number written (or implied) and fits its type
    <<"numbers-equal-source-and-in-range", (e.ok /\ ~MustReject(e.c)) =>
         /\ Len(e.nums) = Len(st)
         /\ \A i \in 1..Len(st) : e.nums[i] = st[i].meant /\ Fits(NumTy(e.c), st[i].meant)>>,
    \* an integer written where an enum value is expected names an item of exactly that value
    <<"integer-for-an-enum-is-an-item-value", (e.ok /\ e.c.ctx \in {"enum-const", "enum-default", "enum-list"}) =>
         LimbsOf(e.c.items[1].lit) \in EnumItemValues>> }

Conf(e) ==
  LET st == Steps(e.c) IN
  IF MustReject(e.c) THEN {}
  ELSE { <<"model-acceptance", e.ok = (/\ \A i \in 1..Len(st) : st[i].ok
                                        /\ (e.c.ctx \in {"fields-strict", "fields-nonstrict"} =>      \* usedIDs conflict check
                                              \A a, b \in 1..Len(st) : a # b => st[a].stored # st[b].stored))>> }

Init == l = 1 /\ bad = {} /\ drift = {}
Next == /\ l <= Len(Trace)
        /\ l' = l + 1
        /\ bad' = bad \cup Tag(l, Failed(Checks(Trace[l])))
        /\ drift' = drift \cup Tag(l, Failed(Conf(Trace[l])))
Spec == Init /\ [][Next]_<<l, bad, drift>>
Done == l = Len(Trace) + 1 => WriteVerdict(Len(Trace), bad, drift)
=============================================================================
