SPECIFICATION Spec
CONSTANTS
  Checked = FALSE
  MaxItems = 2
INVARIANT NoSilentWrap
CHECK_DEADLOCK FALSE
