--------------------------- MODULE MCEnvelopeGen ---------------------------
(* Role B for C12: the envelopes x expected types of MCEnvelope as cases.    *)
EXTENDS MCEnvelope, Json, SequencesExt
Pairs == SetToSeq(Envs \X Expect)
GenCases == [ i \in 1..Len(Pairs) |-> [ id |-> ToString(i), env |-> Pairs[i][1], et |-> Pairs[i][2] ] ]
ASSUME ndJsonSerialize("cases.ndjson", GenCases)
GenInit == env = Nil /\ req = <<>> /\ et = 0 /\ pc = "x" /\ peeked = 0 /\ eof = FALSE
GenNext == UNCHANGED vars
=============================================================================
