------------------------------ MODULE MCWire ------------------------------
(***************************************************************************)
(* Role A for C02: the StreamWriter as a small-step machine.  A value is   *)
(* chosen from the bounded universe, Writer.WriteValue turns it into the   *)
(* stream.Writer call sequence, each step performs one call and appends    *)
(* the bytes StreamWriter emits for it.  At the end the output must be the *)
(* protocol's encoding, and both readers must decode it back to the value. *)
(* Role B: the same universe is serialised as cases for the real code.     *)
(***************************************************************************)
EXTENDS Reader, TLC, Json, SequencesExt

CONSTANTS MaxElems,      \* elements/fields per container at depth 1
          Deep           \* include depth-3 values

\* representatives of every wire type used as elements of deeper containers
NestedOf(t) ==
  CASE t = TStruct -> { [t |-> TStruct, f |-> <<>>],
                        [t |-> TStruct, f |-> << [id |-> 1, v |-> Num(TI8, -1)] >>] }
    [] t = TList   -> { [t |-> TList, et |-> TI32, e |-> <<>>],
                        [t |-> TList, et |-> TI32, e |-> << Num(TI32, 16909060) >>] }
    [] t = TSet    -> { [t |-> TSet, et |-> TBinary, e |-> <<>>],
                        [t |-> TSet, et |-> TBinary, e |-> << Bin(<<255>>), Bin(<<>>) >>] }
    [] t = TMap    -> { [t |-> TMap, kt |-> TI16, vt |-> TBool, m |-> <<>>],
                        [t |-> TMap, kt |-> TI16, vt |-> TBool, m |-> << [k |-> Num(TI16, -2), v |-> Num(TBool, 1)] >>] }
    [] OTHER       -> ScalarsSmall(t)

ContainerTypes == {TStruct, TMap, TSet, TList}

ContainersOver(El(_), n) ==
  UNION { ListsOver(El(t), t, n) \cup SetsOver(El(t), t, n) : t \in ContainerTypes }
  \cup UNION { MapsOver(El(kt), El(vt), kt, vt, n) :
                 kt \in ContainerTypes \cup {TBinary, TI32}, vt \in ContainerTypes \cup {TDouble} }
  \cup StructsOver(UNION { El(t) : t \in ContainerTypes }, n, {1, -1})

Depth2 == ContainersOver(NestedOf, 2)

\* depth 3: one more level over a few depth-2 representatives
Nested2Of(t) ==
  CASE t = TStruct -> { [t |-> TStruct, f |-> << [id |-> 2, v |-> CHOOSE x \in NestedOf(TList) : x.e # <<>>] >>] }
    [] t = TList   -> { [t |-> TList, et |-> TStruct, e |-> << CHOOSE x \in NestedOf(TStruct) : x.f # <<>> >>] }
    [] t = TSet    -> { [t |-> TSet, et |-> TMap, e |-> << CHOOSE x \in NestedOf(TMap) : x.m # <<>> >>] }
    [] t = TMap    -> { [t |-> TMap, kt |-> TSet, vt |-> TList,
                         m |-> << [k |-> CHOOSE x \in NestedOf(TSet) : x.e # <<>>, v |-> CHOOSE x \in NestedOf(TList) : x.e = <<>>] >>] }
    [] OTHER       -> ScalarsSmall(t)
Depth3 == ContainersOver(Nested2Of, 2)

Universe == AllScalars \cup Depth1(MaxElems) \cup Depth2 \cup (IF Deep THEN Depth3 ELSE {})

---------------------------------------------------------------------------
VARIABLES v, calls, outb

Init == /\ v \in Universe
        /\ calls = WriterCalls(v)
        /\ outb = <<>>

Step == /\ calls # <<>>
        /\ outb' = outb \o CallBytes(Head(calls))
        /\ calls' = Tail(calls)
        /\ UNCHANGED v

Spec == Init /\ [][Step]_<<v, calls, outb>>

TypeOK == WellTyped(v)

\* the stream writer emits exactly the protocol's bytes
WriterCorrect == calls = <<>> => outb = Enc(v)
\* at every step the output is a prefix of the final encoding
PrefixInv == outb = SubSeq(Enc(v), 1, Len(outb))

\* both readers invert the encoding, consuming exactly its length
RoundTrip == calls = <<>> =>
  LET a == DecLazy(outb, 1, v.t, 0, 0)  b == DecStrict(outb, 1, v.t, 0, 0) IN
  /\ a.ok /\ a.v = v /\ a.p = Len(outb) + 1
  /\ b.ok /\ b.v = v /\ b.p = Len(outb) + 1
  /\ \A seek \in BOOLEAN : LET s == SkipAt(outb, 1, v.t, seek, 0) IN s.ok /\ s.p = Len(outb) + 1

---------------------------------------------------------------------------
\* Role B: write the universe as cases (run with a cfg that has no behaviour spec)
CaseSeq == SetToSeq(Universe)
Cases == [ i \in 1..Len(CaseSeq) |-> [ id |-> ToString(i), v |-> CaseSeq[i], calls |-> WriterCalls(CaseSeq[i]) ] ]
WriteCases == ndJsonSerialize("cases.ndjson", Cases)
=============================================================================
