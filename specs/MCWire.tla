------------------------------ MODULE MCWire ------------------------------
(***************************************************************************)
(* Role A for C02: the StreamWriter as a small-step machine.  A value is   *)
(* chosen from the bounded universe, Writer.WriteValue turns it into the   *)
(* stream.Writer call sequence, each step performs one call and appends    *)
(* the bytes StreamWriter emits for it.  At the end the output must be the *)
(* protocol's encoding, and both readers must decode it back to the value. *)
(* Role B: the same universe is serialised as cases for the real code.     *)
(***************************************************************************)
EXTENDS WireUniverse

VARIABLES v, calls, outb

Init == /\ v \in Universe
        /\ calls = WriterCalls(v)
        /\ outb = <<>>

Step == /\ calls # <<>>
        /\ outb' = outb \o CallBytes(Head(calls))
        /\ calls' = Tail(calls)
        /\ UNCHANGED v

Spec == Init /\ [][Step]_<<v, calls, outb>>

TypeOK == WellTyped(v)

\* the stream writer emits exactly the protocol's bytes
WriterCorrect == calls = <<>> => outb = Enc(v)
\* at every step the output is a prefix of the final encoding
PrefixInv == outb = SubSeq(Enc(v), 1, Len(outb))

\* both readers invert the encoding, consuming exactly its length
RoundTrip == calls = <<>> =>
  LET a == DecLazy(outb, 1, v.t, 0, 0)  b == DecStrict(outb, 1, v.t, 0, 0) IN
  /\ a.ok /\ a.v = v /\ a.p = Len(outb) + 1
  /\ b.ok /\ b.v = v /\ b.p = Len(outb) + 1
  /\ \A seek \in BOOLEAN : LET s == SkipAt(outb, 1, v.t, seek, 0) IN s.ok /\ s.p = Len(outb) + 1

---------------------------------------------------------------------------
\* Role B: write the universe as cases (run with a cfg that has no behaviour spec)
CaseSeq == SetToSeq(Universe)
Cases == [ i \in 1..Len(CaseSeq) |-> [ id |-> ToString(i), v |-> CaseSeq[i], calls |-> WriterCalls(CaseSeq[i]) ] ]
WriteCases == ndJsonSerialize("cases.ndjson", Cases)
=============================================================================
