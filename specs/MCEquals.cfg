SPECIFICATION Spec
CONSTANTS
  MaxElems = 1
  Deep = FALSE
  AllocThreshold = 1048576
INVARIANTS Reflexive AgreesWithStructural Symmetric Transitive
CHECK_DEADLOCK FALSE
