SPECIFICATION Spec
CONSTANTS
  MaxEdits = 2
  BaseNameBug = FALSE
  MethodPathBug = FALSE
  EmitMod = 1
  EmitPick = 0
INVARIANTS ToolMatchesProperty IdenticalIsSilent
CHECK_DEADLOCK FALSE
