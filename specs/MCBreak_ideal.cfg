SPECIFICATION Spec
CONSTANTS
  MaxEdits = 2
  BaseNameBug = FALSE
  MethodPathBug = FALSE
  EmitMod = 1
  EmitPick = 0
  MultiMod = 1
INVARIANTS ToolMatchesProperty IdenticalIsSilent
CHECK_DEADLOCK FALSE
