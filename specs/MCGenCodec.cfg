SPECIFICATION Spec
CONSTANT AllocThreshold = 1048576
INVARIANTS ValuesValid WireWellTyped RoundTrip ReadersInvert
CHECK_DEADLOCK FALSE
