SPECIFICATION Spec
CONSTANTS
  Names <- NamesQ
  Types = {1, 2, 4, 5, 9, 12, 127}
  Seqs <- SeqsQ
  Expect = {1, 4}
  PeekReadFull = TRUE
  Mutate = TRUE
  AllocThreshold = 1048576
INVARIANTS RoundTrip RejectWrongType ApisAgree BothOkEqual PeekComplete
CHECK_DEADLOCK FALSE
