SPECIFICATION Spec
CONSTANTS
  Ops = {"g1", "g2"}
  Kinds = {"swriter", "writer", "sreader", "lazylist"}
  ObjsPer = 2
  Programs = {"encode", "decode-list", "stream-encode", "stream-decode"}
  DoubleClose = FALSE
INVARIANTS OneHolder NotPooledWhileHeld CleanInPool Isolated AllReturned
CHECK_DEADLOCK FALSE
