INIT GenInit
NEXT GenNext
CONSTANTS
  Plugins = {"p1", "p2"}
  HsFaults = {"ok", "nofeature", "wrongname", "garbage", "trunc", "exitbefore"}
  GenFaults = {"ok", "exception", "trunc", "dotdot", "samepath"}
  ByeFaults = {"ok", "noreply"}
  NamesGoodbyeFailure = TRUE
  DetachesStdout = TRUE
CHECK_DEADLOCK FALSE
