---------------------------- MODULE FrameClient ----------------------------
(***************************************************************************)
(* Concurrent Sends on one frame.Client (internal/frame/client.go) against  *)
(* a server that answers requests in the order it receives them.            *)
(* Send = Lock; write the request frame; read one reply frame; Unlock.      *)
(* Mutex = FALSE is the negative control (and the generator of schedules    *)
(* that the harness tries to force on the real client through the gate      *)
(* hook): without mutual exclusion a reply can go to the wrong caller.      *)
(***************************************************************************)
EXTENDS Integers, Sequences, FiniteSets, TLC

CONSTANTS Clients, Mutex

VARIABLES pc,       \* [Clients -> "idle" | "locked" | "written" | "done"]
          lock,     \* holder of the client mutex or "free"
          wire,     \* requests written so far, in order (the server echoes in this order)
          nread,    \* number of replies consumed so far
          got,      \* [Clients -> payload received or "none"]
          sched     \* history: the steps taken, <<client, step>>

vars == <<pc, lock, wire, nread, got, sched>>

Init == /\ pc = [c \in Clients |-> "idle"] /\ lock = "free" /\ wire = <<>> /\ nread = 0
        /\ got = [c \in Clients |-> "none"] /\ sched = <<>>

Lock(c) == /\ pc[c] = "idle"
           /\ (Mutex => lock = "free")
           /\ lock' = c
           /\ pc' = [pc EXCEPT ![c] = "locked"]
           /\ sched' = Append(sched, <<c, "lock">>)
           /\ UNCHANGED <<wire, nread, got>>
Write(c) == /\ pc[c] = "locked"
            /\ wire' = Append(wire, c)                      \* the payload identifies its sender
            /\ pc' = [pc EXCEPT ![c] = "written"]
            /\ sched' = Append(sched, <<c, "write">>)
            /\ UNCHANGED <<lock, nread, got>>
\* the reader hands out the next unread reply; replies come back in request order
Read(c) == /\ pc[c] = "written"
           /\ nread < Len(wire)
           /\ got' = [got EXCEPT ![c] = wire[nread + 1]]
           /\ nread' = nread + 1
           /\ pc' = [pc EXCEPT ![c] = "done"]
           /\ lock' = IF lock = c THEN "free" ELSE lock
           /\ sched' = Append(sched, <<c, "read">>)
           /\ UNCHANGED wire

Next == \E c \in Clients : Lock(c) \/ Write(c) \/ Read(c)
Spec == Init /\ [][Next]_vars

AllDone == \A c \in Clients : pc[c] = "done"
\* C18: every Send receives the response to its own request
OwnReply == \A c \in Clients : pc[c] = "done" => got[c] = c
=============================================================================
