INIT GenInit
NEXT GenNext
CONSTANTS
  Names <- NamesQ
  Types = {1, 2, 4, 5, 9, 12, 127}
  Seqs <- SeqsQ
  Expect = {1, 4}
  PeekReadFull = TRUE
  Mutate = TRUE
  AllocThreshold = 1048576
CHECK_DEADLOCK FALSE
