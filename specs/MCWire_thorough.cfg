SPECIFICATION Spec
CONSTANTS
  MaxElems = 3
  Deep = TRUE
  AllocThreshold = 1048576
INVARIANTS TypeOK WriterCorrect PrefixInv RoundTrip
CHECK_DEADLOCK FALSE
