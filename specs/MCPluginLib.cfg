SPECIFICATION Spec
CONSTANTS
  MaxRequests = 4
  StopClosesWriter = FALSE
  EmitMod = 5
INVARIANTS OneReplyPerRequest ProtocolAnswered GoodbyeEndsService EndsWhenStdinCloses EmitCase
PROPERTY Terminates
CHECK_DEADLOCK FALSE
