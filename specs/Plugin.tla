------------------------------- MODULE Plugin -------------------------------
(***************************************************************************)
(* The plugin protocol between the thriftrw host and external plugin        *)
(* processes.  Code anchors: main.go (do: Plugins.Handle, deferred Close,    *)
(* gen.Generate), internal/plugin/flag.go (Flags.Handle, Flag.Handle),       *)
(* transport.go (NewTransportHandle, transportHandle.Close,                  *)
(* serviceGenerator.Generate), multi.go (MultiHandle.Close,                  *)
(* MultiServiceGenerator.Generate), internal/process/client.go (NewClient,   *)
(* Close), internal/concurrent/range.go (Range waits for all goroutines),    *)
(* plugin/plugin.go + internal/frame/server.go (the plugin side).            *)
(*                                                                         *)
(* One host and a set of plugin processes; every plugin follows a fault      *)
(* script (one fault per protocol step).  The host side of each plugin is    *)
(* its own goroutine in each phase (concurrent.Range), so all interleavings  *)
(* of the per-plugin steps are explored.  Pipes are one-slot mailboxes       *)
(* (framing and segmentation are Frame.tla's business).                      *)
(***************************************************************************)
EXTENDS Integers, Sequences, FiniteSets, TLC

CONSTANTS Plugins,        \* set of plugin names
          HsFaults,       \* faults allowed for the handshake step
          GenFaults,      \* ... generate step
          ByeFaults,      \* ... goodbye step
          NamesGoodbyeFailure,  \* TRUE: repaired tree (goodbye errors name the plugin)
          DetachesStdout        \* TRUE: the code (stdout is detached before Wait); FALSE: negative control

\* handshake faults: "ok" "nofeature" "wrongname" "wrongversion" "exception" "garbage"
\*                   "trunc" "exitbefore" "exitafter"
\* generate faults:  "ok" "exception" "garbage" "trunc" "exit" "dotdot" "samepath"
\* goodbye faults:   "ok" "noreply" "garbage"
\* "garbageflood" (handshake) and "flood" (goodbye): the plugin answers (garbage / a proper reply), keeps writing to its
\* stdout without ever reading its stdin again and goes away only when nobody reads its stdout any more (EPIPE).  The host
\* gets rid of it because process.Client.Close detaches stdout BEFORE it waits (DetachesStdout; FALSE = negative control).

HsGood(f)    == f \in {"ok", "nofeature"}
HsFeature(f) == f = "ok"
HsReplies(f) == f \in {"ok", "nofeature", "wrongname", "wrongversion", "exception", "garbage", "garbageflood"}  \* a complete frame comes back
GenGood(f)   == f \in {"ok", "samepath"}
GenReplies(f) == f \in {"ok", "exception", "garbage", "dotdot", "samepath"}
ByeReplies(f) == f \in {"ok", "garbage", "flood"}
ByeGood(f)    == f \in {"ok", "flood"}
Lingers(f)    == f \in {"flood", "garbageflood"}

VARIABLES
  script,    \* [Plugins -> [hs, gen, bye]]  the fault script of each plugin (chosen initially)
  phase,     \* host: "open" | "closing-after-open-failure" | "gen" | "closing" | "exit"
  hpc,       \* host goroutine for plugin p in the current phase
  ppc,       \* plugin process: "unborn" | "serving" | "exited"
  toP,       \* request in flight to p:   "none" | "handshake" | "generate" | "goodbye"
  fromP,     \* reply in flight from p:   "none" | "reply" | "broken" (partial frame / garbage)
  stdinOpen, \* host still holds the write end of p's stdin
  stdoutOpen,\* plugin still holds its stdout
  waited,    \* host has reaped p
  hsRes,     \* "none" | "good" | "goodnf" | "fail"
  genRes,    \* "none" | "ok" | "fail"
  byeRes,    \* "none" | "ok" | "fail"
  hist,      \* what plugin p saw: sequence of "start" / request names / "eof" / "exit"
  sent,      \* what the host sent to p: sequence of request names
  named,     \* set of plugins named in the host's error output
  code,      \* host exit code (-1 while running)
  wrote      \* host wrote output files

vars == <<script, phase, hpc, ppc, toP, fromP, stdinOpen, stdoutOpen, waited, hsRes, genRes, byeRes, hist, sent, named, code, wrote>>

Scripts == [hs : HsFaults, gen : GenFaults, bye : ByeFaults]

Init ==
  /\ script \in [Plugins -> Scripts]
  /\ phase = "open"
  /\ hpc = [p \in Plugins |-> "spawn"]
  /\ ppc = [p \in Plugins |-> "unborn"]
  /\ toP = [p \in Plugins |-> "none"] /\ fromP = [p \in Plugins |-> "none"]
  /\ stdinOpen = [p \in Plugins |-> FALSE] /\ stdoutOpen = [p \in Plugins |-> FALSE]
  /\ waited = [p \in Plugins |-> FALSE]
  /\ hsRes = [p \in Plugins |-> "none"] /\ genRes = [p \in Plugins |-> "none"] /\ byeRes = [p \in Plugins |-> "none"]
  /\ hist = [p \in Plugins |-> <<>>] /\ sent = [p \in Plugins |-> <<>>]
  /\ named = {} /\ code = -1 /\ wrote = FALSE

---------------------------------------------------------------------------
(* Plugin processes *)

\* what the plugin does with a request, according to its script
PluginHandle(p) ==
  /\ ppc[p] = "serving" /\ toP[p] # "none"
  /\ LET r == toP[p]
         f == IF r = "handshake" THEN script[p].hs ELSE IF r = "generate" THEN script[p].gen ELSE script[p].bye
         replies == IF r = "handshake" THEN HsReplies(f) ELSE IF r = "generate" THEN GenReplies(f) ELSE ByeReplies(f)
         broken == f \in {"garbage", "garbageflood"}
     IN /\ toP' = [toP EXCEPT ![p] = "none"]
        /\ IF f = "exitbefore"                       \* dies without having read the request
           THEN /\ hist' = [hist EXCEPT ![p] = @ \o <<"exit">>]
                /\ ppc' = [ppc EXCEPT ![p] = "exited"] /\ stdoutOpen' = [stdoutOpen EXCEPT ![p] = FALSE]
                /\ UNCHANGED fromP
           ELSE IF replies
           THEN /\ fromP' = [fromP EXCEPT ![p] = IF broken THEN "broken" ELSE "reply"]
                /\ IF Lingers(f)                     \* keeps writing; gone only once the host stops reading
                   THEN /\ hist' = [hist EXCEPT ![p] = @ \o <<r>>]
                        /\ ppc' = [ppc EXCEPT ![p] = "flooding"] /\ UNCHANGED stdoutOpen
                   ELSE IF r = "goodbye"                   \* a goodbye stops the server loop after the reply
                   THEN /\ hist' = [hist EXCEPT ![p] = @ \o <<r, "exit">>]
                        /\ ppc' = [ppc EXCEPT ![p] = "exited"] /\ stdoutOpen' = [stdoutOpen EXCEPT ![p] = FALSE]
                   ELSE /\ hist' = [hist EXCEPT ![p] = @ \o <<r>>]
                        /\ UNCHANGED <<ppc, stdoutOpen>>
           ELSE \* truncated frame / exit after reading / no reply: the plugin closes stdout and exits
                /\ fromP' = [fromP EXCEPT ![p] = IF f = "trunc" THEN "broken" ELSE @]
                /\ hist' = [hist EXCEPT ![p] = @ \o <<r, "exit">>]
                /\ ppc' = [ppc EXCEPT ![p] = "exited"] /\ stdoutOpen' = [stdoutOpen EXCEPT ![p] = FALSE]
  /\ UNCHANGED <<script, phase, hpc, stdinOpen, waited, hsRes, genRes, byeRes, sent, named, code, wrote>>

\* stdin closed by the host and nothing left to read: the serve loop ends
PluginEOF(p) ==
  /\ ppc[p] = "serving" /\ toP[p] = "none" /\ ~stdinOpen[p]
  /\ hist' = [hist EXCEPT ![p] = @ \o <<"eof", "exit">>]
  /\ ppc' = [ppc EXCEPT ![p] = "exited"] /\ stdoutOpen' = [stdoutOpen EXCEPT ![p] = FALSE]
  /\ UNCHANGED <<script, phase, hpc, toP, fromP, stdinOpen, waited, hsRes, genRes, byeRes, sent, named, code, wrote>>

\* the host's end of the plugin's stdout is closed by process.Client.Close before it waits for the process
HostDetached(p) == DetachesStdout /\ hpc[p] \in {"wait", "failwait", "closed", "failed"}
\* a plugin blocked writing to a pipe nobody reads any more gets EPIPE and goes away
PluginEPIPE(p) ==
  /\ ppc[p] = "flooding" /\ HostDetached(p)
  /\ hist' = [hist EXCEPT ![p] = @ \o <<"exit">>]
  /\ ppc' = [ppc EXCEPT ![p] = "exited"] /\ stdoutOpen' = [stdoutOpen EXCEPT ![p] = FALSE]
  /\ UNCHANGED <<script, phase, hpc, toP, fromP, stdinOpen, waited, hsRes, genRes, byeRes, sent, named, code, wrote>>

---------------------------------------------------------------------------
(* Host: one goroutine per plugin in each phase *)

\* frame.Client.Send = write the request, then read one frame
Send(p, r, nextpc) ==
  /\ toP' = [toP EXCEPT ![p] = IF ppc[p] = "exited" THEN @ ELSE r]     \* a dead plugin never reads it (EPIPE or lost)
  /\ sent' = [sent EXCEPT ![p] = @ \o <<r>>]
  /\ hpc' = [hpc EXCEPT ![p] = nextpc]

\* the read side: a whole reply, a broken one, or EOF because the plugin closed its stdout
ReplyReady(p) == fromP[p] # "none" \/ (~stdoutOpen[p] /\ toP[p] = "none")
ReplyKind(p)  == IF fromP[p] = "reply" THEN "reply" ELSE "ioerror"

\* process.Client.Close: detach stdout, detach stdin, Wait (one critical section per call here:
\* closing pipes and waiting are two steps so that the plugin's EOF handling can interleave)
ClosePipes(p, nextpc) ==
  /\ stdinOpen' = [stdinOpen EXCEPT ![p] = FALSE]
  /\ hpc' = [hpc EXCEPT ![p] = nextpc]
Wait(p, nextpc) ==
  /\ ppc[p] = "exited"                                   \* cmd.Wait blocks until the process is gone
  /\ waited' = [waited EXCEPT ![p] = TRUE]
  /\ hpc' = [hpc EXCEPT ![p] = nextpc]

\* ---- phase "open": Flag.Handle
Spawn(p) ==
  /\ phase = "open" /\ hpc[p] = "spawn"
  /\ ppc' = [ppc EXCEPT ![p] = "serving"]
  /\ stdinOpen' = [stdinOpen EXCEPT ![p] = TRUE] /\ stdoutOpen' = [stdoutOpen EXCEPT ![p] = TRUE]
  /\ hist' = [hist EXCEPT ![p] = <<"start">>]
  /\ hpc' = [hpc EXCEPT ![p] = "send-hs"]
  /\ UNCHANGED <<script, phase, toP, fromP, waited, hsRes, genRes, byeRes, sent, named, code, wrote>>

SendHandshake(p) ==
  /\ phase = "open" /\ hpc[p] = "send-hs"
  /\ Send(p, "handshake", "recv-hs")
  /\ UNCHANGED <<script, phase, ppc, fromP, stdinOpen, stdoutOpen, waited, hsRes, genRes, byeRes, hist, named, code, wrote>>

RecvHandshake(p) ==
  /\ phase = "open" /\ hpc[p] = "recv-hs" /\ ReplyReady(p)
  /\ LET f == script[p].hs
         good == ReplyKind(p) = "reply" /\ HsGood(f)       \* name and API version match
     IN /\ hsRes' = [hsRes EXCEPT ![p] = IF good THEN (IF HsFeature(f) THEN "good" ELSE "goodnf") ELSE "fail"]
        /\ named' = IF good THEN named ELSE named \cup {p}   \* failed to open plugin "p": ...
        /\ hpc' = [hpc EXCEPT ![p] = IF good THEN "opened" ELSE "failclose"]
  /\ fromP' = [fromP EXCEPT ![p] = "none"]
  /\ UNCHANGED <<script, phase, ppc, toP, stdinOpen, stdoutOpen, waited, genRes, byeRes, hist, sent, code, wrote>>

\* failed handshake: transport.Close() without a goodbye
FailClose(p) ==
  /\ phase = "open" /\ hpc[p] = "failclose"
  /\ ClosePipes(p, "failwait")
  /\ UNCHANGED <<script, phase, ppc, toP, fromP, stdoutOpen, waited, hsRes, genRes, byeRes, hist, sent, named, code, wrote>>
FailWait(p) ==
  /\ phase = "open" /\ hpc[p] = "failwait"
  /\ Wait(p, "failed")
  /\ UNCHANGED <<script, phase, ppc, toP, fromP, stdinOpen, stdoutOpen, hsRes, genRes, byeRes, hist, sent, named, code, wrote>>

\* concurrent.Range returns when every goroutine has: all opened, or close the opened ones
OpenBarrier ==
  /\ phase = "open" /\ \A p \in Plugins : hpc[p] \in {"opened", "failed"}
  /\ IF \E p \in Plugins : hpc[p] = "failed"
     THEN /\ phase' = "closing-after-open-failure"
          /\ hpc' = [p \in Plugins |-> IF hpc[p] = "opened" THEN "send-bye" ELSE "closed"]
     ELSE /\ phase' = "gen"
          /\ hpc' = [p \in Plugins |-> IF hsRes[p] = "good" THEN "send-gen" ELSE "gen-skip"]
  /\ UNCHANGED <<script, ppc, toP, fromP, stdinOpen, stdoutOpen, waited, hsRes, genRes, byeRes, hist, sent, named, code, wrote>>

\* ---- phase "gen": MultiServiceGenerator.Generate
SendGenerate(p) ==
  /\ phase = "gen" /\ hpc[p] = "send-gen"
  /\ Send(p, "generate", "recv-gen")
  /\ UNCHANGED <<script, phase, ppc, fromP, stdinOpen, stdoutOpen, waited, hsRes, genRes, byeRes, hist, named, code, wrote>>

RecvGenerate(p) ==
  /\ phase = "gen" /\ hpc[p] = "recv-gen" /\ ReplyReady(p)
  /\ LET f == script[p].gen
         ok == ReplyKind(p) = "reply" /\ GenGood(f)
         \* a path used by an earlier finished plugin is a conflict (merge under the mutex)
         conflict == ok /\ f = "samepath" /\ \E q \in Plugins \ {p} : genRes[q] = "ok" /\ script[q].gen = "samepath"
     IN /\ genRes' = [genRes EXCEPT ![p] = IF ok /\ ~conflict THEN "ok" ELSE "fail"]
        /\ named' = IF ok /\ ~conflict THEN named ELSE named \cup {p}
        /\ hpc' = [hpc EXCEPT ![p] = "gen-done"]
  /\ fromP' = [fromP EXCEPT ![p] = "none"]
  /\ UNCHANGED <<script, phase, ppc, toP, stdinOpen, stdoutOpen, waited, hsRes, byeRes, hist, sent, code, wrote>>

GenBarrier ==
  /\ phase = "gen" /\ \A p \in Plugins : hpc[p] \in {"gen-done", "gen-skip"}
  /\ wrote' = (\A p \in Plugins : genRes[p] # "fail")          \* files are written only if every generator succeeded
  /\ phase' = "closing"
  /\ hpc' = [p \in Plugins |-> "send-bye"]
  /\ UNCHANGED <<script, ppc, toP, fromP, stdinOpen, stdoutOpen, waited, hsRes, genRes, byeRes, hist, sent, named, code>>

\* ---- closing: MultiHandle.Close -> transportHandle.Close: goodbye, then the transport
Closing == phase \in {"closing", "closing-after-open-failure"}

SendGoodbye(p) ==
  /\ Closing /\ hpc[p] = "send-bye"
  /\ Send(p, "goodbye", "recv-bye")
  /\ UNCHANGED <<script, phase, ppc, fromP, stdinOpen, stdoutOpen, waited, hsRes, genRes, byeRes, hist, named, code, wrote>>

RecvGoodbye(p) ==
  /\ Closing /\ hpc[p] = "recv-bye" /\ ReplyReady(p)
  /\ LET ok == ReplyKind(p) = "reply" /\ ByeGood(script[p].bye)
     IN /\ byeRes' = [byeRes EXCEPT ![p] = IF ok THEN "ok" ELSE "fail"]
        /\ named' = IF ok \/ ~NamesGoodbyeFailure THEN named ELSE named \cup {p}
  /\ fromP' = [fromP EXCEPT ![p] = "none"]
  /\ hpc' = [hpc EXCEPT ![p] = "closepipes"]
  /\ UNCHANGED <<script, phase, ppc, toP, stdinOpen, stdoutOpen, waited, hsRes, genRes, hist, sent, code, wrote>>

CloseTransport(p) ==
  /\ Closing /\ hpc[p] = "closepipes"
  /\ ClosePipes(p, "wait")
  /\ UNCHANGED <<script, phase, ppc, toP, fromP, stdoutOpen, waited, hsRes, genRes, byeRes, hist, sent, named, code, wrote>>
WaitChild(p) ==
  /\ Closing /\ hpc[p] = "wait"
  /\ Wait(p, "closed")
  /\ UNCHANGED <<script, phase, ppc, toP, fromP, stdinOpen, stdoutOpen, hsRes, genRes, byeRes, hist, sent, named, code, wrote>>

SomeFailure == \E p \in Plugins : hsRes[p] = "fail" \/ genRes[p] = "fail" \/ byeRes[p] = "fail"

HostExit ==
  /\ Closing /\ \A p \in Plugins : hpc[p] = "closed"
  /\ phase' = "exit"
  /\ code' = IF SomeFailure THEN 1 ELSE 0
  /\ UNCHANGED <<script, hpc, ppc, toP, fromP, stdinOpen, stdoutOpen, waited, hsRes, genRes, byeRes, hist, sent, named, wrote>>

Next ==
  \/ \E p \in Plugins : PluginHandle(p) \/ PluginEOF(p) \/ PluginEPIPE(p)
  \/ \E p \in Plugins : Spawn(p) \/ SendHandshake(p) \/ RecvHandshake(p) \/ FailClose(p) \/ FailWait(p)
  \/ OpenBarrier
  \/ \E p \in Plugins : SendGenerate(p) \/ RecvGenerate(p)
  \/ GenBarrier
  \/ \E p \in Plugins : SendGoodbye(p) \/ RecvGoodbye(p) \/ CloseTransport(p) \/ WaitChild(p)
  \/ HostExit

Spec == Init /\ [][Next]_vars /\ WF_vars(Next)

---------------------------------------------------------------------------
(* Properties (C16, and the plugin half of C17) *)
Count(seq, x) == Cardinality({ i \in 1..Len(seq) : seq[i] = x })
Exited == phase = "exit"
GoodHs(p) == hsRes[p] \in {"good", "goodnf"}

\* a generate request only after a handshake that returned the right name/version AND the feature
GenerateOnlyAfterGoodHandshake ==
  \A p \in Plugins : Count(sent[p], "generate") > 0 => (hsRes[p] = "good" /\ \A q \in Plugins : GoodHs(q))
\* exactly one goodbye to every plugin whose handshake succeeded, none to the others
ExactlyOneGoodbye ==
  Exited => \A p \in Plugins : Count(sent[p], "goodbye") = (IF GoodHs(p) THEN 1 ELSE 0)
GoodbyeIsLast == \A p \in Plugins : \A i \in 1..Len(sent[p]) : sent[p][i] = "goodbye" => i = Len(sent[p])
\* every started process has its pipes closed and is reaped before the host exits
AllClosedAllReaped ==
  Exited => \A p \in Plugins : ~stdinOpen[p] /\ waited[p] /\ ppc[p] = "exited"
\* the host fails iff some plugin failed, and names a failing plugin
ExitCodeIffFailure == Exited => (code # 0 <=> SomeFailure)
FailureNamesPlugin == (Exited /\ code # 0) =>
   \E p \in Plugins : p \in named /\ (hsRes[p] = "fail" \/ genRes[p] = "fail" \/ byeRes[p] = "fail")
OnlyFailingPluginsNamed == \A p \in named : hsRes[p] = "fail" \/ genRes[p] = "fail" \/ byeRes[p] = "fail"
\* C17: nothing is written unless every handshake and every generate request succeeded
WriteOnlyOnSuccess == wrote => \A p \in Plugins : GoodHs(p) /\ genRes[p] # "fail"
\* what each plugin sees is in: start (handshake (generate)* goodbye)? [eof] exit
ProtocolAutomaton ==
  \A p \in Plugins :
    LET h == hist[p] IN
    /\ Len(h) >= 1 => h[1] = "start"
    /\ \A i \in 1..Len(h) :
         /\ h[i] = "handshake" => i = 2
         /\ h[i] = "generate"  => (i >= 3 /\ h[2] = "handshake" /\ h[i-1] \in {"handshake", "generate"})
         /\ h[i] = "goodbye"   => (i >= 3 /\ h[2] = "handshake" /\ h[i-1] \in {"handshake", "generate"})
         /\ h[i] = "eof"       => (i = Len(h) - 1 /\ h[Len(h)] = "exit")
         /\ h[i] = "exit"      => i = Len(h)
\* no protocol state short of host exit is stuck (a scripted plugin cannot deadlock the host)
NeverStuck == phase # "exit" => ENABLED Next
\* the host always terminates (no deadlock against any scripted plugin): liveness
Terminates == <>(phase = "exit")

\* the history the plugin must have seen at host exit is a function of the scripts alone
ExpectedSent(p) ==
  LET allGood == \A q \in Plugins : HsGood(script[q].hs) IN
  <<"handshake">>
  \o (IF allGood /\ HsFeature(script[p].hs) THEN <<"generate">> ELSE <<>>)
  \o (IF HsGood(script[p].hs) THEN <<"goodbye">> ELSE <<>>)
SentIsScriptDetermined == Exited => \A p \in Plugins : sent[p] = ExpectedSent(p)
=============================================================================
