------------------------------- MODULE Lexer -------------------------------
(***************************************************************************)
(* Position and docstring bookkeeping of the IDL scanner and the moments at   *)
(* which the grammar reads it (C11).                                          *)
(*                                                                         *)
(* Code anchors: idl/internal/lex.rl (newline action: line, lineStart,         *)
(* linesSinceDocstring; docstring action: lastDocstring; keyword tokens         *)
(* `'struct' __` swallow the blanks and newlines that follow them; Pos();        *)
(* LastDocstring()), idl/internal/thrift.y (the empty non-terminals `pos` and    *)
(* `docstring` are reduced either with the node's first token as lookahead, or   *)
(* - in states with a single action - right after the previous token was         *)
(* shifted, before anything else is scanned).                                    *)
(*                                                                         *)
(* A document is a sequence of items:                                          *)
(*   [k |-> "sp", w]                 w blanks / tabs / carriage returns          *)
(*   [k |-> "nl"]                    a newline                                   *)
(*   [k |-> "lc", w]                 line comment, w bytes, newline not included *)
(*   [k |-> "bc", nls, w, lw]        block comment that is not a docstring:      *)
(*                                   w bytes, nls newlines, lw bytes after the   *)
(*                                   last of them                                *)
(*   [k |-> "doc", id, nls, w, lw]   docstring number id (id >= 1)               *)
(*   [k |-> "tok", kw, w, pre, post, postnode]                                   *)
(*        kw   : keyword token (swallows following sp / nl items)                *)
(*        pre  : sequence of markers [m |-> "pos" / "doc", node] reduced with     *)
(*               this token as lookahead                                         *)
(*        post : "none", or "self" / "next": a `pos` marker reduced right after   *)
(*               this token is shifted, for the node that starts at this token    *)
(*               (type references) or at the next token (a constant value after   *)
(*               '=' or ':', the parent after `extends`); postnode names it       *)
(* Marker results are collected per node: pos[node] = <<line, col>>,             *)
(* doc[node] = docstring id or 0.                                                *)
(***************************************************************************)
EXTENDS Integers, Sequences, FiniteSets, TLC

\* switches between the code as it is after the repairs (all TRUE) and as pinned
CONSTANTS FixTokNl,     \* Pos() reports the start of a token that swallowed newlines (fix)
          FixDocNl,     \* LastDocstring() does not count newlines swallowed by the lookahead keyword (fix)
          FixDocLeak    \* a docstring that is not followed directly by a documented node is dropped (fix)

---------------------------------------------------------------------------
(* The scanner's state, as the code keeps it *)
NoTok == [k |-> "tok", kw |-> FALSE, w |-> 0, pre |-> << >>, post |-> "none", postnode |-> 0]
NoTruth == [pos |-> << 0, 0 >>, doc |-> 0]
LexInit == [p |-> 0, line |-> 1, ls |-> 0, ts |-> 0, tsline |-> 1, tsls |-> 0,
            ld |-> 0, lsd |-> 0,
            \* truth, kept independently of the scanner's own counters
            tline |-> 1, tls |-> 0, tdoc |-> 0, tdn |-> 0,
            \* the token in hand whose markers have not been reduced yet (a keyword still swallowing blanks)
            pending |-> FALSE, ptok |-> NoTok, ptruth |-> NoTruth,
            pos |-> << >>, doc |-> << >>,          \* what the code records, per node
            tpos |-> << >>, tdocs |-> << >>,       \* what is true, per node
            next |-> 0]                             \* node waiting for its first token (post = "next")

Newlines(st, n, newls) ==         \* the `newline` action, n times; newls = offset after the last one
  [st EXCEPT !.line = @ + n, !.ls = newls, !.lsd = @ + n,
             !.tline = @ + n, !.tls = newls, !.tdn = @ + n]

\* Pos() as the code computes it
CodePos(st) == IF FixTokNl THEN << st.tsline, st.ts - st.tsls + 1 >>
                           ELSE << st.line,   st.ts - st.ls + 1 >>

\* LastDocstring(): result and new (ld, lsd)
DocLines(st) == IF FixDocNl THEN st.lsd - (st.line - st.tsline) ELSE st.lsd
CodeDoc(st) == IF DocLines(st) > 1 THEN 0 ELSE st.ld
AfterDoc(st) == IF DocLines(st) > 1 THEN st ELSE [st EXCEPT !.ld = 0, !.lsd = 0]

Put(f, k, v) == [ x \in (DOMAIN f) \cup {k} |-> IF x = k THEN v ELSE f[x] ]

\* reduce the markers of the token in hand, shift it, reduce its post marker
RECURSIVE FirePre(_, _, _, _)
FirePre(st, tok, i, truth) ==
  IF i > Len(tok.pre) THEN st
  ELSE LET n == tok.pre[i].node IN
       IF tok.pre[i].m = "pos"
       THEN FirePre([st EXCEPT !.pos = Put(@, n, CodePos(st)), !.tpos = Put(@, n, truth.pos)], tok, i + 1, truth)
       ELSE FirePre([AfterDoc(st) EXCEPT !.doc = Put(@, n, CodeDoc(st)), !.tdocs = Put(@, n, truth.doc)], tok, i + 1, truth)

Flush(st) ==
  IF ~st.pending THEN st
  ELSE LET tok == st.ptok
           truth == st.ptruth
           s1 == FirePre(st, tok, 1, truth)
           s2 == CASE tok.post = "self" -> [s1 EXCEPT !.pos = Put(@, tok.postnode, CodePos(s1)), !.tpos = Put(@, tok.postnode, truth.pos)]
                   [] tok.post = "next" -> [s1 EXCEPT !.pos = Put(@, tok.postnode, CodePos(s1)), !.next = tok.postnode]
                   [] OTHER -> s1
           \* the next call to Lex(): a docstring nobody asked for is forgotten (fix)
           s3 == IF FixDocLeak THEN [s2 EXCEPT !.ld = 0] ELSE s2
       IN [s3 EXCEPT !.pending = FALSE, !.ptok = NoTok, !.ptruth = NoTruth]

\* one item of the document
Step(st0, it) ==
  LET swallow == st0.pending /\ st0.ptok.kw /\ it.k \in {"sp", "nl"}
      st == IF swallow THEN st0 ELSE Flush(st0)
  IN CASE it.k = "sp"  -> [st EXCEPT !.p = @ + it.w]
       [] it.k = "nl"  -> [Newlines(st, 1, st.p + 1) EXCEPT !.p = @ + 1]
       [] it.k = "lc"  -> [st EXCEPT !.p = @ + it.w]
       [] it.k = "bc"  -> IF it.nls = 0 THEN [st EXCEPT !.p = @ + it.w]
                          ELSE [Newlines(st, it.nls, st.p + it.w - it.lw) EXCEPT !.p = @ + it.w]
       [] it.k = "doc" -> LET s1 == IF it.nls = 0 THEN [st EXCEPT !.p = @ + it.w]
                                    ELSE [Newlines(st, it.nls, st.p + it.w - it.lw) EXCEPT !.p = @ + it.w]
                          IN [s1 EXCEPT !.ld = it.id, !.lsd = 0, !.tdoc = it.id, !.tdn = 0]
       [] it.k = "tok" ->
            LET truth == [pos |-> << st.tline, st.p - st.tls + 1 >>,
                          doc |-> IF st.tdoc # 0 /\ st.tdn <= 1 THEN st.tdoc ELSE 0]
                s1 == [st EXCEPT !.ts = st.p, !.tsline = st.line, !.tsls = st.ls, !.p = @ + it.w,
                                 !.tdoc = 0,                         \* a docstring documents only what follows it directly
                                 !.tpos = IF st.next # 0 THEN Put(@, st.next, truth.pos) ELSE @,
                                 !.next = 0,
                                 !.pending = TRUE, !.ptok = it, !.ptruth = truth]
            IN IF it.kw THEN s1 ELSE Flush(s1)

RECURSIVE RunFrom(_, _, _)
RunFrom(st, items, i) == IF i > Len(items) THEN Flush(st) ELSE RunFrom(Step(st, items[i]), items, i + 1)
Run(items) == RunFrom(LexInit, items, 1)

---------------------------------------------------------------------------
(* Where Pos() points when the parser reports an error at the end of input:     *)
(* after trailing layout the scanner has forgotten the token start (ts = 0);     *)
(* the repaired scanner reports the end of the document instead.                  *)
EofPos(st, trailing) ==
  IF trailing THEN << st.line, st.p - st.ls + 1 >> ELSE CodePos(st)

---------------------------------------------------------------------------
(* Properties of a finished run *)
PosNodes(st)  == DOMAIN st.tpos
DocNodes(st)  == DOMAIN st.tdocs
PositionsTrue(st, nodes) == \A n \in nodes : n \in DOMAIN st.pos /\ st.pos[n] = st.tpos[n]
DocsTrue(st) == \A n \in DocNodes(st) : st.doc[n] = st.tdocs[n]
=============================================================================
