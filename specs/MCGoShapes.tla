----------------------------- MODULE MCGoShapes -----------------------------
(***************************************************************************)
(* Role B for C06, valid-program half: every type expression of depth <= 1      *)
(* over every base type, an enum, a struct and typedefs of each kind (typedef    *)
(* of a primitive, of an enum, of a struct, of containers, of binary, typedef of  *)
(* a typedef), in every position a value of that type can be written: a           *)
(* constant, the default of an optional / required field, no default, a redacted   *)
(* or unlogged field or parameter, and the same through one more typedef.  All of these programs are valid: the            *)
(* generator must accept them and the result must build.                            *)
(***************************************************************************)
EXTENDS Integers, Sequences, TLC, Json

CONSTANTS EmitMod, EmitPick

Leaves == {"bool", "i8", "i16", "i32", "i64", "double", "string", "binary", "E", "P", "TE", "TP", "TI", "TS", "TL", "TM", "TB", "TTP", "TSet",
           \* typedefs of typedefs of a primitive, an enum and a container: casts in generated code have to reach the end of the chain
           "TTI", "TTS", "TTE", "TTL", "TTD", "TTBo"}
Keys == {"string", "i32", "E", "TI", "TS", "TTI", "TTS"}
Leaf(n) == [k |-> "leaf", n |-> n, a |-> "", b |-> ""]
Types == { Leaf(n) : n \in Leaves }
         \cup { [k |-> "list", n |-> "", a |-> x, b |-> ""] : x \in Leaves }
         \cup { [k |-> "set", n |-> "", a |-> x, b |-> ""] : x \in Leaves \ {"P", "TP", "TTP", "TL", "TM", "TSet", "TTL"} }
         \cup { [k |-> "map", n |-> "", a |-> x, b |-> y] : x \in Keys, y \in Leaves }
Positions == {"const", "optdefault", "reqdefault", "optplain", "reqplain", "typedefconst", "typedefdefault", "param", "return",
              \* fields and parameters whose value is kept out of logs and text (go.redact / go.nolog): the code that would have
              \* rendered the value is not emitted, and neither may be what only that code needs (imports, helpers)
              "optredact", "reqredact", "optnolog", "reqnolog", "paramredact"}

\* string literals cannot be cast to binary in this dialect (compile/constant_value.go: ConstantString.Link), so a
\* type that contains binary has no constants or defaults
Bin == {"binary", "TB"}
HasBinary(t) == t.n \in Bin \/ t.a \in Bin \/ t.b \in Bin
ValuePositions == {"const", "optdefault", "reqdefault", "typedefconst", "typedefdefault", "param"}
ValidShape(p, t) == ~(p \in ValuePositions /\ HasBinary(t))

VARIABLES pos, ty
Init == pos = "" /\ ty = Leaf("bool")
Next == pos = "" /\ \E p \in Positions, t \in Types : ValidShape(p, t) /\ pos' = p /\ ty' = t
Spec == Init /\ [][Next]_<<pos, ty>>


\* the sample always holds the unlogged leaf types (few, and each needs its own support code)
Always == \/ pos \in {"optdefault", "reqdefault", "const", "typedefdefault"} /\ ty.k = "leaf"        \* every leaf type has its own literal / pointer helper
          \/ pos \in {"optredact", "reqredact", "optnolog", "reqnolog", "paramredact"} /\ ty.k = "leaf"
          \/ pos \in {"optplain", "reqplain", "param"} /\ (ty.n \in {"TTI", "TTS", "TTE", "TTL", "TTD", "TTBo"} \/ ty.a \in {"TTI", "TTS", "TTD", "TTBo"} \/ ty.b \in {"TTI", "TTS", "TTD", "TTBo"})
EmitCase == (pos # "" /\ (Always \/ TLCGet("distinct") % EmitMod = EmitPick)) => PrintT(<<"CASE", ToJson([pos |-> pos, ty |-> ty])>>)
=============================================================================
