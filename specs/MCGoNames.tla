----------------------------- MODULE MCGoNames -----------------------------
(***************************************************************************)
(* Roles A and B for C06: program shapes over an identifier pool chosen to     *)
(* collide once mapped to Go (case variants, initialisms, SCREAMING_CASE,       *)
(* leading / trailing underscores, Go keywords, names of generated methods,      *)
(* accessors and package-level declarations).                                    *)
(*   two definitions of every kind x kind x name x name                          *)
(*   struct-likes (struct, union, exception, function arguments) with two         *)
(*   fields of every name x name x optionality                                    *)
(*   enums with two items, an enum item meeting another definition                *)
(* Design property: whatever the generator accepts builds (ModelAccepts =>         *)
(* ModelBuilds) and the conservative "no clash" reading implies acceptance         *)
(* (Safe => ModelAccepts).  Negative control: Repaired = FALSE.                    *)
(* Every explored program whose names meet somewhere, and a deterministic sample   *)
(* of the others, is printed for the real generator and the Go compiler.           *)
(***************************************************************************)
EXTENDS GoNames, Json

CONSTANTS EmitMod, IntMod, EmitPick, Families

A(b, c) == [b |-> b, c |-> c]
W(b, c) == << A(b, c) >>                      \* a one-atom chunk
Ids == {
  << W("foo", "l") >>, << W("foo", "t") >>, << W("foo", "u") >>,
  << W("foo", "l"), W("bar", "l") >>, << << A("foo", "l"), A("bar", "t") >> >>, << << A("foo", "t"), A("bar", "t") >> >>,
  << W("foo", "u"), W("bar", "u") >>, << W("foo", "t"), W("bar", "t") >>, << << >>, W("foo", "l") >>, << W("foo", "l"), << >> >>,
  << W("url", "l") >>, << W("url", "u") >>, << W("url", "t") >>,
  << W("user", "l"), W("id", "l") >>, << << A("user", "l"), A("id", "t") >> >>, << << A("user", "t"), A("id", "u") >> >>,
  << W("http", "l"), W("url", "l") >>, << << A("http", "u"), A("url", "u") >> >>,
  << W("string", "t") >>, << W("to", "l"), W("wire", "l") >>, << << A("to", "t"), A("wire", "t") >> >>,
  << W("error", "l") >>, << W("error", "t") >>, << W("error", "l"), W("name", "l") >>, << << A("error", "t"), A("name", "t") >> >>,
  << W("marshal", "l"), W("log", "l"), W("object", "l") >>, << W("method", "l"), W("name", "l") >>, << W("envelope", "l"), W("type", "l") >>,
  << W("get", "l"), W("foo", "l") >>, << << A("get", "t"), A("foo", "t") >> >>, << W("is", "l"), W("set", "l"), W("foo", "l") >>,
  << W("ptr", "l") >>, << W("equals", "l") >>, << W("type", "l") >>, << W("func", "l") >>, << W("range", "l") >>,
  << W("thrift", "l"), W("module", "l") >>, << << A("thrift", "t"), A("module", "t") >> >>, << W("values", "l") >>,
  << W("x", "l") >>, << W("x", "u") >>, << W("success", "l") >>, << W("decode", "l") >>, << W("from", "l"), W("wire", "l") >> }

AllFamilies == {"twodefs", "fields", "items", "constref", "goname"}
Kinds == {"struct", "union", "exception", "typedef", "enum", "const", "service"}
Named(id) == [name |-> id, txt |-> Text(id)]
Fld(id, opt) == [name |-> id, txt |-> Text(id), goname |-> "", opt |-> opt]
Def(kind, id, items, fields, funcs) == [kind |-> kind, name |-> id, txt |-> Text(id), goname |-> "", items |-> items, fields |-> fields, funcs |-> funcs,
                                       ty |-> "", cross |-> FALSE]
Plain(kind, id) == Def(kind, id, IF kind = "enum" THEN << << W("x", "l") >> >> ELSE << >>, << >>, << >>)

VARIABLES fam, prog, first
vars == <<fam, prog, first>>
None == << >>
Init == fam = "start" /\ prog = None /\ first = None

\* step 1 picks the first identifier (cheap), step 2 completes the program: TLC expands step 2 in parallel
Pick == fam = "start" /\ \E n \in Ids : first' = n /\ fam' = "picked" /\ UNCHANGED prog

TwoDefs == "twodefs" \in Families /\ \E k1, k2 \in Kinds, n2 \in Ids :
   /\ Text(first) # Text(n2)              \* the compiler rejects equal Thrift names itself
   /\ prog' = << Plain(k1, first), Plain(k2, n2) >> /\ fam' = "twodefs"
ItemMeetsDef == "twodefs" \in Families /\ \E k \in Kinds \ {"service"}, i, n \in Ids :
   /\ Text(first) # Text(n)
   /\ GoCase(first) \o ConstName(i) = NameOfDef(Plain(k, n))          \* only the meeting ones: the rest is covered by TwoDefs
   /\ prog' = << Def("enum", first, << i >>, << >>, << >>), Plain(k, n) >> /\ fam' = "itemdef"
TwoFields == "fields" \in Families /\ \E kind \in {"struct", "union", "exception"}, f2 \in Ids, o1, o2 \in BOOLEAN :
   /\ Text(first) # Text(f2)
   /\ prog' = << Def(kind, << W("foo", "t") >>, << >>, << Fld(first, o1 \/ kind = "union"), Fld(f2, o2 \/ kind = "union") >>, << >>) >> /\ fam' = "fields"
TwoParams == "fields" \in Families /\ \E p2 \in Ids :
   /\ Text(first) # Text(p2)
   /\ prog' = << Def("service", << W("foo", "t") >>, << >>, << >>,
                     << [name |-> << W("bar", "l") >>, txt |-> "bar", params |-> << Fld(first, TRUE), Fld(p2, TRUE) >>] >>) >> /\ fam' = "params"
TwoItems == "items" \in Families /\ \E i2 \in Ids :
   /\ Text(first) # Text(i2)
   /\ prog' = << Def("enum", << W("foo", "t") >>, << first, i2 >>, << >>, << >>) >> /\ fam' = "items"

\* a constant whose value other constants and defaults refer to by name: the declaration (constantName) and the
\* reference (LookupConstantName) must agree on its Go name; ty = its type (a primitive is inlined by the compiler,
\* a typedef of one or an enum keeps the reference), cross = referenced from an including file
ConstRef == "constref" \in Families /\ \E ty \in {"i32", "TI", "E", "TS"}, cross \in BOOLEAN :
   /\ prog' = << [Def("const", first, << >>, << >>, << >>) EXCEPT !.ty = ty, !.cross = cross] >> /\ fam' = "constref"

\* go.name annotations on definitions and fields: valid, invalid, equal to each other, to a reserved method, to an accessor
Annotated == "goname" \in Families /\ first = << W("foo", "l") >> /\ \E g1, g2 \in GoNamePool \cup {""} :
   \/ \E k1, k2 \in {"struct", "enum", "typedef", "exception"} :
        prog' = << [Plain(k1, << W("foo", "l") >>) EXCEPT !.goname = g1], [Plain(k2, << W("bar", "l") >>) EXCEPT !.goname = g2] >> /\ fam' = "gonamedefs"
   \/ \E kind \in {"struct", "union", "exception"}, o1 \in BOOLEAN :
        prog' = << Def(kind, << W("foo", "t") >>, << >>,
                       << [Fld(<< W("foo", "l") >>, o1 \/ kind = "union") EXCEPT !.goname = g1], [Fld(<< W("bar", "l") >>, TRUE) EXCEPT !.goname = g2] >>, << >>) >>
        /\ fam' = "gonamefields"

Next == Pick \/ (fam = "picked" /\ UNCHANGED first /\ (Annotated \/ TwoDefs \/ ItemMeetsDef \/ TwoFields \/ TwoParams \/ TwoItems \/ ConstRef))
Spec == Init /\ [][Next]_vars

AcceptedBuilds == prog # None => \A o \in OptionSets : ModelAccepts(prog, o) => ModelBuilds(prog, o)
SafeAccepted   == prog # None => \A o \in OptionSets : Safe(prog) => ModelAccepts(prog, o)

\* interesting = some two names meet, or a field meets a method
Interesting == ~Safe(prog) \/ fam \in {"constref", "gonamedefs", "gonamefields"}
RECURSIVE Hash(_, _)
Hash(s, i) == IF i > Len(s) THEN 0 ELSE (IF s[i] = "_" THEN 3 ELSE 7) + 2 * Hash(s, i + 1)
TxtHash == Len(prog) + Len(prog[1].txt) * 5 + (IF Len(prog) > 1 THEN Len(prog[2].txt) * 11 ELSE 0)
           + (IF Len(prog[1].fields) > 0 THEN Len(prog[1].fields[1].txt) * 13 + Len(prog[1].fields[2].txt) * 17 ELSE 0)
           + (IF Len(prog[1].items) > 1 THEN Len(prog[1].items[1]) * 19 + Len(Text(prog[1].items[2])) * 23 ELSE 0)
           + (IF Len(prog[1].funcs) > 0 THEN Len(prog[1].funcs[1].params[1].txt) * 29 + Len(prog[1].funcs[1].params[2].txt) * 31 ELSE 0)
EmitCase == (prog # None /\ (fam = "constref" \/ (TxtHash + TLCGet("distinct")) % (IF Interesting THEN IntMod ELSE EmitMod) = EmitPick % (IF Interesting THEN IntMod ELSE EmitMod)))
            => PrintT(<<"CASE", ToJson([fam |-> fam, defs |-> prog, interesting |-> Interesting])>>)
=============================================================================
