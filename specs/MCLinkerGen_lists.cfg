INIT GenInit
NEXT GenNext
CONSTANTS
  Fuel = 24
  Repaired = TRUE
  Family = "lists"
CHECK_DEADLOCK FALSE
