SPECIFICATION Spec
CONSTANT AllocThreshold = 1048576
INVARIANT Done
CHECK_DEADLOCK FALSE
