------------------------------- MODULE MCEvolve -------------------------------
(***************************************************************************)
(* Role A for C05: for every writer schema W obtained from the reader schema *)
(* R by evolution steps and every value of W,                                 *)
(*   - the declarative Project(W, R, v) equals what both path machines of      *)
(*     GenPaths.tla and the reference deserializer produce on EncRef(W, v);    *)
(*   - injecting any foreign field at any boundary of any depth changes        *)
(*     nothing.                                                                *)
(* R = struct Rd {1: required string a, 2: optional i32 b = 7,                 *)
(*                3: optional list<Inner> c, 4: optional Color g,              *)
(*                5: optional map<string, i32> m}                              *)
(***************************************************************************)
EXTENDS Evolve

RdFields == << Field(1, "a", B("string"), TRUE, NoDef), Field(2, "b", B("i32"), FALSE, I(7)),
               Field(3, "c", ListOf(Ref("Inner")), FALSE, NoDef), Field(4, "g", Ref("Color"), FALSE, NoDef),
               Field(5, "m", MapOf(B("string"), B("i32")), FALSE, NoDef) >>
Rd == [name |-> "Rd", kind |-> "struct", items |-> <<>>, target |-> B("i32"), fields |-> RdFields]
Ru == [name |-> "Ru", kind |-> "union", items |-> <<>>, target |-> B("i32"),
       fields |-> << Field(1, "a", B("string"), FALSE, NoDef), Field(2, "b", B("i32"), FALSE, NoDef), Field(3, "c", Ref("Inner"), FALSE, NoDef) >>]
\* a second reader: containers of fixed-width elements, evolved among element types of the SAME width (bool / i8, i64 /
\* double, i32 / enum), of other widths, and between list and set: equal width is not equal type
RcFields == << Field(1, "lb", ListOf(B("bool")), FALSE, NoDef), Field(2, "sb", SetOf(B("i8")), FALSE, NoDef),
               Field(3, "mb", MapOf(B("i8"), B("bool")), FALSE, NoDef), Field(4, "ld", ListOf(B("double")), FALSE, NoDef),
               Field(5, "li", ListOf(B("i32")), FALSE, NoDef) >>
Rc == [name |-> "Rc", kind |-> "struct", items |-> <<>>, target |-> B("i32"), fields |-> RcFields]
RSchema == Support \o << Rd, Ru, Rc >>
VariantsC(fd) ==
  { fd }
  \cup (CASE fd.id = 1 -> { [fd EXCEPT !.t = ListOf(B("i8"))], [fd EXCEPT !.t = ListOf(B("i16"))], [fd EXCEPT !.t = SetOf(B("bool"))] }
          [] fd.id = 2 -> { [fd EXCEPT !.t = SetOf(B("bool"))], [fd EXCEPT !.t = ListOf(B("i8"))], [fd EXCEPT !.t = SetOf(B("i16"))] }
          [] fd.id = 3 -> { [fd EXCEPT !.t = MapOf(B("bool"), B("bool"))], [fd EXCEPT !.t = MapOf(B("i8"), B("i8"))],
                            [fd EXCEPT !.t = MapOf(B("bool"), B("i8"))], [fd EXCEPT !.t = MapOf(B("i16"), B("bool"))] }
          [] fd.id = 4 -> { [fd EXCEPT !.t = ListOf(B("i64"))], [fd EXCEPT !.t = SetOf(B("double"))] }
          [] fd.id = 5 -> { [fd EXCEPT !.t = ListOf(Ref("Color"))], [fd EXCEPT !.t = ListOf(B("i64"))], [fd EXCEPT !.t = ListOf(B("i16"))] })

\* per-field evolution of the writer's version of Rd
Variants(fd) ==
  { fd }                                                       \* unchanged
  \cup (IF fd.id <= 2 THEN { [fd EXCEPT !.req = ~@],            \* requiredness changed
                             [fd EXCEPT !.name = @ \o "Renamed"] }   \* renamed
        ELSE { [fd EXCEPT !.req = ~@] })
  \cup (CASE fd.id = 1 -> { [fd EXCEPT !.t = B("binary")], [fd EXCEPT !.t = B("i32")], [fd EXCEPT !.t = Ref("MyStr")] }   \* same wire / other wire
          [] fd.id = 2 -> { [fd EXCEPT !.t = Ref("Color"), !.def = NoDef], [fd EXCEPT !.t = B("i64"), !.def = NoDef], [fd EXCEPT !.def = NoDef] }
          [] fd.id = 3 -> { [fd EXCEPT !.t = ListOf(B("i32"))], [fd EXCEPT !.t = SetOf(Ref("Inner"))], [fd EXCEPT !.t = ListOf(Ref("MyInner"))] }
          [] fd.id = 4 -> { [fd EXCEPT !.t = B("i32")], [fd EXCEPT !.t = B("i16")] }
          \* a map whose key type only, value type only, or both changed; or unchanged on the wire
          [] fd.id = 5 -> { [fd EXCEPT !.t = MapOf(B("string"), B("i64"))], [fd EXCEPT !.t = MapOf(B("i32"), B("i32"))],
                            [fd EXCEPT !.t = MapOf(B("binary"), Ref("Color"))], [fd EXCEPT !.t = MapOf(B("i32"), Ref("Inner"))],
                            [fd EXCEPT !.t = MapOf(B("string"), Ref("Inner"))] })
Removed == [id |-> 0]
Extras == { <<>>, << Field(9, "x9", B("i64"), FALSE, NoDef) >>, << Field(10, "x10", Ref("Inner"), FALSE, NoDef), Field(-5, "neg", ListOf(B("string")), FALSE, NoDef) >> }

VR(i) == Variants(RdFields[i]) \cup {Removed}
VRC(i) == VariantsC(RcFields[i]) \cup {Removed}
WriterFieldSets == { << a1, a2, a3, a4, a5 >> : a1 \in VR(1), a2 \in VR(2), a3 \in VR(3), a4 \in VR(4), a5 \in VR(5) }
Compact(q) == SelectSeq(q, LAMBDA x : x # Removed)
WriterDefs == { [name |-> "Rd", kind |-> "struct", items |-> <<>>, target |-> B("i32"), fields |-> Compact(q) \o ex] :
                q \in WriterFieldSets, ex \in Extras }
\* the writer's value: every declared field set to a value of its type (or left unset)
ValOfField(S, fd) == CHOOSE v \in Vals(S, fd.t) : TRUE
WValues(S, d) == { St(SelectSeq([ i \in 1..Len(d.fields) |-> F(d.fields[i].name, ValOfField(S, d.fields[i])) ], LAMBDA x : TRUE)),
                   St(<<>>),
                   St(SelectSeq([ i \in 1..Len(d.fields) |-> F(d.fields[i].name, ValOfField(S, d.fields[i])) ], LAMBDA x : x.n \in {"a", "aRenamed", "x9"})) }

\* the writer schema is chosen field by field (actions, so that TLC's BFS is parallel), then the
\* new fields, then the writer's value; only then (stage "ready") are the properties evaluated
VARIABLES wd, v, inj, stage
vars == <<wd, v, inj, stage>>
\* wd.name says which reader is being evolved; the other one is carried along unchanged
WSchema == Support \o (IF wd.name = "Rd" THEN << wd, Ru, Rc >> ELSE << Rd, Ru, wd >>)
EmptyRd == [name |-> "Rd", kind |-> "struct", items |-> <<>>, target |-> B("i32"), fields |-> <<>>]
Init == wd \in { EmptyRd, [EmptyRd EXCEPT !.name = "Rc"] } /\ v = St(<<>>) /\ inj = <<>> /\ stage = 1
ChooseField == /\ stage \in 1..5
               /\ \E x \in (IF wd.name = "Rd" THEN VR(stage) ELSE VRC(stage)) :
                     wd' = IF x = Removed THEN wd ELSE [wd EXCEPT !.fields = Append(@, x)]
               /\ stage' = stage + 1 /\ UNCHANGED <<v, inj>>
ChooseExtras == /\ stage = 6
                /\ \E ex \in (IF wd.name = "Rd" THEN Extras ELSE { <<>> }) : wd' = [wd EXCEPT !.fields = @ \o ex]
                /\ stage' = 7 /\ UNCHANGED <<v, inj>>
\* the container reader's values: every field set to each of two values of its type (one of them non-empty), or nothing
CValues(S, d) == { St([ i \in 1..Len(d.fields) |-> F(d.fields[i].name, CHOOSE x \in Vals(S, d.fields[i].t) : Len(IF x.k = "map" THEN x.m ELSE x.e) = k) ]) : k \in {1, 2} }
                 \cup { St(<<>>) }
ChooseValue == /\ stage = 7
               /\ \E x \in (IF wd.name = "Rd" THEN WValues(WSchema, wd) ELSE CValues(WSchema, wd)) : Valid(WSchema, Ref(wd.name), x) /\ v' = x
               /\ stage' = 8 /\ UNCHANGED <<wd, inj>>
Ready == stage = 8
\* a second step: inject a foreign field somewhere (any depth, any boundary)
Foreign == { [id |-> 77, v |-> Num(TBool, 1)], [id |-> 78, v |-> Bin(<<1, 2, 3>>)],
             [id |-> 2, v |-> Limb(TI64, <<0, 0, 0, 9>>)],                                  \* known id, other wire type
             [id |-> 79, v |-> [t |-> TList, et |-> TStruct, e |-> << [t |-> TStruct, f |-> << [id |-> 1, v |-> Num(TI8, 3)] >>] >>]],
             [id |-> 80, v |-> [t |-> TMap, kt |-> TBinary, vt |-> TList, m |-> << [k |-> Bin(<<107>>), v |-> [t |-> TList, et |-> TBool, e |-> <<>>]] >>]] }
\* unknown fields whose values are nested far deeper than any reader schema (C05: "of any type, size and nesting depth"):
\* a chain of structs, of lists, and of struct / list / map alternating
RECURSIVE NestS(_), NestL(_), NestMix(_)
NestS(k) == IF k = 0 THEN [t |-> TStruct, f |-> <<>>] ELSE [t |-> TStruct, f |-> << [id |-> 1, v |-> NestS(k - 1)] >>]
NestL(k) == IF k = 0 THEN [t |-> TList, et |-> TBool, e |-> << Num(TBool, 1) >>] ELSE [t |-> TList, et |-> TList, e |-> << NestL(k - 1) >>]
NestMix(k) == IF k = 0 THEN Num(TI8, 7)
              ELSE CASE k % 3 = 0 -> [t |-> TStruct, f |-> << [id |-> 2, v |-> NestMix(k - 1)] >>]
                     [] k % 3 = 1 -> LET x == NestMix(k - 1) IN [t |-> TList, et |-> x.t, e |-> << x >>]
                     [] OTHER -> LET x == NestMix(k - 1) IN [t |-> TMap, kt |-> TI8, vt |-> x.t, m |-> << [k |-> Num(TI8, 1), v |-> x] >>]
DeepForeign == { [id |-> 90, v |-> NestS(d)] : d \in {63, 64, 65, 66, 130} } \cup { [id |-> 91, v |-> NestL(d)] : d \in {63, 64, 65, 66, 130} }
               \cup { [id |-> 92, v |-> NestMix(d)] : d \in {64, 65, 66, 67, 131} }
\* unknown fields of the container shapes that skipping treats specially (fixed-width keys or values, variable-width partners)
M1(kt, vt, k, x) == [t |-> TMap, kt |-> kt, vt |-> vt, m |-> << [k |-> k, v |-> x] >>]
I64v == Limb(TI64, <<0, 0, 0, 9>>)
DblV == Limb(TDouble, <<16368, 0, 0, 0>>)
WideForeign == { [id |-> 93, v |-> M1(TI64, TBinary, I64v, Bin(<<120, 121>>))], [id |-> 93, v |-> M1(TDouble, TBinary, DblV, Bin(<<>>))],
                 [id |-> 93, v |-> M1(TBinary, TI64, Bin(<<107>>), I64v)], [id |-> 93, v |-> M1(TI64, TI64, I64v, I64v)],
                 [id |-> 93, v |-> M1(TI8, TBinary, Num(TI8, 1), Bin(<<1, 2, 3>>))], [id |-> 93, v |-> M1(TI32, TBool, Num(TI32, 1), Num(TBool, 1))],
                 [id |-> 93, v |-> [t |-> TList, et |-> TMap, e |-> << M1(TI64, TBinary, I64v, Bin(<<120>>)) >>]],
                 [id |-> 93, v |-> [t |-> TStruct, f |-> << [id |-> 1, v |-> M1(TI64, TBinary, I64v, Bin(<<120>>))] >>]],
                 \* empty containers of fixed-width items: nothing to skip, and nothing of what follows may be consumed
                 [id |-> 93, v |-> [t |-> TList, et |-> TI32, e |-> <<>>]], [id |-> 93, v |-> [t |-> TSet, et |-> TDouble, e |-> <<>>]],
                 [id |-> 93, v |-> [t |-> TMap, kt |-> TI64, vt |-> TI64, m |-> <<>>]], [id |-> 93, v |-> Bin(<<>>)],
                 [id |-> 93, v |-> M1(TBinary, TList, Bin(<<107>>), [t |-> TList, et |-> TI64, e |-> <<>>])],
                 [id |-> 93, v |-> [t |-> TStruct, f |-> << [id |-> 1, v |-> [t |-> TSet, et |-> TBool, e |-> <<>>]] >>]],
                 [id |-> 93, v |-> [t |-> TSet, et |-> TI64, e |-> << I64v >>]], [id |-> 93, v |-> [t |-> TList, et |-> TDouble, e |-> << DblV, DblV >>]] }
W0 == ToWireRef(WSchema, Ref(wd.name), v)
\* (evolution and injection are independent concerns: injection is explored on the unevolved writer)
DoInject == /\ Ready /\ inj = <<>> /\ wd.name = "Rd" /\ Len(wd.fields) >= 5 /\ SubSeq(wd.fields, 1, 5) = RdFields
            /\ \E pt \in Points(W0, <<>>), fx \in Foreign : inj' = << pt[1], pt[2], fx >>
            /\ UNCHANGED <<wd, v, stage>>
\* deep values are injected at the top level only (first / last position) of the unevolved writer's full value
DoInjectDeep == /\ Ready /\ inj = <<>> /\ wd.name = "Rd" /\ Len(wd.fields) = 5 /\ SubSeq(wd.fields, 1, 5) = RdFields /\ Len(W0.f) >= 3
                /\ \E k \in {0, Len(W0.f)}, fx \in DeepForeign \cup WideForeign : inj' = << <<>>, k, fx >>
                /\ UNCHANGED <<wd, v, stage>>
Next == ChooseField \/ ChooseExtras \/ ChooseValue \/ DoInject \/ DoInjectDeep
Spec == Init /\ [][Next]_vars

WireTerm == IF inj = <<>> THEN W0 ELSE Inject(W0, inj[1], inj[2], inj[3])
Bytes == Enc(WireTerm)
Want == Project(WSchema, RSchema, Ref(wd.name), Ref(wd.name), v)

\* Role B: the states are also the cases for the real code.  A deterministic sample (by a
\* checksum of the encoding) is printed in compact form; the harness rebuilds W from wf.
CONSTANTS EmitMod, EmitPick
RECURSIVE SumSeq(_)
SumSeq(q) == IF q = <<>> THEN 0 ELSE Head(q) + SumSeq(Tail(q))
CaseRec == [ tn |-> wd.name, wf |-> wd.fields, v |-> v, inj |-> inj, b |-> Bytes ]
IsDeep == inj # <<>> /\ inj[3].id >= 90
EmitCase == (Ready /\ (wd.name = "Rc" \/ IsDeep \/ (SumSeq(Bytes) + Len(Bytes)) % EmitMod = EmitPick)) => PrintT(<<"CASE", ToJson(CaseRec)>>)
ASSUME PrintT(<<"RSCHEMA", ToJson(RSchema)>>)

\* injected field 2 of another wire type must not disturb; a duplicate *matching* field would overwrite,
\* which is why the foreign field with id 2 has a wire type R does not declare
ReferenceAgrees == Ready => EqL(DecRef(RSchema, Ref(wd.name), Bytes), Want)
ValuePathAgrees == Ready => EqL(ValuePath(RSchema, Ref(wd.name), Bytes), Want)
StreamPathAgrees == Ready => EqL(StreamPath(RSchema, Ref(wd.name), Bytes), Want)
=============================================================================
