------------------------------ MODULE Numeric ------------------------------
(***************************************************************************)
(* Numeric well-formedness of compiled programs (C09).                      *)
(* Code anchors: compile/field.go (compileField, compileFields: explicit,   *)
(* implicit and auto-assigned negative field ids), compile/enum.go          *)
(* (compileEnum: explicit values and implicit continuation), compile/       *)
(* constant_value.go (ConstantInt.Link), idl/internal/lex.rl (ParseInt).    *)
(*                                                                         *)
(* TLC integers are 32-bit, so 64-bit numbers are four 16-bit limbs (two's  *)
(* complement, most significant first); the harness only splits bits.       *)
(***************************************************************************)
EXTENDS Integers, Sequences, FiniteSets

\* boundary literals (decimal and hex forms) around 0, 2^7, 2^8, 2^15, 2^16, 2^31, 2^32, 2^63
Literals == {
  [s |-> "-3", l |-> <<65535,65535,65535,65533>>],
  [s |-> "-4", l |-> <<65535,65535,65535,65532>>],
  [s |-> "-9223372036854775808", l |-> <<32768,0,0,0>>],
  [s |-> "-9223372036854775807", l |-> <<32768,0,0,1>>],
  [s |-> "-9223372036854775806", l |-> <<32768,0,0,2>>],
  [s |-> "-4294967298", l |-> <<65535,65534,65535,65534>>],
  [s |-> "-4294967297", l |-> <<65535,65534,65535,65535>>],
  [s |-> "-4294967296", l |-> <<65535,65535,0,0>>],
  [s |-> "-4294967295", l |-> <<65535,65535,0,1>>],
  [s |-> "-4294967294", l |-> <<65535,65535,0,2>>],
  [s |-> "-2147483650", l |-> <<65535,65535,32767,65534>>],
  [s |-> "-2147483649", l |-> <<65535,65535,32767,65535>>],
  [s |-> "-2147483648", l |-> <<65535,65535,32768,0>>],
  [s |-> "-2147483647", l |-> <<65535,65535,32768,1>>],
  [s |-> "-2147483646", l |-> <<65535,65535,32768,2>>],
  [s |-> "-70000", l |-> <<65535,65535,65534,61072>>],
  [s |-> "-65538", l |-> <<65535,65535,65534,65534>>],
  [s |-> "-65537", l |-> <<65535,65535,65534,65535>>],
  [s |-> "-65536", l |-> <<65535,65535,65535,0>>],
  [s |-> "-65535", l |-> <<65535,65535,65535,1>>],
  [s |-> "-65534", l |-> <<65535,65535,65535,2>>],
  [s |-> "-40000", l |-> <<65535,65535,65535,25536>>],
  [s |-> "-32770", l |-> <<65535,65535,65535,32766>>],
  [s |-> "-32769", l |-> <<65535,65535,65535,32767>>],
  [s |-> "-32768", l |-> <<65535,65535,65535,32768>>],
  [s |-> "-32767", l |-> <<65535,65535,65535,32769>>],
  [s |-> "-32766", l |-> <<65535,65535,65535,32770>>],
  [s |-> "-258", l |-> <<65535,65535,65535,65278>>],
  [s |-> "-257", l |-> <<65535,65535,65535,65279>>],
  [s |-> "-256", l |-> <<65535,65535,65535,65280>>],
  [s |-> "-255", l |-> <<65535,65535,65535,65281>>],
  [s |-> "-254", l |-> <<65535,65535,65535,65282>>],
  [s |-> "-130", l |-> <<65535,65535,65535,65406>>],
  [s |-> "-129", l |-> <<65535,65535,65535,65407>>],
  [s |-> "-128", l |-> <<65535,65535,65535,65408>>],
  [s |-> "-127", l |-> <<65535,65535,65535,65409>>],
  [s |-> "-126", l |-> <<65535,65535,65535,65410>>],
  [s |-> "-2", l |-> <<65535,65535,65535,65534>>],
  [s |-> "-1", l |-> <<65535,65535,65535,65535>>],
  [s |-> "0", l |-> <<0,0,0,0>>],
  [s |-> "0x0", l |-> <<0,0,0,0>>],
  [s |-> "1", l |-> <<0,0,0,1>>],
  [s |-> "0x1", l |-> <<0,0,0,1>>],
  [s |-> "2", l |-> <<0,0,0,2>>],
  [s |-> "0x2", l |-> <<0,0,0,2>>],
  [s |-> "126", l |-> <<0,0,0,126>>],
  [s |-> "0x7e", l |-> <<0,0,0,126>>],
  [s |-> "127", l |-> <<0,0,0,127>>],
  [s |-> "0x7f", l |-> <<0,0,0,127>>],
  [s |-> "128", l |-> <<0,0,0,128>>],
  [s |-> "0x80", l |-> <<0,0,0,128>>],
  [s |-> "129", l |-> <<0,0,0,129>>],
  [s |-> "0x81", l |-> <<0,0,0,129>>],
  [s |-> "130", l |-> <<0,0,0,130>>],
  [s |-> "0x82", l |-> <<0,0,0,130>>],
  [s |-> "254", l |-> <<0,0,0,254>>],
  [s |-> "0xfe", l |-> <<0,0,0,254>>],
  [s |-> "255", l |-> <<0,0,0,255>>],
  [s |-> "0xff", l |-> <<0,0,0,255>>],
  [s |-> "256", l |-> <<0,0,0,256>>],
  [s |-> "0x100", l |-> <<0,0,0,256>>],
  [s |-> "257", l |-> <<0,0,0,257>>],
  [s |-> "0x101", l |-> <<0,0,0,257>>],
  [s |-> "258", l |-> <<0,0,0,258>>],
  [s |-> "0x102", l |-> <<0,0,0,258>>],
  [s |-> "1000", l |-> <<0,0,0,1000>>],
  [s |-> "0x3e8", l |-> <<0,0,0,1000>>],
  [s |-> "25536", l |-> <<0,0,0,25536>>],
  [s |-> "0x63c0", l |-> <<0,0,0,25536>>],
  [s |-> "32766", l |-> <<0,0,0,32766>>],
  [s |-> "0x7ffe", l |-> <<0,0,0,32766>>],
  [s |-> "32767", l |-> <<0,0,0,32767>>],
  [s |-> "0x7fff", l |-> <<0,0,0,32767>>],
  [s |-> "32768", l |-> <<0,0,0,32768>>],
  [s |-> "0x8000", l |-> <<0,0,0,32768>>],
  [s |-> "32769", l |-> <<0,0,0,32769>>],
  [s |-> "0x8001", l |-> <<0,0,0,32769>>],
  [s |-> "32770", l |-> <<0,0,0,32770>>],
  [s |-> "0x8002", l |-> <<0,0,0,32770>>],
  [s |-> "65534", l |-> <<0,0,0,65534>>],
  [s |-> "0xfffe", l |-> <<0,0,0,65534>>],
  [s |-> "65535", l |-> <<0,0,0,65535>>],
  [s |-> "0xffff", l |-> <<0,0,0,65535>>],
  [s |-> "65536", l |-> <<0,0,1,0>>],
  [s |-> "0x10000", l |-> <<0,0,1,0>>],
  [s |-> "65537", l |-> <<0,0,1,1>>],
  [s |-> "0x10001", l |-> <<0,0,1,1>>],
  [s |-> "65538", l |-> <<0,0,1,2>>],
  [s |-> "0x10002", l |-> <<0,0,1,2>>],
  [s |-> "70000", l |-> <<0,0,1,4464>>],
  [s |-> "0x11170", l |-> <<0,0,1,4464>>],
  [s |-> "2147483646", l |-> <<0,0,32767,65534>>],
  [s |-> "0x7ffffffe", l |-> <<0,0,32767,65534>>],
  [s |-> "2147483647", l |-> <<0,0,32767,65535>>],
  [s |-> "0x7fffffff", l |-> <<0,0,32767,65535>>],
  [s |-> "2147483648", l |-> <<0,0,32768,0>>],
  [s |-> "0x80000000", l |-> <<0,0,32768,0>>],
  [s |-> "2147483649", l |-> <<0,0,32768,1>>],
  [s |-> "0x80000001", l |-> <<0,0,32768,1>>],
  [s |-> "2147483650", l |-> <<0,0,32768,2>>],
  [s |-> "0x80000002", l |-> <<0,0,32768,2>>],
  [s |-> "4294967294", l |-> <<0,0,65535,65534>>],
  [s |-> "0xfffffffe", l |-> <<0,0,65535,65534>>],
  [s |-> "4294967295", l |-> <<0,0,65535,65535>>],
  [s |-> "0xffffffff", l |-> <<0,0,65535,65535>>],
  [s |-> "4294967296", l |-> <<0,1,0,0>>],
  [s |-> "0x100000000", l |-> <<0,1,0,0>>],
  [s |-> "4294967297", l |-> <<0,1,0,1>>],
  [s |-> "0x100000001", l |-> <<0,1,0,1>>],
  [s |-> "4294967298", l |-> <<0,1,0,2>>],
  [s |-> "0x100000002", l |-> <<0,1,0,2>>],
  [s |-> "4294967301", l |-> <<0,1,0,5>>],
  [s |-> "0x100000005", l |-> <<0,1,0,5>>],
  [s |-> "9223372036854775806", l |-> <<32767,65535,65535,65534>>],
  [s |-> "0x7ffffffffffffffe", l |-> <<32767,65535,65535,65534>>],
  [s |-> "9223372036854775807", l |-> <<32767,65535,65535,65535>>],
  [s |-> "0x7fffffffffffffff", l |-> <<32767,65535,65535,65535>>]
}

LimbsOf(s) == (CHOOSE x \in Literals : x.s = s).l
Known(s) == \E x \in Literals : x.s = s

Neg(l) == l[1] >= 32768
\* sign extension tests: does the 64-bit value fit in the given width?
FitsI8(l)  == \/ l[1] = 0 /\ l[2] = 0 /\ l[3] = 0 /\ l[4] <= 127
              \/ l[1] = 65535 /\ l[2] = 65535 /\ l[3] = 65535 /\ l[4] >= 65408
FitsI16(l) == \/ l[1] = 0 /\ l[2] = 0 /\ l[3] = 0 /\ l[4] <= 32767
              \/ l[1] = 65535 /\ l[2] = 65535 /\ l[3] = 65535 /\ l[4] >= 32768
FitsI32(l) == \/ l[1] = 0 /\ l[2] = 0 /\ l[3] <= 32767
              \/ l[1] = 65535 /\ l[2] = 65535 /\ l[3] >= 32768
FitsI64(l) == TRUE
Fits(ty, l) == CASE ty \in {"i8", "byte"} -> FitsI8(l) [] ty = "i16" -> FitsI16(l)
                 [] ty = "i32" -> FitsI32(l) [] ty = "i64" -> FitsI64(l) [] OTHER -> FALSE

Positive(l) == ~Neg(l) /\ l # <<0,0,0,0>>

\* arithmetic on limbs (wrapping at 64 bits)
Inc(l) == IF l[4] < 65535 THEN <<l[1], l[2], l[3], l[4] + 1>>
          ELSE IF l[3] < 65535 THEN <<l[1], l[2], l[3] + 1, 0>>
          ELSE IF l[2] < 65535 THEN <<l[1], l[2] + 1, 0, 0>>
          ELSE <<(l[1] + 1) % 65536, 0, 0, 0>>
Dec(l) == IF l[4] > 0 THEN <<l[1], l[2], l[3], l[4] - 1>>
          ELSE IF l[3] > 0 THEN <<l[1], l[2], l[3] - 1, 65535>>
          ELSE IF l[2] > 0 THEN <<l[1], l[2] - 1, 65535, 65535>>
          ELSE <<(l[1] + 65535) % 65536, 65535, 65535, 65535>>
\* Go conversions int16(x), int32(x) of a 64-bit value (keep the low bits, sign-extend)
Conv16(l) == IF l[4] >= 32768 THEN <<65535, 65535, 65535, l[4]>> ELSE <<0, 0, 0, l[4]>>
Conv32(l) == IF l[3] >= 32768 THEN <<65535, 65535, l[3], l[4]>> ELSE <<0, 0, l[3], l[4]>>

MinusOne == <<65535, 65535, 65535, 65535>>
Zero == <<0, 0, 0, 0>>

---------------------------------------------------------------------------
(* compileEnum as a step function.  State: prev (the running int), items.   *)
(* An item is explicit (a literal) or implicit (prev + 1).  Checked = the    *)
(* repaired code rejects values outside int32; otherwise int32(value) wraps. *)
EnumStep(prev, explicit, lit, checked) ==
  LET value == IF explicit THEN lit ELSE Inc(prev) IN
  IF checked /\ ~FitsI32(value) THEN [ok |-> FALSE, prev |-> value, stored |-> value, meant |-> value]
  ELSE [ok |-> TRUE, prev |-> value, stored |-> Conv32(value), meant |-> value]

(* compileFields / compileField as a step function.  State: nextNeg.         *)
(* strict: id must be in 1..32767.  non-strict: negative ids allowed, unset   *)
(* ids are assigned nextNeg, nextNeg - 1, ...                                 *)
FieldStep(nextNeg, unset, lit, nonstrict, checked) ==
  LET id == IF nonstrict /\ unset THEN nextNeg ELSE lit
      nn == IF nonstrict THEN (IF ~unset /\ Neg(lit) THEN Dec(lit) ELSE IF unset THEN Dec(nextNeg) ELSE nextNeg) ELSE nextNeg
      tooBig == ~Neg(id) /\ ~FitsI16(id)                                    \* src.ID > MaxInt16
      tooSmall == IF nonstrict THEN (checked /\ Neg(id) /\ ~FitsI16(id))    \* repaired: below MinInt16
                  ELSE ~Positive(id)                                         \* src.ID < 1
  IN IF tooBig \/ tooSmall THEN [ok |-> FALSE, nextNeg |-> nn, stored |-> id, meant |-> id]
     ELSE [ok |-> TRUE, nextNeg |-> nn, stored |-> Conv16(id), meant |-> id]

(* ConstantInt.Link against an integer type *)
ConstStep(ty, lit, checked) ==
  IF checked /\ ~Fits(ty, lit) THEN [ok |-> FALSE, stored |-> lit, meant |-> lit]
  ELSE [ok |-> TRUE, stored |-> lit, meant |-> lit]

\* an integer literal where a value of enum E { ZERO = 0, ONE = 1, MINUS_ONE = -1, MIN = -2^31, MAX = 2^31 - 1 } is expected
\* (ConstantInt.Link against an EnumSpec): it denotes the item that has exactly this value; Narrowed = the negative control,
\* a comparison after conversion to 32 bits
EnumItemValues == { LimbsOf("0"), LimbsOf("1"), LimbsOf("-1"), LimbsOf("-2147483648"), LimbsOf("2147483647") }
Low32(l) == << (IF l[3] >= 32768 THEN 65535 ELSE 0), (IF l[3] >= 32768 THEN 65535 ELSE 0), l[3], l[4] >>     \* int32(x) sign-extended
EnumValueStep(lit, narrowed) ==
  IF narrowed THEN [ok |-> Low32(lit) \in EnumItemValues, stored |-> Low32(lit), meant |-> lit]
  ELSE [ok |-> lit \in EnumItemValues, stored |-> lit, meant |-> lit]

\* the property for one accepted number
NumberOK(r, ty) == r.ok => (r.stored = r.meant /\ Fits(ty, r.meant))
=============================================================================
