------------------------------ MODULE C08Trace ------------------------------
(***************************************************************************)
(* C08: compiler and generator terminate with a result or an error.         *)
(* One line per file set: cok/cerr = compile.Compile outcome, gran/gok/gerr  *)
(* = gen.Generate outcome (run only if compilation succeeded).  A process    *)
(* that dies or hangs never gets here (the runner reports its case).         *)
(* The outcome invariant is the one MCLinker establishes for the model: a    *)
(* run ends in "ok" or in an error state, never in overflow.                 *)
(***************************************************************************)
EXTENDS TraceBase

VARIABLES l, bad, drift

Checks(e) == { <<"no-panic", e.panic = "">>,
               <<"compile-result-xor-error", e.cok <=> (e.cerr = "")>>,
               <<"generate-only-after-compile", e.gran => e.cok>>,
               <<"generate-result-xor-error", e.gran => (e.gok <=> (e.gerr = ""))>>,
               <<"generate-produces-output", e.gok => e.nfiles >= 1>> }

Init == l = 1 /\ bad = {} /\ drift = {}
Next == /\ l <= Len(Trace)
        /\ l' = l + 1
        /\ bad' = bad \cup Tag(l, Failed(Checks(Trace[l])))
        /\ UNCHANGED drift
Spec == Init /\ [][Next]_<<l, bad, drift>>
Done == l = Len(Trace) + 1 => WriteVerdict(Len(Trace), bad, drift)
=============================================================================
