------------------------------ MODULE C08Trace ------------------------------
(***************************************************************************)
(* C08: compiler and generator terminate with a result or an error.         *)
(* One line per file set: cok/cerr = compile.Compile outcome, gran/gok/gerr  *)
(* = gen.Generate outcome (run only if compilation succeeded).  A process    *)
(* that dies or hangs never gets here (the runner reports its case).         *)
(* The outcome invariant is the one MCLinker establishes for the model: a    *)
(* run ends in "ok" or in an error state, never in overflow.                 *)
(***************************************************************************)
EXTENDS TraceBase

CONSTANT StrictOutcome     \* TRUE when the same runs are judged for C07: the outcome the model computed is then part of the property

VARIABLES l, bad, drift

Checks(e) == { <<"no-panic", e.panic = "">>,
               <<"compile-result-xor-error", e.cok <=> (e.cerr = "")>>,
               <<"generate-only-after-compile", e.gran => e.cok>>,
               <<"generate-result-xor-error", e.gran => (e.gok <=> (e.gerr = ""))>>,
               <<"generate-produces-output", e.gok => e.nfiles >= 1>> }

\* model conformance: cases of DefaultCycle.tla carry the outcome the model computed (selfdef: the error text says
\* "is defined in terms of itself").  C08 itself asks for termination only, so a difference here is drift.
Conf(e) == { <<"model-default-in-terms-of-itself-is-refused", Has(e.files, "#expect") =>
                    IF e.files["#expect"] = "ok" THEN e.cok ELSE ~e.cok /\ e.selfdef>> }

Init == l = 1 /\ bad = {} /\ drift = {}
Next == /\ l <= Len(Trace)
        /\ l' = l + 1
        /\ bad' = bad \cup Tag(l, Failed(Checks(Trace[l]) \cup (IF StrictOutcome THEN Conf(Trace[l]) ELSE {})))
        /\ drift' = drift \cup Tag(l, Failed(Conf(Trace[l])))
Spec == Init /\ [][Next]_<<l, bad, drift>>
Done == l = Len(Trace) + 1 => WriteVerdict(Len(Trace), bad, drift)
=============================================================================
