SPECIFICATION Spec
CONSTANTS
  AllocThreshold = 1048576
  EmitMod = 40
  EmitPick = 0
INVARIANTS ReferenceAgrees ValuePathAgrees StreamPathAgrees EmitCase
CHECK_DEADLOCK FALSE
