----------------------------- MODULE TraceBase -----------------------------
(***************************************************************************)
(* The Role-C idiom shared by all function-like trace specs: every line of *)
(* obs.ndjson is consumed unconditionally; the property predicates put the *)
(* line numbers they reject into `bad` (violations of the listed property) *)
(* and the model-conformance predicates into `drift` (the implementation   *)
(* does something the implementation-shaped model does not predict, while  *)
(* the property still holds).  The verdict is printed by the POSTCONDITION *)
(* so that one TLC run reports all failing lines.                          *)
(***************************************************************************)
EXTENDS Integers, Sequences, TLC, Json, SequencesExt

Trace == ndJsonDeserialize("obs.ndjson")

Has(r, k) == k \in DOMAIN r

\* reasons: a set of <<name, holds>> pairs -> names of the predicates that fail
Failed(checks) == { c[1] : c \in { d \in checks : ~d[2] } }
Tag(ln, names) == { <<ln, nm>> : nm \in names }

\* verdict.json = [n, bad, drift]; bad/drift are sequences of <<line, predicate name>>
WriteVerdict(n, bad, drift) ==
  JsonSerialize("verdict.json", [n |-> n, bad |-> SetToSeq(bad), drift |-> SetToSeq(drift)])
=============================================================================
