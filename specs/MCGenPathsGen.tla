--------------------------- MODULE MCGenPathsGen ---------------------------
(* Role B for C04: the schemas of MCGenPaths with every byte string over the   *)
(* alphabet up to GenLen as cases.                                              *)
EXTENDS MCGenPaths, Json
CONSTANT GenLen
Strings == UNION { [1..k -> Alphabet] : k \in 0..GenLen }
StrSeq == SetToSeq(Strings)
Out == [ j \in 1..(Len(Schemas) * Len(StrSeq)) |->
          LET i == ((j - 1) \div Len(StrSeq)) + 1  q == StrSeq[((j - 1) % Len(StrSeq)) + 1] IN
          [ id |-> "p" \o ToString(j), op |-> "bytes", S |-> Schemas[i], tn |-> "PA" \o ToString(i), b |-> q ] ]
ASSUME ndJsonSerialize("cases.ndjson", Out)
GenInit == si = 1 /\ bs = <<>>
GenNext == UNCHANGED <<si, bs>>
=============================================================================
