INIT GenInit
NEXT GenNext
CONSTANTS
  Fuel = 24
  Repaired = TRUE
  Family = "types"
CHECK_DEADLOCK FALSE
