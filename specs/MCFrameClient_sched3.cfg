SPECIFICATION Spec
CONSTANTS
  Clients = {"c1", "c2", "c3"}
  Mutex = FALSE
CHECK_DEADLOCK FALSE
