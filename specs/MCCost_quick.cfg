SPECIFICATION Spec
CONSTANTS
  MaxElems = 1
  Deep = FALSE
  AllocThreshold = 1048576
  FastPathFrameSize = 10485760
  LegacyPrealloc = FALSE
  CostC = 12582912
  CostK = 64
INVARIANT CostOK
CHECK_DEADLOCK FALSE
