INIT GenInit
NEXT GenNext
CONSTANTS
  Plugins = {"p1", "p2"}
  HsFaults = {"ok", "nofeature", "wrongname", "wrongversion", "exception", "garbage", "trunc", "exitbefore", "exitafter"}
  GenFaults = {"ok", "exception", "garbage", "trunc", "exit", "dotdot", "samepath"}
  ByeFaults = {"ok", "noreply", "garbage"}
  NamesGoodbyeFailure = TRUE
  DetachesStdout = TRUE
CHECK_DEADLOCK FALSE
