// Package sx drives the stream.Reader / stream.Writer interfaces the way
// generated code does, and provides the read-segmentation wrappers.
package sx

import (
	"fmt"
	"io"
	"math"
	"math/rand"

	"go.uber.org/thriftrw/protocol/stream"
	"go.uber.org/thriftrw/wire"
	"verifharness/internal/wj"
)

// Call is one stream.Writer call; the shape is that of Wire.tla's Call().
type Call struct {
	C  string `json:"c"`
	N  int    `json:"n"`
	L  []int  `json:"l"`
	B  []int  `json:"b"`
	T2 int    `json:"t2"`

	raw []byte
	u64 uint64
}

var z4 = []int{0, 0, 0, 0}

func mk(c string, n int, t2 int) Call { return Call{C: c, N: n, L: z4, B: []int{}, T2: t2} }

// Calls returns the stream.Writer call sequence for a (slice-backed) value,
// derived by plain structural recursion.
func Calls(v wire.Value) []Call {
	var out []Call
	var rec func(v wire.Value)
	rec = func(v wire.Value) {
		switch v.Type() {
		case wire.TBool:
			n := 0
			if v.GetBool() {
				n = 1
			}
			out = append(out, mk("Bool", n, 0))
		case wire.TI8:
			out = append(out, mk("Int8", int(v.GetI8()), 0))
		case wire.TI16:
			out = append(out, mk("Int16", int(v.GetI16()), 0))
		case wire.TI32:
			out = append(out, mk("Int32", int(v.GetI32()), 0))
		case wire.TI64:
			c := mk("Int64", 0, 0)
			c.u64 = uint64(v.GetI64())
			c.L = wj.Limbs(c.u64)
			out = append(out, c)
		case wire.TDouble:
			c := mk("Double", 0, 0)
			c.u64 = math.Float64bits(v.GetDouble())
			c.L = wj.Limbs(c.u64)
			out = append(out, c)
		case wire.TBinary:
			c := mk("Binary", 0, 0)
			c.raw = v.GetBinary()
			if len(c.raw) <= wj.BigBinary {
				c.B = wj.Bytes(c.raw)
			} else {
				c.N = len(c.raw)
			}
			out = append(out, c)
		case wire.TStruct:
			out = append(out, mk("StructBegin", 0, 0))
			for _, f := range v.GetStruct().Fields {
				out = append(out, mk("FieldBegin", int(f.ID), int(f.Value.Type())))
				rec(f.Value)
				out = append(out, mk("FieldEnd", 0, 0))
			}
			out = append(out, mk("StructEnd", 0, 0))
		case wire.TMap:
			m := v.GetMap()
			out = append(out, mk("MapBegin", m.Size(), int(m.KeyType())*256+int(m.ValueType())))
			_ = m.ForEach(func(e wire.MapItem) error { rec(e.Key); rec(e.Value); return nil })
			out = append(out, mk("MapEnd", 0, 0))
		case wire.TSet:
			l := v.GetSet()
			out = append(out, mk("SetBegin", l.Size(), int(l.ValueType())))
			_ = l.ForEach(func(e wire.Value) error { rec(e); return nil })
			out = append(out, mk("SetEnd", 0, 0))
		case wire.TList:
			l := v.GetList()
			out = append(out, mk("ListBegin", l.Size(), int(l.ValueType())))
			_ = l.ForEach(func(e wire.Value) error { rec(e); return nil })
			out = append(out, mk("ListEnd", 0, 0))
		}
	}
	rec(v)
	return out
}

// FixRaw fills the private fields of calls parsed from JSON.
func FixRaw(cs []Call) error {
	for i := range cs {
		c := &cs[i]
		switch c.C {
		case "Binary":
			c.raw = make([]byte, len(c.B))
			for k, x := range c.B {
				c.raw[k] = byte(x)
			}
		case "Int64", "Double":
			if len(c.L) != 4 {
				return fmt.Errorf("call %d: bad limbs", i)
			}
			c.u64 = uint64(c.L[0])<<48 | uint64(c.L[1])<<32 | uint64(c.L[2])<<16 | uint64(c.L[3])
		}
	}
	return nil
}

// Apply performs the calls on w.
func Apply(w stream.Writer, cs []Call) error {
	for _, c := range cs {
		var err error
		switch c.C {
		case "Bool":
			err = w.WriteBool(c.N != 0)
		case "Int8":
			err = w.WriteInt8(int8(c.N))
		case "Int16":
			err = w.WriteInt16(int16(c.N))
		case "Int32":
			err = w.WriteInt32(int32(c.N))
		case "Int64":
			err = w.WriteInt64(int64(c.u64))
		case "Double":
			err = w.WriteDouble(math.Float64frombits(c.u64))
		case "Binary":
			err = w.WriteBinary(c.raw)
		case "StructBegin":
			err = w.WriteStructBegin()
		case "StructEnd":
			err = w.WriteStructEnd()
		case "FieldBegin":
			err = w.WriteFieldBegin(stream.FieldHeader{ID: int16(c.N), Type: wire.Type(c.T2)})
		case "FieldEnd":
			err = w.WriteFieldEnd()
		case "MapBegin":
			err = w.WriteMapBegin(stream.MapHeader{KeyType: wire.Type(c.T2 / 256), ValueType: wire.Type(c.T2 % 256), Length: c.N})
		case "MapEnd":
			err = w.WriteMapEnd()
		case "SetBegin":
			err = w.WriteSetBegin(stream.SetHeader{Type: wire.Type(c.T2), Length: c.N})
		case "SetEnd":
			err = w.WriteSetEnd()
		case "ListBegin":
			err = w.WriteListBegin(stream.ListHeader{Type: wire.Type(c.T2), Length: c.N})
		case "ListEnd":
			err = w.WriteListEnd()
		default:
			err = fmt.Errorf("unknown call %q", c.C)
		}
		if err != nil {
			return err
		}
	}
	return nil
}

// ErrUnknownType is returned by ReadValue for a type code it has no reader
// call for (the stream.Reader API itself has no generic "read value").
type ErrUnknownType wire.Type

func (e ErrUnknownType) Error() string { return fmt.Sprintf("unknown ttype %d", byte(e)) }

// ReadValue eagerly decodes a value of type t by driving the stream.Reader
// API call by call.
func ReadValue(r stream.Reader, t wire.Type) (wire.Value, error) {
	switch t {
	case wire.TBool:
		b, err := r.ReadBool()
		return wire.NewValueBool(b), err
	case wire.TI8:
		n, err := r.ReadInt8()
		return wire.NewValueI8(n), err
	case wire.TI16:
		n, err := r.ReadInt16()
		return wire.NewValueI16(n), err
	case wire.TI32:
		n, err := r.ReadInt32()
		return wire.NewValueI32(n), err
	case wire.TI64:
		n, err := r.ReadInt64()
		return wire.NewValueI64(n), err
	case wire.TDouble:
		n, err := r.ReadDouble()
		return wire.NewValueDouble(n), err
	case wire.TBinary:
		b, err := r.ReadBinary()
		return wire.NewValueBinary(b), err
	case wire.TStruct:
		if err := r.ReadStructBegin(); err != nil {
			return wire.Value{}, err
		}
		var fs []wire.Field
		fh, ok, err := r.ReadFieldBegin()
		if err != nil {
			return wire.Value{}, err
		}
		for ok {
			v, err := ReadValue(r, fh.Type)
			if err != nil {
				return wire.Value{}, err
			}
			fs = append(fs, wire.Field{ID: fh.ID, Value: v})
			if err := r.ReadFieldEnd(); err != nil {
				return wire.Value{}, err
			}
			if fh, ok, err = r.ReadFieldBegin(); err != nil {
				return wire.Value{}, err
			}
		}
		if err := r.ReadStructEnd(); err != nil {
			return wire.Value{}, err
		}
		return wire.NewValueStruct(wire.Struct{Fields: fs}), nil
	case wire.TList:
		lh, err := r.ReadListBegin()
		if err != nil {
			return wire.Value{}, err
		}
		var es []wire.Value // never pre-sized from the header
		for i := 0; i < lh.Length; i++ {
			v, err := ReadValue(r, lh.Type)
			if err != nil {
				return wire.Value{}, err
			}
			es = append(es, v)
		}
		if err := r.ReadListEnd(); err != nil {
			return wire.Value{}, err
		}
		return wire.NewValueList(wire.ValueListFromSlice(lh.Type, es)), nil
	case wire.TSet:
		sh, err := r.ReadSetBegin()
		if err != nil {
			return wire.Value{}, err
		}
		var es []wire.Value
		for i := 0; i < sh.Length; i++ {
			v, err := ReadValue(r, sh.Type)
			if err != nil {
				return wire.Value{}, err
			}
			es = append(es, v)
		}
		if err := r.ReadSetEnd(); err != nil {
			return wire.Value{}, err
		}
		return wire.NewValueSet(wire.ValueListFromSlice(sh.Type, es)), nil
	case wire.TMap:
		mh, err := r.ReadMapBegin()
		if err != nil {
			return wire.Value{}, err
		}
		var ms []wire.MapItem
		for i := 0; i < mh.Length; i++ {
			k, err := ReadValue(r, mh.KeyType)
			if err != nil {
				return wire.Value{}, err
			}
			v, err := ReadValue(r, mh.ValueType)
			if err != nil {
				return wire.Value{}, err
			}
			ms = append(ms, wire.MapItem{Key: k, Value: v})
		}
		if err := r.ReadMapEnd(); err != nil {
			return wire.Value{}, err
		}
		return wire.NewValueMap(wire.MapItemListFromSlice(mh.KeyType, mh.ValueType, ms)), nil
	}
	return wire.Value{}, ErrUnknownType(t)
}

// Chunked is a non-seekable reader that returns the data in pieces decided by
// a policy and counts what it handed out.
type Chunked struct {
	Data     []byte
	Pos      int
	Policy   string // "one", "rand", "all", "zero"
	Rng      *rand.Rand
	Reads    int
	zeroNext bool
}

// NewChunked builds a Chunked reader.
func NewChunked(data []byte, policy string, seed int64) *Chunked {
	return &Chunked{Data: data, Policy: policy, Rng: rand.New(rand.NewSource(seed))}
}

func (c *Chunked) Read(p []byte) (int, error) {
	c.Reads++
	if len(p) == 0 {
		return 0, nil
	}
	if c.Pos >= len(c.Data) {
		return 0, io.EOF
	}
	n := len(p)
	switch c.Policy {
	case "one":
		n = 1
	case "zero":
		// alternate zero-length reads with one-byte reads
		c.zeroNext = !c.zeroNext
		if c.zeroNext {
			return 0, nil
		}
		n = 1
	case "rand":
		if c.Rng.Intn(4) == 0 {
			return 0, nil
		}
		n = 1 + c.Rng.Intn(len(p))
	case "dataeof":
		// random splits; the read that delivers the last byte reports io.EOF together with the data (io.Reader allows it)
		n = 1 + c.Rng.Intn(len(p))
	}
	if n > len(p) {
		n = len(p)
	}
	if n > len(c.Data)-c.Pos {
		n = len(c.Data) - c.Pos
	}
	copy(p, c.Data[c.Pos:c.Pos+n])
	c.Pos += n
	if c.Policy == "dataeof" && c.Pos >= len(c.Data) {
		return n, io.EOF
	}
	return n, nil
}
