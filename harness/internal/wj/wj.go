// Package wj is the projection between thriftrw wire values and the JSON
// value terms interpreted by specs/Wire.tla.  It only splits and joins bits;
// every encoding decision (endianness, headers) is made by the specification.
package wj

import (
	"crypto/sha256"
	"encoding/hex"
	"fmt"
	"math"

	"go.uber.org/thriftrw/wire"
)

// J is a JSON object.
type J = map[string]interface{}

// BigBinary is the size above which a binary is abstracted to {len, sha}.
const BigBinary = 4096

// Limbs splits a 64-bit pattern into four 16-bit limbs, most significant first.
func Limbs(u uint64) []int {
	return []int{int(u >> 48 & 0xffff), int(u >> 32 & 0xffff), int(u >> 16 & 0xffff), int(u & 0xffff)}
}

// FromLimbs joins four limbs.
func FromLimbs(l []interface{}) (uint64, error) {
	if len(l) != 4 {
		return 0, fmt.Errorf("limbs: want 4 got %d", len(l))
	}
	var u uint64
	for _, x := range l {
		f, ok := x.(float64)
		if !ok {
			return 0, fmt.Errorf("limb not a number")
		}
		u = u<<16 | uint64(uint16(int64(f)))
	}
	return u, nil
}

// Bytes renders a byte slice as a JSON array of ints.
func Bytes(b []byte) []int {
	out := make([]int, len(b))
	for i, x := range b {
		out[i] = int(x)
	}
	return out
}

// ToBytes parses a JSON array of ints.
func ToBytes(x interface{}) ([]byte, error) {
	arr, ok := x.([]interface{})
	if !ok {
		return nil, fmt.Errorf("bytes: not an array: %T", x)
	}
	out := make([]byte, len(arr))
	for i, e := range arr {
		f, ok := e.(float64)
		if !ok || f < 0 || f > 255 {
			return nil, fmt.Errorf("bytes: bad element %v", e)
		}
		out[i] = byte(f)
	}
	return out, nil
}

// Force materialises every lazy container of v (without closing anything) and
// returns an equivalent slice-backed value.  An error from any ForEach is
// returned.
func Force(v wire.Value) (wire.Value, error) {
	switch v.Type() {
	case wire.TStruct:
		fs := v.GetStruct().Fields
		out := make([]wire.Field, 0, len(fs))
		for _, f := range fs {
			fv, err := Force(f.Value)
			if err != nil {
				return wire.Value{}, err
			}
			out = append(out, wire.Field{ID: f.ID, Value: fv})
		}
		return wire.NewValueStruct(wire.Struct{Fields: out}), nil
	case wire.TList, wire.TSet:
		l := v.GetList()
		var items []wire.Value
		err := l.ForEach(func(e wire.Value) error {
			fe, err := Force(e)
			if err != nil {
				return err
			}
			items = append(items, fe)
			return nil
		})
		if err != nil {
			return wire.Value{}, err
		}
		nl := wire.ValueListFromSlice(l.ValueType(), items)
		if v.Type() == wire.TSet {
			return wire.NewValueSet(nl), nil
		}
		return wire.NewValueList(nl), nil
	case wire.TMap:
		m := v.GetMap()
		var items []wire.MapItem
		err := m.ForEach(func(e wire.MapItem) error {
			k, err := Force(e.Key)
			if err != nil {
				return err
			}
			val, err := Force(e.Value)
			if err != nil {
				return err
			}
			items = append(items, wire.MapItem{Key: k, Value: val})
			return nil
		})
		if err != nil {
			return wire.Value{}, err
		}
		return wire.NewValueMap(wire.MapItemListFromSlice(m.KeyType(), m.ValueType(), items)), nil
	default:
		return v, nil
	}
}

// ToJSON projects a (forced) wire value.
func ToJSON(v wire.Value) J {
	t := int(v.Type())
	switch v.Type() {
	case wire.TBool:
		n := 0
		if v.GetBool() {
			n = 1
		}
		return J{"t": t, "n": n}
	case wire.TI8:
		return J{"t": t, "n": int(v.GetI8())}
	case wire.TI16:
		return J{"t": t, "n": int(v.GetI16())}
	case wire.TI32:
		return J{"t": t, "n": int(v.GetI32())}
	case wire.TI64:
		return J{"t": t, "l": Limbs(uint64(v.GetI64()))}
	case wire.TDouble:
		return J{"t": t, "l": Limbs(math.Float64bits(v.GetDouble()))}
	case wire.TBinary:
		b := v.GetBinary()
		if len(b) > BigBinary {
			h := sha256.Sum256(b)
			return J{"t": t, "b": []int{}, "len": len(b), "sha": hex.EncodeToString(h[:])}
		}
		return J{"t": t, "b": Bytes(b)}
	case wire.TStruct:
		fs := make([]J, 0, len(v.GetStruct().Fields))
		for _, f := range v.GetStruct().Fields {
			fs = append(fs, J{"id": int(f.ID), "v": ToJSON(f.Value)})
		}
		return J{"t": t, "f": fs}
	case wire.TList, wire.TSet:
		l := v.GetList()
		es := make([]J, 0, l.Size())
		_ = l.ForEach(func(e wire.Value) error { es = append(es, ToJSON(e)); return nil })
		return J{"t": t, "et": int(l.ValueType()), "e": es}
	case wire.TMap:
		m := v.GetMap()
		ms := make([]J, 0, m.Size())
		_ = m.ForEach(func(e wire.MapItem) error {
			ms = append(ms, J{"k": ToJSON(e.Key), "v": ToJSON(e.Value)})
			return nil
		})
		return J{"t": t, "kt": int(m.KeyType()), "vt": int(m.ValueType()), "m": ms}
	}
	return J{"t": t}
}

func num(j J, k string) (int64, error) {
	f, ok := j[k].(float64)
	if !ok {
		return 0, fmt.Errorf("field %q not a number in %v", k, j)
	}
	return int64(f), nil
}

// FromJSON parses a value term.
func FromJSON(x interface{}) (wire.Value, error) {
	j, ok := x.(map[string]interface{})
	if !ok {
		return wire.Value{}, fmt.Errorf("value: not an object: %T", x)
	}
	t, err := num(j, "t")
	if err != nil {
		return wire.Value{}, err
	}
	switch wire.Type(t) {
	case wire.TBool:
		n, err := num(j, "n")
		return wire.NewValueBool(n != 0), err
	case wire.TI8:
		n, err := num(j, "n")
		return wire.NewValueI8(int8(n)), err
	case wire.TI16:
		n, err := num(j, "n")
		return wire.NewValueI16(int16(n)), err
	case wire.TI32:
		n, err := num(j, "n")
		return wire.NewValueI32(int32(n)), err
	case wire.TI64:
		l, _ := j["l"].([]interface{})
		u, err := FromLimbs(l)
		return wire.NewValueI64(int64(u)), err
	case wire.TDouble:
		l, _ := j["l"].([]interface{})
		u, err := FromLimbs(l)
		return wire.NewValueDouble(math.Float64frombits(u)), err
	case wire.TBinary:
		b, err := ToBytes(j["b"])
		return wire.NewValueBinary(b), err
	case wire.TStruct:
		arr, _ := j["f"].([]interface{})
		fs := make([]wire.Field, 0, len(arr))
		for _, e := range arr {
			fj, ok := e.(map[string]interface{})
			if !ok {
				return wire.Value{}, fmt.Errorf("field: not an object")
			}
			id, err := num(fj, "id")
			if err != nil {
				return wire.Value{}, err
			}
			fv, err := FromJSON(fj["v"])
			if err != nil {
				return wire.Value{}, err
			}
			fs = append(fs, wire.Field{ID: int16(id), Value: fv})
		}
		return wire.NewValueStruct(wire.Struct{Fields: fs}), nil
	case wire.TList, wire.TSet:
		et, err := num(j, "et")
		if err != nil {
			return wire.Value{}, err
		}
		arr, _ := j["e"].([]interface{})
		es := make([]wire.Value, 0, len(arr))
		for _, e := range arr {
			ev, err := FromJSON(e)
			if err != nil {
				return wire.Value{}, err
			}
			es = append(es, ev)
		}
		l := wire.ValueListFromSlice(wire.Type(et), es)
		if wire.Type(t) == wire.TSet {
			return wire.NewValueSet(l), nil
		}
		return wire.NewValueList(l), nil
	case wire.TMap:
		kt, err := num(j, "kt")
		if err != nil {
			return wire.Value{}, err
		}
		vt, err := num(j, "vt")
		if err != nil {
			return wire.Value{}, err
		}
		arr, _ := j["m"].([]interface{})
		ms := make([]wire.MapItem, 0, len(arr))
		for _, e := range arr {
			mj, ok := e.(map[string]interface{})
			if !ok {
				return wire.Value{}, fmt.Errorf("map item: not an object")
			}
			k, err := FromJSON(mj["k"])
			if err != nil {
				return wire.Value{}, err
			}
			v, err := FromJSON(mj["v"])
			if err != nil {
				return wire.Value{}, err
			}
			ms = append(ms, wire.MapItem{Key: k, Value: v})
		}
		return wire.NewValueMap(wire.MapItemListFromSlice(wire.Type(kt), wire.Type(vt), ms)), nil
	}
	return wire.Value{}, fmt.Errorf("value: unknown type %d", t)
}
