module verifharness

go 1.22.1

require (
	go.uber.org/thriftrw v0.0.0
	pgregory.net/rapid v1.3.0
)

replace go.uber.org/thriftrw => /repo
