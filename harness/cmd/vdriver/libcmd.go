package main

// c16lib: a real plugin built with the plugin library (harness/cmd/libplugin) is driven by a host written
// by hand (frames and envelope headers are assembled and parsed here, not by the code under test), following
// the scripts of PluginLib.tla.

import (
	"bytes"
	"encoding/binary"
	"io"
	"os/exec"
	"sort"
	"time"

	"go.uber.org/thriftrw/plugin/api"
	tbinary "go.uber.org/thriftrw/protocol/binary"
	"go.uber.org/thriftrw/wire"
	"verifharness/internal/wj"
)

func init() { register("c16lib", cmdC16Lib) }

var libNames = map[string]string{"hs": "Plugin:handshake", "gen": "ServiceGenerator:generate", "bye": "Plugin:goodbye",
	"nomethod": "Plugin:nope", "nosvc": "Nope:handshake", "nocolon": "handshake"}

func libRequest(kind string, seq int32) []byte {
	if kind == "garbage" {
		return []byte{0xde, 0xad, 0xbe, 0xef, 0x00, 0x01, 0x02}
	}
	name := libNames[kind]
	var body wire.Value
	switch kind {
	case "gen":
		args := api.ServiceGenerator_Generate_Helper.Args(&api.GenerateServiceRequest{RootServices: []api.ServiceID{},
			Services: map[api.ServiceID]*api.Service{}, Modules: map[api.ModuleID]*api.Module{}, PackagePrefix: "x", ThriftRoot: "/v"})
		body, _ = args.ToWire()
	case "bye":
		body, _ = api.Plugin_Goodbye_Helper.Args().ToWire()
	default:
		body, _ = api.Plugin_Handshake_Helper.Args(&api.HandshakeRequest{}).ToWire()
	}
	var b bytes.Buffer
	b.Write([]byte{0x80, 0x01, 0x00, byte(wire.Call)})
	var n [4]byte
	binary.BigEndian.PutUint32(n[:], uint32(len(name)))
	b.Write(n[:])
	b.WriteString(name)
	binary.BigEndian.PutUint32(n[:], uint32(seq))
	b.Write(n[:])
	tbinary.Default.Encode(body, &b)
	return b.Bytes()
}

type frameOrErr struct {
	b   []byte
	err error
}

func runLibScript(lib string, hasGen bool, script []string) wj.J {
	o := wj.J{"hung": false, "exit": -1, "replies": []wj.J{}, "extra": 0, "setup": ""}
	cmd := exec.Command(lib)
	if hasGen {
		cmd.Env = append(cmd.Environ(), "LIBPLUGIN_GEN=1")
	}
	stdin, _ := cmd.StdinPipe()
	stdout, _ := cmd.StdoutPipe()
	var stderr bytes.Buffer
	cmd.Stderr = &stderr
	if err := cmd.Start(); err != nil {
		o["setup"] = err.Error()
		return o
	}
	frames := make(chan frameOrErr, 16)
	go func() {
		for {
			var hdr [4]byte
			if _, err := io.ReadFull(stdout, hdr[:]); err != nil {
				frames <- frameOrErr{nil, err}
				return
			}
			buf := make([]byte, binary.BigEndian.Uint32(hdr[:]))
			if _, err := io.ReadFull(stdout, buf); err != nil {
				frames <- frameOrErr{nil, err}
				return
			}
			frames <- frameOrErr{buf, nil}
		}
	}()
	var replies []wj.J
	stdoutDone := false
	take := func(d time.Duration) ([]byte, bool) {
		if stdoutDone {
			return nil, false
		}
		select {
		case f := <-frames:
			if f.err != nil {
				stdoutDone = true
				return nil, false
			}
			return f.b, true
		case <-time.After(d):
			return nil, false
		}
	}
	for i, kind := range script {
		req := libRequest(kind, int32(100+i))
		var hdr [4]byte
		binary.BigEndian.PutUint32(hdr[:], uint32(len(req)))
		if _, err := stdin.Write(append(hdr[:], req...)); err != nil {
			break // the plugin is gone
		}
		b, ok := take(3 * time.Second)
		if !ok {
			break
		}
		replies = append(replies, projectLibReply(b))
	}
	stdin.Close()
	done := make(chan error, 1)
	go func() { done <- cmd.Wait() }()
	// anything the plugin still writes is one reply too many
	extra := 0
	for {
		if _, ok := take(300 * time.Millisecond); !ok {
			break
		}
		extra++
	}
	select {
	case err := <-done:
		code := 0
		if err != nil {
			code = -2
			if ee, ok := err.(*exec.ExitError); ok {
				code = ee.ExitCode()
			}
		}
		o["exit"] = code
	case <-time.After(10 * time.Second):
		o["hung"] = true
		cmd.Process.Kill()
		<-done
	}
	if replies == nil {
		replies = []wj.J{}
	}
	o["replies"], o["extra"], o["stderr"] = replies, extra, stderr.String()
	return o
}

// projectLibReply parses the envelope header by hand and the body through the generated api types.
func projectLibReply(b []byte) wj.J {
	r := wj.J{"ok": false, "ty": 0, "name": "", "seq": 0, "hsname": "", "version": 0, "features": []int{}, "files": []string{}, "exc": 0}
	if len(b) < 12 || b[0] != 0x80 || b[1] != 0x01 {
		return r
	}
	n := int(binary.BigEndian.Uint32(b[4:8]))
	if n < 0 || 8+n+4 > len(b) {
		return r
	}
	r["ty"], r["name"], r["seq"] = int(b[3]), string(b[8:8+n]), int(int32(binary.BigEndian.Uint32(b[8+n:12+n])))
	body, err := tbinary.Default.Decode(bytes.NewReader(b[12+n:]), wire.TStruct)
	if err != nil {
		return r
	}
	r["ok"] = true
	switch {
	case b[3] == byte(wire.Exception):
		for _, f := range body.GetStruct().Fields {
			if f.ID == 2 && f.Value.Type() == wire.TI32 {
				r["exc"] = int(f.Value.GetI32())
			}
		}
	case r["name"] == "Plugin:handshake":
		var res api.Plugin_Handshake_Result
		if res.FromWire(body) == nil && res.Success != nil {
			r["hsname"], r["version"] = res.Success.Name, int(res.Success.APIVersion)
			fs := []int{}
			for _, f := range res.Success.Features {
				fs = append(fs, int(f))
			}
			r["features"] = fs
		}
	case r["name"] == "ServiceGenerator:generate":
		var res api.ServiceGenerator_Generate_Result
		if res.FromWire(body) == nil && res.Success != nil {
			fs := []string{}
			for p := range res.Success.Files {
				fs = append(fs, p)
			}
			sort.Strings(fs)
			r["files"] = fs
		}
	}
	return r
}

func cmdC16Lib(args []string) error {
	c := newCommon("c16lib")
	lib := c.fs.String("libplugin", "", "path of the libplugin binary")
	c.fs.Parse(args)
	out, err := newObsWriter(c.out)
	if err != nil {
		return err
	}
	defer out.close()
	return readCases(c.cases, func(m map[string]interface{}) error {
		hasGen, _ := m["gen"].(bool)
		var script []string
		if xs, ok := m["script"].([]interface{}); ok {
			for _, x := range xs {
				s, _ := x.(string)
				script = append(script, s)
			}
		}
		o := wj.J{"op": "c16lib", "id": m["id"], "case": m, "panic": ""}
		var res wj.J
		o["panic"] = safelyLong(func() { res = runLibScript(*lib, hasGen, script) })
		for k, v := range res {
			o[k] = v
		}
		return out.write(o)
	})
}
