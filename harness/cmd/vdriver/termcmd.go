package main

import (
	"encoding/json"
	"fmt"
	"math/rand"
	"os"
	"path/filepath"
	"sort"
	"strings"

	"go.uber.org/thriftrw/compile"
	"go.uber.org/thriftrw/gen"
	"verifharness/internal/wj"
)

func init() { register("c08", cmdC08) }

// compileAndGenerate runs the compiler and, if it succeeds, the generator.
func compileAndGenerate(files map[string]string, root string, outDir string, nonStrict bool) wj.J {
	o := wj.J{"cok": false, "cerr": "", "gran": false, "gok": false, "gerr": "", "nfiles": 0}
	opts := []compile.Option{compile.Filesystem(memFS(files))}
	if nonStrict {
		opts = append(opts, compile.NonStrict())
	}
	m, err := compile.Compile(root, opts...)
	if err != nil {
		o["cerr"] = err.Error()
		return o
	}
	o["cok"] = m != nil
	if m == nil {
		return o
	}
	o["gran"] = true
	os.RemoveAll(outDir)
	err = gen.Generate(m, &gen.Options{
		OutputDir:      outDir,
		PackagePrefix:  "example.com/gen",
		ThriftRoot:     filepath.Dir(root),
		NoVersionCheck: true,
	})
	if err != nil {
		o["gerr"] = err.Error()
	} else {
		o["gok"] = true
		n := 0
		filepath.Walk(outDir, func(p string, info os.FileInfo, err error) error {
			if err == nil && !info.IsDir() {
				n++
			}
			return nil
		})
		o["nfiles"] = n
	}
	os.RemoveAll(outDir)
	return o
}

// cyclePrograms builds programs containing a reference cycle of the given kind
// and length (1..3) -- kinds beyond those of the Linker.tla families.
func cyclePrograms() []map[string]string {
	var out []map[string]string
	names := []string{"A", "B", "C"}
	for n := 1; n <= 3; n++ {
		next := func(i int) string { return names[(i+1)%n] }
		kinds := map[string]func(i int) string{
			"typedef":      func(i int) string { return fmt.Sprintf("typedef %s %s", next(i), names[i]) },
			"typedef-list": func(i int) string { return fmt.Sprintf("typedef list<%s> %s", next(i), names[i]) },
			"typedef-map":  func(i int) string { return fmt.Sprintf("typedef map<string, %s> %s", next(i), names[i]) },
			"typedef-set":  func(i int) string { return fmt.Sprintf("typedef set<%s> %s", next(i), names[i]) },
			"struct-req":   func(i int) string { return fmt.Sprintf("struct %s { 1: required %s f }", names[i], next(i)) },
			"struct-list":  func(i int) string { return fmt.Sprintf("struct %s { 1: optional list<%s> f }", names[i], next(i)) },
			"union":        func(i int) string { return fmt.Sprintf("union %s { 1: %s f }", names[i], next(i)) },
			"exception":    func(i int) string { return fmt.Sprintf("exception %s { 1: optional %s f }", names[i], next(i)) },
			"const":        func(i int) string { return fmt.Sprintf("const i32 %s = %s", strings.ToLower(names[i]), strings.ToLower(next(i))) },
			"const-list":   func(i int) string { return fmt.Sprintf("const list<i32> %s = [%s]", strings.ToLower(names[i]), strings.ToLower(next(i))) },
			"const-map": func(i int) string {
				return fmt.Sprintf("const map<string, i32> %s = {\"k\": %s}", strings.ToLower(names[i]), strings.ToLower(next(i)))
			},
			"struct-default": func(i int) string {
				return fmt.Sprintf("struct %s { 1: optional %s f = {} }", names[i], next(i))
			},
			"struct-default-const": func(i int) string {
				return fmt.Sprintf("struct %s { 1: optional %s f = k%s }\nconst %s k%s = {}", names[i], next(i), next(i), names[i], names[i])
			},
			"service": func(i int) string { return fmt.Sprintf("service %s extends %s {}", names[i], next(i)) },
			"service-fn": func(i int) string {
				return fmt.Sprintf("struct %s { 1: optional %s f }\nservice S%s { %s get(1: %s a) }", names[i], next(i), names[i], names[i], next(i))
			},
			"typedef-struct": func(i int) string {
				if i%2 == 0 {
					return fmt.Sprintf("typedef %s %s", next(i), names[i])
				}
				return fmt.Sprintf("struct %s { 1: optional %s f }", names[i], next(i))
			},
		}
		var ks []string
		for k := range kinds {
			ks = append(ks, k)
		}
		sort.Strings(ks)
		for _, k := range ks {
			var sb strings.Builder
			for i := 0; i < n; i++ {
				sb.WriteString(kinds[k](i))
				sb.WriteString("\n")
			}
			out = append(out, map[string]string{"/v/a.thrift": sb.String(), "#kind": fmt.Sprintf("%s/%d", k, n)})
		}
		// include loops of length n (a -> b -> c -> a), and the same with cross-file references
		files := map[string]string{"#kind": fmt.Sprintf("include/%d", n)}
		files2 := map[string]string{"#kind": fmt.Sprintf("include-ref/%d", n)}
		fn := []string{"a", "b", "c"}
		for i := 0; i < n; i++ {
			nx := fn[(i+1)%n]
			files["/v/"+fn[i]+".thrift"] = fmt.Sprintf("include \"./%s.thrift\"\nstruct S { 1: optional i32 x }\n", nx)
			files2["/v/"+fn[i]+".thrift"] = fmt.Sprintf("include \"./%s.thrift\"\ntypedef %s.T T\nstruct S { 1: optional %s.S x }\nconst i32 c = %s.c\nservice V extends %s.V {}\n", nx, nx, nx, nx, nx)
		}
		out = append(out, files, files2)
	}
	return out
}

var idlTokens = []string{"struct", "union", "exception", "enum", "service", "typedef", "const", "include", "namespace", "extends",
	"required", "optional", "oneway", "void", "throws", "list", "map", "set", "i32", "i64", "string", "binary", "bool", "double", "byte",
	"{", "}", "(", ")", "<", ">", "[", "]", ",", ";", ":", "=", "\"", "'", "1", "-1", "0x7fffffffffffffff", "99999999999999999999", "1e400", ".", "a.b", "A", "B",
	"/*", "*/", "//", "#", "\n", "\\", "@", "\x00", "\xff"}

func mutateText(r *rand.Rand, src string) string {
	b := []byte(src)
	n := 1 + r.Intn(3)
	for k := 0; k < n; k++ {
		tok := idlTokens[r.Intn(len(idlTokens))]
		switch r.Intn(4) {
		case 0: // insert token
			i := r.Intn(len(b) + 1)
			b = append(b[:i], append([]byte(" "+tok+" "), b[i:]...)...)
		case 1: // delete a span
			if len(b) > 0 {
				i := r.Intn(len(b))
				j := i + 1 + r.Intn(8)
				if j > len(b) {
					j = len(b)
				}
				b = append(b[:i], b[j:]...)
			}
		case 2: // replace an identifier-ish word
			words := strings.Fields(string(b))
			if len(words) > 0 {
				w := words[r.Intn(len(words))]
				b = []byte(strings.Replace(string(b), w, tok, 1))
			}
		case 3: // truncate
			if len(b) > 0 {
				b = b[:r.Intn(len(b))]
			}
		}
	}
	return string(b)
}

func cmdC08(args []string) error {
	c := newCommon("c08")
	infPath := c.fs.String("inflight", "", "file receiving the case in flight")
	corpus := c.fs.String("corpus", "", "directory of valid .thrift files to mutate")
	builtin := c.fs.Bool("builtin", false, "run the built-in structural cycle family")
	c.fs.Parse(args)
	out, err := newObsWriter(c.out)
	if err != nil {
		return err
	}
	defer out.close()
	inf := newInflight(*infPath)
	r := rand.New(rand.NewSource(c.seed))
	tmp, err := os.MkdirTemp("", "c08out")
	if err != nil {
		return err
	}
	defer os.RemoveAll(tmp)
	emit := func(id, src string, files map[string]string, nonStrict bool) error {
		o := wj.J{"op": "c08", "id": id, "src": src, "files": files, "nonstrict": nonStrict, "panic": "",
			"cok": false, "cerr": "", "gran": false, "gok": false, "gerr": "", "nfiles": 0}
		mb, _ := json.Marshal(o)
		inf.set(mb)
		clean := map[string]string{}
		for k, v := range files {
			if !strings.HasPrefix(k, "#") {
				clean[k] = v
			}
		}
		var res wj.J
		o["panic"] = safely(func() { res = compileAndGenerate(clean, "/v/a.thrift", filepath.Join(tmp, "o"), nonStrict) })
		for k, v := range res {
			o[k] = v
		}
		cerr, _ := o["cerr"].(string)
		o["selfdef"] = strings.Contains(cerr, "is defined in terms of itself")
		return out.write(o)
	}
	err = readCases(c.cases, func(m map[string]interface{}) error {
		id, _ := m["id"].(string)
		if fm, ok := m["files"].(map[string]interface{}); ok {
			files := map[string]string{}
			for k, v := range fm {
				files[k], _ = v.(string)
			}
			ns, _ := m["nonstrict"].(bool)
			return emit(id, "replay", files, ns)
		}
		raw, _ := json.Marshal(m["prog"])
		var p aProg
		if err := json.Unmarshal(raw, &p); err != nil {
			return err
		}
		return emit(id, "linker-family", render(&p, r), false)
	})
	if err != nil {
		return err
	}
	if *builtin {
		for i, files := range cyclePrograms() {
			if err := emit(fmt.Sprintf("cycle-%d:%s", i, files["#kind"]), "cycle-family", files, i%2 == 1); err != nil {
				return err
			}
		}
	}
	var seeds []string
	if *corpus != "" {
		paths, _ := filepath.Glob(filepath.Join(*corpus, "*.thrift"))
		sort.Strings(paths)
		for _, p := range paths {
			b, err := os.ReadFile(p)
			if err == nil && len(b) < 20000 {
				seeds = append(seeds, string(b))
			}
		}
	}
	for i := 0; i < c.random; i++ {
		var text string
		switch {
		case len(seeds) == 0 || r.Intn(10) == 0:
			b := make([]byte, r.Intn(200))
			r.Read(b)
			text = string(b)
		default:
			text = mutateText(r, seeds[r.Intn(len(seeds))])
		}
		if err := emit(fmt.Sprintf("mut-%d", i), "mutant", map[string]string{"/v/a.thrift": text}, r.Intn(2) == 0); err != nil {
			return err
		}
	}
	return nil
}
