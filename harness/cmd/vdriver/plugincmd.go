package main

import (
	"bytes"
	"context"
	"encoding/json"
	"fmt"
	"os"
	"os/exec"
	"path/filepath"
	"sort"
	"strings"
	"time"

	"go.uber.org/thriftrw/compile"
	"go.uber.org/thriftrw/gen"
	"go.uber.org/thriftrw/plugin/api"
	"go.uber.org/thriftrw/verifhook"
	"verifharness/internal/wj"
)

func init() { register("c16", cmdC16) }

type pluginScript struct {
	Name      string            `json:"name"`
	Inst      string            `json:"inst,omitempty"` // the same plugin asked for more than once: instance label
	ReplyName string            `json:"replyName,omitempty"`
	Hs        string            `json:"hs"`
	Gen       string            `json:"gen"`
	Bye       string            `json:"bye"`
	Files     map[string]string `json:"files,omitempty"`
	TruncAt   int               `json:"truncAt"`
	OneByte   bool              `json:"onebyte"`
}

type pluginCase struct {
	ID      string            `json:"id"`
	Mode    string            `json:"mode"` // "inproc" | "cli"
	Plugins []pluginScript    `json:"plugins"`
	Thrift  map[string]string `json:"thrift,omitempty"` // relative path under the sandbox -> text
	Root    string            `json:"root,omitempty"`   // thrift file to compile (relative)
	Args    []string          `json:"args,omitempty"`   // extra CLI args
	OutDir  string            `json:"outdir,omitempty"` // relative output dir (default "out")
	Direct  map[string]string `json:"direct,omitempty"` // mode "direct": files answered by an in-process ServiceGenerator
	NoPlugin bool             `json:"noplugin,omitempty"` // mode "direct": gen.Generate called without any plugin (library use)
	Pre     [][]string        `json:"pre,omitempty"`    // cli mode: earlier runs (extra args each, no plugins) whose output is already in place
}

func (p pluginScript) key() string {
	if p.Inst != "" {
		return p.Name + "#" + p.Inst
	}
	return p.Name
}

func (p pluginScript) args() []string {
	if p.Inst != "" {
		return []string{"--inst=" + p.Inst}
	}
	return nil
}

func installPlugins(dir, fake string, ps []pluginScript) error {
	for _, p := range ps {
		b, _ := json.Marshal(p)
		if err := os.WriteFile(filepath.Join(dir, p.key()+".script.json"), b, 0644); err != nil {
			return err
		}
		dst := filepath.Join(dir, "thriftrw-plugin-"+p.Name)
		os.Remove(dst)
		if err := os.Symlink(fake, dst); err != nil {
			return err
		}
	}
	return nil
}

func readPluginLog(dir, name string) []string {
	var evs []string
	b, err := os.ReadFile(filepath.Join(dir, name+".log"))
	if err != nil {
		return []string{}
	}
	for _, line := range strings.Split(string(b), "\n") {
		if line == "" {
			continue
		}
		var e struct {
			Ev     string `json:"ev"`
			Method string `json:"method"`
		}
		if json.Unmarshal([]byte(line), &e) == nil {
			if e.Ev == "recv" {
				evs = append(evs, e.Method)
			} else {
				evs = append(evs, e.Ev)
			}
		}
	}
	if evs == nil {
		evs = []string{}
	}
	return evs
}

func listTree(root string) map[string]string {
	out := map[string]string{}
	filepath.Walk(root, func(p string, info os.FileInfo, err error) error {
		if err != nil || info.IsDir() {
			return nil
		}
		rel, _ := filepath.Rel(root, p)
		if info.Mode()&os.ModeSymlink != 0 {
			return nil
		}
		b, _ := os.ReadFile(p)
		out[rel] = sha(b)
		return nil
	})
	return out
}

func mentions(text, name, dir string) bool {
	return strings.Contains(text, fmt.Sprintf("%q", name)) || strings.Contains(text, filepath.Join(dir, "thriftrw-plugin-"+name))
}

func runInproc(c pluginCase, fake string, o wj.J) {
	dir, _ := os.MkdirTemp("", "c16p")
	defer os.RemoveAll(dir)
	if err := installPlugins(dir, fake, c.Plugins); err != nil {
		o["setup"] = err.Error()
		return
	}
	var flags verifhook.PluginFlags
	var cmds []*exec.Cmd
	for _, p := range c.Plugins {
		cmd := exec.Command(filepath.Join(dir, "thriftrw-plugin-"+p.Name), p.args()...)
		cmd.Env = append(os.Environ(), "FAKEPLUGIN_DIR="+dir)
		cmd.Stderr = os.Stderr
		cmds = append(cmds, cmd)
		flags = append(flags, verifhook.PluginFlag{Name: p.Name, Command: cmd})
	}
	done := make(chan struct{})
	var openErr, genErr, closeErr error
	var files []string
	go func() {
		defer close(done)
		handle, err := flags.Handle()
		openErr = err
		if err != nil {
			return
		}
		sg := handle.ServiceGenerator()
		req := &api.GenerateServiceRequest{RootServices: []api.ServiceID{}, Services: map[api.ServiceID]*api.Service{},
			Modules: map[api.ModuleID]*api.Module{}, PackagePrefix: "example.com/x", ThriftRoot: "/v"}
		res, err := sg.Generate(req)
		genErr = err
		if err == nil && res != nil {
			for p := range res.Files {
				files = append(files, p)
			}
		}
		closeErr = handle.Close()
	}()
	hung := false
	select {
	case <-done:
	case <-time.After(30 * time.Second):
		hung = true
		for _, cmd := range cmds {
			if cmd.Process != nil {
				cmd.Process.Kill()
			}
		}
		<-done
	}
	time.Sleep(20 * time.Millisecond)
	errText := func(e error) string {
		if e == nil {
			return ""
		}
		return e.Error()
	}
	sort.Strings(files)
	if files == nil {
		files = []string{}
	}
	o["hung"], o["openerr"], o["generr"], o["closeerr"], o["genfiles"] = hung, errText(openErr), errText(genErr), errText(closeErr), files
	all := errText(openErr) + "\n" + errText(genErr) + "\n" + errText(closeErr)
	o["failed"] = openErr != nil || genErr != nil || closeErr != nil
	var per []wj.J
	for i, p := range c.Plugins {
		per = append(per, wj.J{"name": p.Name, "events": readPluginLog(dir, p.key()), "reaped": cmds[i].ProcessState != nil,
			"started": cmds[i].Process != nil, "named": mentions(all, p.Name, dir)})
	}
	o["per"] = per
}

func runCLI(c pluginCase, fake, thriftrw string, o wj.J) {
	sandbox, _ := os.MkdirTemp("", "c16s")
	defer os.RemoveAll(sandbox)
	pdir := filepath.Join(sandbox, "plugins")
	os.MkdirAll(pdir, 0755)
	if err := installPlugins(pdir, fake, c.Plugins); err != nil {
		o["setup"] = err.Error()
		return
	}
	thrift := c.Thrift
	root := c.Root
	if len(thrift) == 0 {
		thrift = map[string]string{"idl/svc.thrift": "struct Req { 1: optional string q }\nservice Search { string find(1: Req r) }\n"}
		root = "idl/svc.thrift"
	}
	for rel, text := range thrift {
		p := filepath.Join(sandbox, "work", rel)
		os.MkdirAll(filepath.Dir(p), 0755)
		os.WriteFile(p, []byte(text), 0644)
	}
	outRel := c.OutDir
	if outRel == "" {
		outRel = "out"
	}
	outDir := filepath.Join(sandbox, "work", outRel)
	os.MkdirAll(outDir, 0755)
	os.WriteFile(filepath.Join(outDir, "keep.txt"), []byte("pre-existing"), 0644)
	for _, pre := range c.Pre {
		pa := append([]string{"--out", outDir, "--pkg-prefix", "example.com/gen", "--no-version-check"}, pre...)
		pa = append(pa, filepath.Join(sandbox, "work", root))
		pc := exec.Command(thriftrw, pa...)
		pc.Dir = filepath.Join(sandbox, "work")
		if out, err := pc.CombinedOutput(); err != nil {
			o["setup"] = "earlier run failed: " + string(out)
			return
		}
	}
	before := listTree(filepath.Join(sandbox, "work"))
	args := []string{"--out", outDir, "--pkg-prefix", "example.com/gen", "--no-version-check"}
	for _, p := range c.Plugins {
		args = append(args, "--plugin", strings.Join(append([]string{p.Name}, p.args()...), " "))
	}
	args = append(args, c.Args...)
	args = append(args, filepath.Join(sandbox, "work", root))
	ctx, cancel := context.WithTimeout(context.Background(), 40*time.Second)
	defer cancel()
	cmd := exec.CommandContext(ctx, thriftrw, args...)
	cmd.Dir = filepath.Join(sandbox, "work")
	cmd.Env = append(os.Environ(), "FAKEPLUGIN_DIR="+pdir, "PATH="+pdir+":"+os.Getenv("PATH"))
	var stderr, stdout bytes.Buffer
	cmd.Stderr, cmd.Stdout = &stderr, &stdout
	err := cmd.Run()
	code := 0
	if err != nil {
		code = -1
		if ee, ok := err.(*exec.ExitError); ok {
			code = ee.ExitCode()
		}
	}
	time.Sleep(30 * time.Millisecond)
	after := listTree(filepath.Join(sandbox, "work"))
	var created, modified, deleted []string
	for p, h := range after {
		if bh, ok := before[p]; !ok {
			created = append(created, p)
		} else if bh != h {
			modified = append(modified, p)
		}
	}
	for p := range before {
		if _, ok := after[p]; !ok {
			deleted = append(deleted, p)
		}
	}
	sort.Strings(created)
	sort.Strings(modified)
	sort.Strings(deleted)
	nz := func(x []string) []string {
		if x == nil {
			return []string{}
		}
		return x
	}
	// anything written outside work/ (other than the plugin logs) is an escape
	var escaped []string
	filepath.Walk(sandbox, func(p string, info os.FileInfo, err error) error {
		if err != nil || info.IsDir() {
			return nil
		}
		rel, _ := filepath.Rel(sandbox, p)
		if !strings.HasPrefix(rel, "work/") && !strings.HasPrefix(rel, "plugins/") {
			escaped = append(escaped, rel)
		}
		return nil
	})
	o["hung"] = ctx.Err() != nil
	o["code"], o["stderr"] = code, stderr.String()
	o["created"], o["modified"], o["deleted"], o["escaped"] = nz(created), nz(modified), nz(deleted), nz(escaped)
	o["outrel"] = outRel
	var outside []string
	for _, p := range created {
		if !strings.HasPrefix(p, outRel+"/") {
			outside = append(outside, p)
		}
	}
	o["created_outside"] = nz(outside)
	var rel []string
	for _, p := range created {
		if strings.HasPrefix(p, outRel+"/") {
			rel = append(rel, strings.TrimPrefix(p, outRel+"/"))
		}
	}
	o["created_rel"] = nz(rel)
	var per []wj.J
	for _, p := range c.Plugins {
		per = append(per, wj.J{"name": p.Name, "events": readPluginLog(pdir, p.key()), "reaped": true, "started": true,
			"named": mentions(stderr.String(), p.Name, pdir)})
	}
	if per == nil {
		per = []wj.J{}
	}
	o["per"] = per
	o["failed"] = code != 0
}

// directGen is a ServiceGenerator handed to gen.Generate without the process / transport layer in between (the way
// library users and the plugin API generator use it): nothing has looked at the paths it answers with.
type directGen struct{ files map[string][]byte }

func (d directGen) Generate(*api.GenerateServiceRequest) (*api.GenerateServiceResponse, error) {
	return &api.GenerateServiceResponse{Files: d.files}, nil
}

func runDirect(c pluginCase, o wj.J) {
	sandbox, _ := os.MkdirTemp("", "c17d")
	defer os.RemoveAll(sandbox)
	work := filepath.Join(sandbox, "work")
	for rel, text := range c.Thrift {
		p := filepath.Join(work, rel)
		os.MkdirAll(filepath.Dir(p), 0755)
		os.WriteFile(p, []byte(text), 0644)
	}
	outRel := c.OutDir
	if outRel == "" {
		outRel = "out"
	}
	outDir := filepath.Join(work, outRel)
	os.MkdirAll(outDir, 0755)
	os.WriteFile(filepath.Join(outDir, "keep.txt"), []byte("pre-existing"), 0644)
	before := listTree(work)
	files := map[string][]byte{}
	for p, body := range c.Direct {
		files[p] = []byte(body)
	}
	var genErr error
	module, err := compile.Compile(filepath.Join(work, c.Root))
	if err != nil {
		o["setup"] = err.Error()
		return
	}
	opts := &gen.Options{OutputDir: outDir, PackagePrefix: "example.com/gen", ThriftRoot: filepath.Join(work, "idl"), NoVersionCheck: true}
	if !c.NoPlugin {
		opts.Plugin = gen.CodeGenerator{ServiceGenerator: directGen{files}}
	}
	genErr = gen.Generate(module, opts)
	after := listTree(work)
	var created, modified, deleted []string
	for p, h := range after {
		if bh, ok := before[p]; !ok {
			created = append(created, p)
		} else if bh != h {
			modified = append(modified, p)
		}
	}
	for p := range before {
		if _, ok := after[p]; !ok {
			deleted = append(deleted, p)
		}
	}
	sort.Strings(created)
	sort.Strings(modified)
	sort.Strings(deleted)
	nz := func(x []string) []string {
		if x == nil {
			return []string{}
		}
		return x
	}
	var escaped []string
	filepath.Walk(sandbox, func(p string, info os.FileInfo, err error) error {
		if err != nil || info.IsDir() {
			return nil
		}
		rel, _ := filepath.Rel(sandbox, p)
		if !strings.HasPrefix(rel, "work/") {
			escaped = append(escaped, rel)
		}
		return nil
	})
	var outside []string
	for _, p := range created {
		if !strings.HasPrefix(p, outRel+"/") {
			outside = append(outside, p)
		}
	}
	o["created"], o["modified"], o["deleted"], o["escaped"], o["created_outside"] = nz(created), nz(modified), nz(deleted), nz(escaped), nz(outside)
	o["outrel"] = outRel
	o["failed"] = genErr != nil
	if genErr != nil {
		o["code"], o["stderr"] = 1, genErr.Error()
	}
}

func cmdC16(args []string) error {
	c := newCommon("c16")
	fake := c.fs.String("fakeplugin", "", "path of the fakeplugin binary")
	thriftrw := c.fs.String("thriftrw", "", "path of the thriftrw binary (cli mode)")
	infPath := c.fs.String("inflight", "", "file receiving the case in flight")
	c.fs.Parse(args)
	out, err := newObsWriter(c.out)
	if err != nil {
		return err
	}
	defer out.close()
	inf := newInflight(*infPath)
	return readCases(c.cases, func(m map[string]interface{}) error {
		raw, _ := json.Marshal(m)
		var pc pluginCase
		if err := json.Unmarshal(raw, &pc); err != nil {
			return err
		}
		o := wj.J{"op": "c16", "id": pc.ID, "mode": pc.Mode, "case": m, "panic": "", "setup": "", "hung": false, "failed": false,
			"per": []wj.J{}, "openerr": "", "generr": "", "closeerr": "", "genfiles": []string{}, "code": 0, "stderr": "",
			"created": []string{}, "modified": []string{}, "deleted": []string{}, "escaped": []string{}, "outrel": "out", "created_outside": []string{}, "created_rel": []string{}}
		inf.set(raw)
		o["panic"] = safelyLong(func() {
			if pc.Mode == "cli" {
				runCLI(pc, *fake, *thriftrw, o)
			} else if pc.Mode == "direct" {
				runDirect(pc, o)
				o["mode"] = "cli" // judged by the file-system predicates of the CLI mode
			} else {
				runInproc(pc, *fake, o)
			}
		})
		return out.write(o)
	})
}

// safelyLong is safely without the short watchdog (plugin runs have their own timeouts).
func safelyLong(f func()) (panicked string) {
	defer func() {
		if r := recover(); r != nil {
			panicked = fmt.Sprint(r)
		}
	}()
	f()
	return ""
}
