package main

import (
	"bytes"
	"context"
	"fmt"
	"io"
	"math/rand"
	"strings"

	tenvelope "go.uber.org/thriftrw/envelope"
	"go.uber.org/thriftrw/protocol"
	"go.uber.org/thriftrw/protocol/binary"
	"go.uber.org/thriftrw/protocol/stream"
	"go.uber.org/thriftrw/verifhook"
	"go.uber.org/thriftrw/wire"
	"verifharness/internal/sx"
	"verifharness/internal/wj"
)

func init() { register("c12", cmdC12) }

func envErrClass(err error) string {
	if err != nil && strings.Contains(err.Error(), "unexpected envelope type") {
		return "wrongtype"
	}
	return errClass(err)
}

type bodyCatcher struct {
	v   wire.Value
	err error
}

func (b *bodyCatcher) Decode(r stream.Reader) error {
	b.v, b.err = sx.ReadValue(r, wire.TStruct)
	return b.err
}

type replyEnv struct {
	name string
	calls []sx.Call
}

func (r replyEnv) MethodName() string              { return r.name }
func (r replyEnv) EnvelopeType() wire.EnvelopeType { return wire.Reply }
func (r replyEnv) Encode(w stream.Writer) error    { return sx.Apply(w, r.calls) }

func reqRes() wj.J {
	return wj.J{"ok": false, "ec": "unset", "fr": "none", "name": []int{}, "seq": 0, "body": nilV, "reply": []int{}, "replyerr": "unset"}
}

func responderInfo(r interface{}, o wj.J) {
	switch x := r.(type) {
	case *binary.EnvelopeV0Responder:
		o["fr"], o["name"], o["seq"] = "legacy", wj.Bytes([]byte(x.Name)), int(x.SeqID)
	case *binary.EnvelopeV1Responder:
		o["fr"], o["name"], o["seq"] = "strict", wj.Bytes([]byte(x.Name)), int(x.SeqID)
	default:
		if r == interface{}(binary.NoEnvelopeResponder) {
			o["fr"] = "bare"
		} else {
			o["fr"] = fmt.Sprintf("unknown:%T", r)
		}
	}
}

var replyBody = wire.NewValueStruct(wire.Struct{Fields: []wire.Field{{ID: 0, Value: wire.NewValueI32(42)}}})

// the client and the plugin-side server of the envelope layer
type cannedTransport struct {
	res  []byte
	sent []byte
}

func (t *cannedTransport) Send(b []byte) ([]byte, error) {
	t.sent = append([]byte(nil), b...)
	return t.res, nil
}

type fixedHandler struct{ fail bool }

func (h fixedHandler) Handle(name string, body wire.Value) (wire.Value, error) {
	if h.fail {
		return wire.Value{}, fmt.Errorf("handler failed")
	}
	return replyBody, nil
}

// recHandler is a service behind the multiplex handler: it records how it was reached
type recHandler struct {
	svc    string
	called *bool
	gotSvc *string
	method *string
}

func (h recHandler) Handle(name string, body wire.Value) (wire.Value, error) {
	*h.called, *h.gotSvc, *h.method = true, h.svc, name
	return replyBody, nil
}

func replyClass(err error) string {
	if err == nil {
		return "none"
	}
	if strings.Contains(fmt.Sprintf("%T", err), "TApplicationException") {
		return "appexc"
	}
	return "err"
}

func clientSide(o wj.J, req []byte) {
	rr := wj.J{"ec": "unset", "seq": 0, "body": nilV}
	o["rr"] = rr
	v, seq, err := tenvelope.ReadReply(protocol.Binary, bytes.NewReader(req))
	rr["ec"], rr["seq"] = replyClass(err), int(seq)
	if err == nil {
		if fv, ferr := wj.Force(v); ferr == nil {
			rr["body"] = wj.ToJSON(fv)
		} else {
			rr["ec"] = "lazy-err"
		}
	}
	ic := wj.J{"ec": "unset", "sent": []int{}, "body": nilV}
	o["ic"] = ic
	tr := &cannedTransport{res: req}
	v, err = verifhook.NewEnvelopeClient(protocol.Binary, tr).Send("m", replyBody)
	ic["ec"], ic["sent"] = replyClass(err), wj.Bytes(tr.sent)
	if err == nil {
		if fv, ferr := wj.Force(v); ferr == nil {
			ic["body"] = wj.ToJSON(fv)
		} else {
			ic["ec"] = "lazy-err"
		}
	}
	// the multiplexing layer: services "a" and "" registered; the client prefixes its service name
	{
		var called bool
		var svc, method string
		mh := verifhook.NewMultiplexHandler()
		mh.Put("a", recHandler{"a", &called, &svc, &method})
		mh.Put("", recHandler{"", &called, &svc, &method})
		mx := wj.J{"ok": false, "routed": false, "svc": []int{}, "method": []int{}, "reply": []int{}}
		res, err := verifhook.NewEnvelopeServer(protocol.Binary, mh).Handle(req)
		if err == nil {
			mx["ok"], mx["reply"] = true, wj.Bytes(res)
		}
		mx["routed"], mx["svc"], mx["method"] = called, wj.Bytes([]byte(svc)), wj.Bytes([]byte(method))
		o["mx"] = mx
		tr := &cannedTransport{res: req}
		verifhook.NewMultiplexClient("Svc", verifhook.NewEnvelopeClient(protocol.Binary, tr)).Send("m", replyBody)
		o["mcsent"] = wj.Bytes(tr.sent)
	}
	for _, fail := range []bool{false, true} {
		is := wj.J{"ok": false, "reply": []int{}}
		res, err := verifhook.NewEnvelopeServer(protocol.Binary, fixedHandler{fail: fail}).Handle(req)
		if err == nil {
			is["ok"], is["reply"] = true, wj.Bytes(res)
		}
		if fail {
			o["isf"] = is
		} else {
			o["is"] = is
		}
	}
}

func c12Observe(id string, env wj.J, intact bool, req []byte, et wire.EnvelopeType, seed int64) wj.J {
	o := wj.J{"op": "c12", "id": id, "intact": intact, "req": wj.Bytes(req), "et": int(et), "panic": ""}
	if env != nil {
		o["env"] = env
	}
	o["ra"] = reqRes()
	o["st"] = []wj.J{}
	o["denv"] = wj.J{"ok": false, "ec": "unset", "name": []int{}, "ty": 0, "seq": 0, "body": nilV}
	o["senv"] = wj.J{"ok": false, "ec": "unset", "name": []int{}, "ty": 0, "seq": 0, "body": nilV}
	o["panic"] = safely(func() {
		// DecodeEnveloped
		de := o["denv"].(wj.J)
		e, err := binary.Default.DecodeEnveloped(bytes.NewReader(req))
		de["ec"] = envErrClass(err)
		if err == nil {
			var fv wire.Value
			fv, err = wj.Force(e.Value)
			de["ec"] = envErrClass(err)
			if err == nil {
				de["ok"], de["name"], de["ty"], de["seq"], de["body"] = true, wj.Bytes([]byte(e.Name)), int(e.Type), int(e.SeqID), wj.ToJSON(fv)
			}
		}
		// stream envelope header + body (ReadEnvelopeBegin), one-byte reads
		se := o["senv"].(wj.J)
		{
			ch := sx.NewChunked(req, "one", seed)
			r := binary.Default.Reader(ch)
			eh, err := r.ReadEnvelopeBegin()
			se["ec"] = envErrClass(err)
			if err == nil {
				var bv wire.Value
				bv, err = sx.ReadValue(r, wire.TStruct)
				se["ec"] = envErrClass(err)
				if err == nil {
					se["ok"], se["name"], se["ty"], se["seq"], se["body"] = true, wj.Bytes([]byte(eh.Name)), int(eh.Type), int(eh.SeqID), wj.ToJSON(bv)
				}
			}
			r.Close()
		}
		clientSide(o, req)
		// random-access request API
		ra := o["ra"].(wj.J)
		val, resp, err := binary.Default.DecodeRequest(et, bytes.NewReader(req))
		ra["ec"] = envErrClass(err)
		if err == nil {
			var fv wire.Value
			fv, err = wj.Force(val)
			ra["ec"] = envErrClass(err)
			if err == nil {
				ra["ok"], ra["body"] = true, wj.ToJSON(fv)
				responderInfo(resp, ra)
				var buf bytes.Buffer
				rerr := resp.EncodeResponse(replyBody, wire.Reply, &buf)
				ra["reply"], ra["replyerr"] = wj.Bytes(buf.Bytes()), errClass(rerr)
			}
		}
		// streaming request API under several reader kinds
		var sts []wj.J
		kinds := append([]string{"seek"}, policies...)
		for i, pol := range kinds {
			var rd io.Reader
			if pol == "seek" {
				rd = bytes.NewReader(req)
			} else {
				rd = sx.NewChunked(req, pol, seed+int64(i))
			}
			s := reqRes()
			bc := &bodyCatcher{}
			rw, err := binary.Default.ReadRequest(context.Background(), et, rd, bc)
			s["ec"] = envErrClass(err)
			if err == nil {
				s["ok"], s["body"] = true, wj.ToJSON(bc.v)
				responderInfo(rw, s)
				var buf bytes.Buffer
				rerr := rw.WriteResponse(wire.Reply, &buf, replyEnv{name: "ignored", calls: sx.Calls(replyBody)})
				s["reply"], s["replyerr"] = wj.Bytes(buf.Bytes()), errClass(rerr)
			}
			s["pol"] = pol
			sts = append(sts, s)
		}
		o["st"] = dedupe(sts)
	})
	return o
}

func encodeEnv(fr string, name []byte, ty int, seq int32, body wire.Value) ([]byte, error) {
	var buf bytes.Buffer
	e := wire.Envelope{Name: string(name), Type: wire.EnvelopeType(ty), SeqID: seq, Value: body}
	switch fr {
	case "strict":
		err := binary.Default.EncodeEnveloped(e, &buf)
		return buf.Bytes(), err
	case "legacy":
		w := binary.BorrowWriter(&buf)
		err := w.WriteLegacyEnveloped(e)
		binary.ReturnWriter(w)
		return buf.Bytes(), err
	default:
		err := binary.Default.Encode(body, &buf)
		return buf.Bytes(), err
	}
}


func cmdC12(args []string) error {
	c := newCommon("c12")
	damage := c.fs.Int("damage", 3, "damaged variants per envelope (-1 = all)")
	c.fs.Parse(args)
	out, err := newObsWriter(c.out)
	if err != nil {
		return err
	}
	defer out.close()
	r := rand.New(rand.NewSource(c.seed))
	emit := func(id string, env wj.J, name []byte, fr string, ty int, seq int32, body wire.Value, et int) error {
		var req []byte
		var encErr error
		if p := safely(func() { req, encErr = encodeEnv(fr, name, ty, seq, body) }); p != "" || encErr != nil {
			return out.write(wj.J{"op": "c12enc", "id": id, "env": env, "panic": p, "err": errClass(encErr)})
		}
		req = append([]byte(nil), req...)
		if err := out.write(c12Observe(id, env, true, req, wire.EnvelopeType(et), c.seed)); err != nil {
			return err
		}
		// the Damage action of MCEnvelope.tla
		var variants [][]byte
		for k := 0; k < len(req); k++ {
			variants = append(variants, req[:k])
		}
		if len(req) >= 1 {
			for _, b := range []byte{0, 1, 12, 127, 128, 255} {
				variants = append(variants, append([]byte{b}, req[1:]...))
			}
		}
		if len(req) >= 2 {
			for _, b := range []byte{0, 1, 2} {
				variants = append(variants, append([]byte{req[0], b}, req[2:]...))
			}
		}
		idx := r.Perm(len(variants))
		if *damage >= 0 && *damage < len(idx) {
			idx = idx[:*damage]
		}
		if len(req) >= 3 {
			// the third byte: reserved in a strict header (neither version nor type), part of the name length otherwise;
			// one of these variants is always replayed
			first := len(variants)
			for _, b := range []byte{1, 128, 255} {
				variants = append(variants, append([]byte{req[0], req[1], b}, req[3:]...))
			}
			idx = append(idx, first+r.Intn(3))
		}
		for _, i := range idx {
			if err := out.write(c12Observe(fmt.Sprintf("%s.d%d", id, i), env, false, variants[i], wire.EnvelopeType(et), c.seed)); err != nil {
				return err
			}
		}
		return nil
	}
	err = readCases(c.cases, func(m map[string]interface{}) error {
		id, _ := m["id"].(string)
		if raw, ok := m["req"]; ok { // raw request bytes
			b, err := wj.ToBytes(raw)
			if err != nil {
				return err
			}
			et, _ := m["et"].(float64)
			return out.write(c12Observe(id, nil, false, b, wire.EnvelopeType(et), c.seed))
		}
		env, _ := m["env"].(map[string]interface{})
		name, err := wj.ToBytes(env["name"])
		if err != nil {
			return err
		}
		body, err := wj.FromJSON(env["body"])
		if err != nil {
			return err
		}
		fr, _ := env["fr"].(string)
		ty, _ := env["ty"].(float64)
		seq, _ := env["seq"].(float64)
		et, _ := m["et"].(float64)
		return emit(id, wj.J(env), name, fr, int(ty), int32(seq), body, int(et))
	})
	if err != nil {
		return err
	}
	frs := []string{"strict", "legacy", "bare"}
	for i := 0; i < c.random; i++ {
		if r.Intn(8) == 0 { // arbitrary bytes: classification agreement
			b := make([]byte, r.Intn(40))
			r.Read(b)
			if len(b) > 0 && r.Intn(2) == 0 {
				b[0] = []byte{0, 0x80, 12, 11, 8}[r.Intn(5)]
			}
			if err := out.write(c12Observe(fmt.Sprintf("x%d", i), nil, false, b, wire.EnvelopeType(1+3*r.Intn(2)), c.seed+int64(i))); err != nil {
				return err
			}
			continue
		}
		n := 1 + r.Intn(12)
		if r.Intn(15) == 0 {
			n = 200 + r.Intn(3000)
		}
		if r.Intn(400) == 0 {
			n = 65535 + r.Intn(2)
		}
		name := make([]byte, n)
		r.Read(name)
		if r.Intn(3) == 0 {
			name[r.Intn(n)] = ':'
		}
		body := randValue(r, wire.TStruct, 1+r.Intn(2))
		fb, _ := wj.Force(body)
		ty := []int{1, 2, 3, 4, 1, 4}[r.Intn(6)]
		if r.Intn(2) == 0 {
			ty = r.Intn(128)
		}
		seq := int32(r.Uint32())
		fr := frs[r.Intn(3)]
		if len(name) > 300 {
			// long names are judged through the same path; keep the trace small by using a patterned name
			for k := range name {
				name[k] = byte('a' + k%26)
			}
		}
		env := wj.J{"fr": fr, "name": wj.Bytes(name), "ty": ty, "seq": int(seq), "body": wj.ToJSON(fb)}
		if err := emit(fmt.Sprintf("r%d", i), env, name, fr, ty, seq, fb, []int{1, 4}[r.Intn(2)]); err != nil {
			return err
		}
	}
	return nil
}
