package main

import (
	"crypto/sha256"
	"encoding/hex"
	"encoding/json"
	"fmt"
	"math/rand"
	"os"
	"path/filepath"
	"sort"
	"strings"

	"go.uber.org/thriftrw/compile"
	"go.uber.org/thriftrw/gen"
	"go.uber.org/thriftrw/plugin/api"
	"verifharness/internal/wj"
)

func init() { register("c10", cmdC10) }

type captureGen struct{ req *api.GenerateServiceRequest }

func (c *captureGen) Generate(r *api.GenerateServiceRequest) (*api.GenerateServiceResponse, error) {
	c.req = r
	return &api.GenerateServiceResponse{}, nil
}

// canonicalRequest renumbers module and service ids in a canonical order so
// that requests equal up to numbering have equal digests.
func canonicalRequest(r *api.GenerateServiceRequest) string {
	if r == nil {
		return ""
	}
	type modEnt struct {
		id api.ModuleID
		m  *api.Module
	}
	var mods []modEnt
	for id, m := range r.Modules {
		mods = append(mods, modEnt{id, m})
	}
	sort.Slice(mods, func(i, j int) bool { return mods[i].m.ThriftFilePath < mods[j].m.ThriftFilePath })
	modNew := map[api.ModuleID]int{}
	for i, e := range mods {
		modNew[e.id] = i + 1
	}
	type svcEnt struct {
		id api.ServiceID
		s  *api.Service
	}
	var svcs []svcEnt
	for id, s := range r.Services {
		svcs = append(svcs, svcEnt{id, s})
	}
	sort.Slice(svcs, func(i, j int) bool {
		a, b := svcs[i].s, svcs[j].s
		if modNew[a.ModuleID] != modNew[b.ModuleID] {
			return modNew[a.ModuleID] < modNew[b.ModuleID]
		}
		return a.ThriftName < b.ThriftName
	})
	svcNew := map[api.ServiceID]int{}
	for i, e := range svcs {
		svcNew[e.id] = i + 1
	}
	var sb strings.Builder
	fmt.Fprintf(&sb, "prefix=%s root=%s\n", r.PackagePrefix, r.ThriftRoot)
	for i, e := range mods {
		fmt.Fprintf(&sb, "module %d %s %s %s\n", i+1, e.m.ImportPath, e.m.Directory, e.m.ThriftFilePath)
	}
	for i, e := range svcs {
		parent := 0
		if e.s.ParentID != nil {
			parent = svcNew[*e.s.ParentID]
		}
		fb, _ := json.Marshal(e.s.Functions)
		ab, _ := json.Marshal(e.s.Annotations)
		fmt.Fprintf(&sb, "service %d name=%s thrift=%s module=%d parent=%d fns=%s ann=%s\n", i+1, e.s.Name, e.s.ThriftName, modNew[e.s.ModuleID], parent, fb, ab)
	}
	var roots, rootMods []int
	for _, id := range r.RootServices {
		roots = append(roots, svcNew[id])
	}
	for _, id := range r.RootModules {
		rootMods = append(rootMods, modNew[id])
	}
	sort.Ints(roots)
	sort.Ints(rootMods)
	fmt.Fprintf(&sb, "rootServices=%v rootModules=%v\n", roots, rootMods)
	return sb.String()
}

func sha(b []byte) string { s := sha256.Sum256(b); return hex.EncodeToString(s[:]) }

type genOpts struct {
	NoRecurse  bool   `json:"norecurse"`
	NoZap      bool   `json:"nozap"`
	StrictEnum bool   `json:"strictenum"`
	OutputFile string `json:"outputfile"`
}

// generateOnce compiles (natural or ordered) and generates into dir; returns file digests.
func generateOnce(files map[string]string, root string, order []step, natural bool, o genOpts, dir string) wj.J {
	res := wj.J{"ok": false, "phase": "compile", "files": map[string]string{}, "req": "", "err": ""}
	var m *compile.Module
	var err error
	if natural {
		m, err = compile.Compile(root, compile.Filesystem(memFS(files)))
	} else {
		steps := make([]compile.LinkStep, len(order))
		for i, s := range order {
			steps[i] = compile.LinkStep{Module: s.Key[0], Kind: s.Kind, Name: s.Key[1]}
		}
		m, err = compile.CompileWithLinkOrder(root, steps, compile.Filesystem(memFS(files)))
	}
	if err != nil {
		res["err"] = err.Error()
		return res
	}
	res["phase"] = "generate"
	os.RemoveAll(dir)
	cg := &captureGen{}
	err = gen.Generate(m, &gen.Options{
		OutputDir: dir, PackagePrefix: "example.com/gen", ThriftRoot: filepath.Dir(root), NoVersionCheck: true,
		NoRecurse: o.NoRecurse, NoZap: o.NoZap, EnumTextMarshalStrict: o.StrictEnum, OutputFile: o.OutputFile,
		Plugin: gen.CodeGenerator{ServiceGenerator: cg},
	})
	if err != nil {
		os.RemoveAll(dir)
		res["err"] = err.Error()
		return res
	}
	digests := map[string]string{}
	filepath.Walk(dir, func(p string, info os.FileInfo, err error) error {
		if err == nil && !info.IsDir() {
			b, _ := os.ReadFile(p)
			rel, _ := filepath.Rel(dir, p)
			digests[rel] = sha(b)
		}
		return nil
	})
	os.RemoveAll(dir)
	res["ok"], res["phase"], res["files"] = true, "done", digests
	res["req"] = sha([]byte(canonicalRequest(cg.req)))
	return res
}

// bigProgram builds a multi-file program whose maps have many entries
// (several hash buckets), with helper-name and import-alias pressure and
// constants of map / set / struct type.
func bigProgram(r *rand.Rand) map[string]string {
	files := map[string]string{}
	nfiles := 3 + r.Intn(3)
	names := []string{"a", "b", "c", "d", "e", "f"}[:nfiles]
	for i, fn := range names {
		var sb strings.Builder
		// includes: every later file, giving diamonds
		for j := i + 1; j < nfiles; j++ {
			if j == i+1 || r.Intn(2) == 0 {
				fmt.Fprintf(&sb, "include \"./%s.thrift\"\n", names[j])
			}
		}
		nt := 9 + r.Intn(6)
		for k := 0; k < nt; k++ {
			fmt.Fprintf(&sb, "enum E%d { X%d = %d, Y%d }\n", k, k, k+1, k)
			fmt.Fprintf(&sb, "typedef map<string, list<E%d>> M%d\n", k, k)
			fmt.Fprintf(&sb, "struct S%d {\n  1: required string name\n  2: optional M%d m\n  3: optional set<i32> ids = [1, 2, 3]\n  4: optional S%d nxt\n}\n", k, k, (k+1)%nt)
			fmt.Fprintf(&sb, "const map<string, set<i32>> K%d = {\"a\": [1, 2], \"b\": [3], \"c\": [4, 5, 6]}\n", k)
			fmt.Fprintf(&sb, "const S%d V%d = {\"name\": \"n%d\", \"ids\": [7, 8, 9]}\n", k, k, k)
			fmt.Fprintf(&sb, "exception X%dError { 1: optional string message }\n", k)
			fmt.Fprintf(&sb, "typedef i64 T%d\ntypedef string U%d\ntypedef double D%d\n", k, k, k)
		}
		// struct constants / defaults whose fields need pointer helpers of many distinct types
		sb.WriteString("struct R {\n")
		for k := 0; k < 6; k++ {
			fmt.Fprintf(&sb, "  %d: optional E%d e%d\n  %d: optional T%d t%d\n  %d: optional U%d u%d\n  %d: optional D%d d%d\n", 4*k+1, k, k, 4*k+2, k, k, 4*k+3, k, k, 4*k+4, k, k)
		}
		sb.WriteString("  100: optional i64 n\n  101: optional string s\n  102: optional double d\n  103: optional bool b\n  104: optional i8 by\n  105: optional i16 sh\n  106: optional i32 i3\n}\n")
		lit := func() string {
			var fs []string
			for k := 0; k < 6; k++ {
				fs = append(fs, fmt.Sprintf("\"e%d\": %d, \"t%d\": %d, \"u%d\": \"v%d\", \"d%d\": %d.5", k, k+1, k, k, k, k, k, k))
			}
			fs = append(fs, "\"n\": 5, \"s\": \"x\", \"d\": 1.5, \"b\": true, \"by\": 1, \"sh\": 2, \"i3\": 3")
			return "{" + strings.Join(fs, ", ") + "}"
		}
		fmt.Fprintf(&sb, "const R rconst = %s\n", lit())
		fmt.Fprintf(&sb, "const list<R> rlist = [%s, %s]\n", lit(), lit())
		fmt.Fprintf(&sb, "struct Q {\n  1: optional R r = %s\n  2: optional map<string, R> m = {\"k\": %s}\n}\n", lit(), lit())
		if i+1 < nfiles {
			fmt.Fprintf(&sb, "struct W { 1: optional %s.R other = {\"e0\": 1, \"t1\": 2, \"u2\": \"w\", \"n\": 9}\n  2: optional R mine = {\"e1\": 2, \"d3\": 1.0}\n}\n", names[i+1])
		}
		for k := 0; k < 9+r.Intn(4); k++ {
			parent := ""
			if k > 0 && r.Intn(2) == 0 {
				parent = fmt.Sprintf(" extends Svc%d", k-1)
			} else if i+1 < nfiles && r.Intn(3) == 0 {
				parent = fmt.Sprintf(" extends %s.Svc0", names[i+1])
			}
			fmt.Fprintf(&sb, "service Svc%d%s {\n  S%d get(1: string key, 2: M%d m) throws (1: X%dError err)\n  oneway void ping()\n  map<string, S%d> all()\n}\n", k, parent, k%nt, k%nt, k%nt, k%nt)
		}
		files["/v/"+fn+".thrift"] = sb.String()
	}
	return files
}

// collideProgram: packages with the same base name reached through different
// includes, with struct constants whose nested values come from both.
func collideProgram(r *rand.Rand) map[string]string {
	files := map[string]string{}
	common := func(tag string) string {
		return fmt.Sprintf("enum Kind { A = 1, B = 2 }\ntypedef i64 Stamp\nstruct Item { 1: optional Kind kind, 2: optional Stamp at, 3: optional string tag = \"%s\" }\nconst Item DEFAULT = {\"kind\": 1, \"at\": 7}\n", tag)
	}
	for _, d := range []string{"a", "b", "c", "d"} {
		files["/v/"+d+"/common.thrift"] = common(d)
		files["/v/via_"+d+".thrift"] = fmt.Sprintf("include \"./%s/common.thrift\"\nstruct Holder%s { 1: optional common.Item item = {\"kind\": 2, \"at\": 3}\n  2: optional common.Kind kind = 1\n  3: optional list<common.Item> items = [{\"kind\": 1}, {\"at\": 5}] }\nconst Holder%s H = {\"item\": {\"kind\": 1, \"at\": 2}, \"kind\": 2}\nconst common.Item I = common.DEFAULT\n", d, strings.ToUpper(d), strings.ToUpper(d))
	}
	var sb strings.Builder
	for _, d := range []string{"a", "b", "c", "d"} {
		fmt.Fprintf(&sb, "include \"./via_%s.thrift\"\n", d)
	}
	sb.WriteString("struct Everything {\n")
	for i, d := range []string{"a", "b", "c", "d"} {
		fmt.Fprintf(&sb, "  %d: optional via_%s.Holder%s h%s = {\"item\": {\"kind\": 1, \"at\": %d}, \"kind\": 2}\n", i+1, d, strings.ToUpper(d), d, i)
	}
	sb.WriteString("}\n")
	sb.WriteString("const Everything ALL = {\"ha\": {\"kind\": 1}, \"hb\": {\"item\": {\"at\": 1}}, \"hc\": {\"kind\": 2, \"item\": {\"kind\": 2}}, \"hd\": {}}\n")
	sb.WriteString("const list<Everything> MANY = [{\"ha\": {\"kind\": 1}}, {\"hd\": {\"item\": {\"kind\": 1, \"at\": 9}}}]\n")
	_ = r
	files["/v/a.thrift"] = sb.String()
	return files
}

// chainProgram: service inheritance chains that cross three and four files,
// where the file of a descendant does not include the file of a remote
// ancestor itself but a sibling include does (the generator must know every
// module an ancestor lives in, whichever file it happens to visit first).
func chainProgram(variant int) map[string]string {
	files := map[string]string{}
	files["/v/c.thrift"] = "struct CItem { 1: optional i32 v }\nservice SC { CItem base(1: CItem i) }\n"
	files["/v/m.thrift"] = "include \"./c.thrift\"\nservice SM extends c.SC { void mid() }\n"
	files["/v/a.thrift"] = "include \"./m.thrift\"\nservice SA extends m.SM { void leaf() }\nservice SA2 extends SA { void leaf2() }\n"
	files["/v/b.thrift"] = "include \"./c.thrift\"\nstruct BItem { 1: optional c.CItem c }\nservice SB extends c.SC { void other() }\n"
	if variant >= 3 {
		// services of one name in sibling files (and in the root): a service is identified by its file and its name
		files["/v/a.thrift"] += "service Health { bool ping() }\nservice Probe extends Health { void probe() }\nservice Lone { void fromA() }\n"
		files["/v/b.thrift"] += "service Health { string status() }\nservice Probe extends Health { void look() }\nservice Lone { void fromB() }\n"
		files["/v/c.thrift"] += "service Health { i32 code() }\n"
		files["/v/root.thrift"] = "include \"./a.thrift\"\ninclude \"./b.thrift\"\nservice Health extends b.Health { void own() }\nservice Top extends a.Probe { void top() }\n"
		return files
	}
	switch variant % 3 {
	case 0:
		files["/v/root.thrift"] = "include \"./a.thrift\"\ninclude \"./b.thrift\"\nstruct Use { 1: optional b.BItem i }\n"
	case 1:
		files["/v/root.thrift"] = "include \"./b.thrift\"\ninclude \"./a.thrift\"\nstruct Use { 1: optional b.BItem i }\nservice Root { void r() }\n"
	default:
		files["/v/d.thrift"] = "include \"./a.thrift\"\nservice SD extends a.SA2 { void d() }\n"
		files["/v/root.thrift"] = "include \"./d.thrift\"\ninclude \"./b.thrift\"\ninclude \"./m.thrift\"\nservice Root extends b.SB { b.BItem get() }\n"
	}
	return files
}

// aliasProgram: included packages that share a base name (or are named like a package the generated code imports) and
// are referred to only from services, so that the first thing to import them into the types file is the IDL embedding.
func aliasProgram(variant int) map[string]string {
	files := map[string]string{}
	// the generated code imports the standard "errors", "strings", "fmt" packages: an include of that name is imported as
	// errors2, and an include called errors2 wants that alias as well -- who gets it must not depend on map order
	names := []string{"errors", "errors2", "errors3", "strings", "strings2", "fmt", "fmt2"}
	if variant >= 2 {
		// includes whose names (and so the import paths of their packages) differ in case only: no ordering of the
		// import block may fold case, or the two tie
		names = []string{"Shapes", "shapes", "SHAPES", "Errors", "errors", "fmt", "Fmt"}
	}
	var sb strings.Builder
	for _, n := range names {
		files["/v/"+n+".thrift"] = fmt.Sprintf("exception Failure { 1: optional string why }\nstruct Item { 1: optional i32 v }\n")
		fmt.Fprintf(&sb, "include \"./%s.thrift\"\n", n)
	}
	if variant%2 == 0 {
		// nothing but the service refers to the includes
		sb.WriteString("struct Local { 1: required string name, 2: optional list<string> tags }\n")
	} else {
		sb.WriteString(fmt.Sprintf("struct Local { 1: required string name, 2: optional %s.Item b, 3: optional %s.Item c }\n", names[4], names[1]))
	}
	fmt.Fprintf(&sb, "service Svc { %s.Item get(1: %s.Item a, 2: %s.Item b, 3: %s.Item c, 4: %s.Item d, 5: %s.Item e, 6: %s.Item f) throws (1: %s.Failure x) }\n",
		names[0], names[1], names[2], names[3], names[4], names[5], names[6], names[1])
	files["/v/root.thrift"] = sb.String()
	return files
}

func cmdC10(args []string) error {
	c := newCommon("c10")
	infPath := c.fs.String("inflight", "", "file receiving the case in flight")
	runs := c.fs.Int("runs", 3, "natural-order runs per input in this process")
	maxOrders := c.fs.Int("orders", 6, "forced link orders per Linker-family program")
	corpus := c.fs.String("corpus", "", "directory of .thrift files (each compiled as a root)")
	big := c.fs.Int("big", 0, "number of big multi-file programs")
	proc := c.fs.String("proc", "p0", "label of this process (cross-process comparison)")
	c.fs.Parse(args)
	out, err := newObsWriter(c.out)
	if err != nil {
		return err
	}
	defer out.close()
	inf := newInflight(*infPath)
	r := rand.New(rand.NewSource(c.seed))
	tmp, err := os.MkdirTemp("", "c10out")
	if err != nil {
		return err
	}
	defer os.RemoveAll(tmp)
	optSets := []genOpts{{}, {NoZap: true}, {NoRecurse: true}, {StrictEnum: true}}
	var curProg interface{}
	emit := func(input string, files map[string]string, root string, order []step, natural bool, o genOpts, k int) error {
		ob, _ := json.Marshal(o)
		obs := wj.J{"op": "c10", "id": fmt.Sprintf("%s|%s|%s#%d", input, ob, *proc, k), "input": input + "|" + string(ob),
			"proc": *proc, "order": order, "natural": natural, "panic": "", "ok": false, "phase": "", "files": map[string]string{}, "req": "", "err": ""}
		if curProg != nil {
			obs["prog"] = curProg
		}
		mb, _ := json.Marshal(wj.J{"op": "c10", "input": input, "srcfiles": files, "order": order})
		inf.set(mb)
		var res wj.J
		obs["panic"] = safely(func() { res = generateOnce(files, root, order, natural, o, filepath.Join(tmp, "o")) })
		for key, v := range res {
			obs[key] = v
		}
		return out.write(obs)
	}
	// Linker-family programs: forced orders and natural runs
	err = readCases(c.cases, func(m map[string]interface{}) error {
		id, _ := m["id"].(string)
		raw, _ := json.Marshal(m["prog"])
		var p aProg
		if err := json.Unmarshal(raw, &p); err != nil {
			return err
		}
		files := render(&p, nil) // fixed text: only the schedule varies
		curProg = m["prog"]
		defer func() { curProg = nil }()
		k := 0
		for _, order := range allOrders(&p, *maxOrders, r) {
			if err := emit("fam:"+id, files, "/v/a.thrift", order, false, genOpts{}, k); err != nil {
				return err
			}
			k++
		}
		for i := 0; i < *runs; i++ {
			if err := emit("fam:"+id, files, "/v/a.thrift", []step{}, true, genOpts{}, k); err != nil {
				return err
			}
			k++
		}
		return nil
	})
	if err != nil {
		return err
	}
	// repository corpus: every file as a root, several option sets
	if *corpus != "" {
		paths, _ := filepath.Glob(filepath.Join(*corpus, "*.thrift"))
		sort.Strings(paths)
		files := map[string]string{}
		for _, p := range paths {
			b, err := os.ReadFile(p)
			if err == nil {
				files["/v/"+filepath.Base(p)] = string(b)
			}
		}
		for _, p := range paths {
			for _, o := range optSets {
				for i := 0; i < *runs; i++ {
					if err := emit("corpus:"+filepath.Base(p), files, "/v/"+filepath.Base(p), []step{}, true, o, i); err != nil {
						return err
					}
				}
			}
		}
	}
	// inheritance chains across files
	if *big > 0 {
		for v := 0; v < 4; v++ {
			files := chainProgram(v)
			for _, o := range optSets[:2] {
				for i := 0; i < 3**runs; i++ {
					if err := emit(fmt.Sprintf("chain:%d", v), files, "/v/root.thrift", []step{}, true, o, i); err != nil {
						return err
					}
				}
			}
		}
	}
	if *big > 0 {
		for v := 0; v < 4; v++ {
			files := aliasProgram(v)
			for _, o := range optSets[:2] {
				for i := 0; i < 4**runs; i++ {
					if err := emit(fmt.Sprintf("alias:%d", v), files, "/v/root.thrift", []step{}, true, o, i); err != nil {
						return err
					}
				}
			}
		}
	}
	// big programs (seeded independently of the process label so that processes agree on the text)
	for b := 0; b < *big; b++ {
		br := rand.New(rand.NewSource(c.seed*1000 + int64(b)))
		files := bigProgram(br)
		if b%3 == 2 {
			files = collideProgram(br)
		}
		for _, o := range optSets[:2] {
			for i := 0; i < *runs; i++ {
				if err := emit(fmt.Sprintf("big:%d", b), files, "/v/a.thrift", []step{}, true, o, i); err != nil {
					return err
				}
			}
		}
	}
	return nil
}
