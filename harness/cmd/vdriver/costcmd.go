package main

import (
	"bytes"
	"context"
	"encoding/json"
	"fmt"
	"io"
	"runtime"

	"go.uber.org/thriftrw/plugin/api"
	"go.uber.org/thriftrw/protocol/binary"
	"go.uber.org/thriftrw/protocol/stream"
	"go.uber.org/thriftrw/verifhook"
	"go.uber.org/thriftrw/wire"
	"verifharness/internal/sx"
	"verifharness/internal/wj"
)

func init() { register("c13", cmdC13) }

// countingReader counts the calls made on the underlying source: the
// deterministic work measure of C13 (wall time is never judged).
type countingReader struct {
	r     *bytes.Reader
	calls int
	bytes int64
}

func (c *countingReader) Read(p []byte) (int, error) {
	c.calls++
	n, err := c.r.Read(p)
	c.bytes += int64(n)
	return n, err
}
func (c *countingReader) ReadAt(p []byte, off int64) (int, error) {
	c.calls++
	n, err := c.r.ReadAt(p, off)
	c.bytes += int64(n)
	return n, err
}

type countingSeeker struct{ countingReader }

func (c *countingSeeker) Seek(off int64, whence int) (int64, error) {
	c.calls++
	return c.r.Seek(off, whence)
}

type streamDecoder interface{ Decode(stream.Reader) error }
type wireDecoder interface{ FromWire(wire.Value) error }

var genTypes = map[string]func() interface{}{
	"GenerateServiceRequest":  func() interface{} { return &api.GenerateServiceRequest{} },
	"GenerateServiceResponse": func() interface{} { return &api.GenerateServiceResponse{} },
	"HandshakeResponse":       func() interface{} { return &api.HandshakeResponse{} },
	"Service":                 func() interface{} { return &api.Service{} },
	"Function":                func() interface{} { return &api.Function{} },
	"Type":                    func() interface{} { return &api.Type{} },
	"Module":                  func() interface{} { return &api.Module{} },
	"Argument":                func() interface{} { return &api.Argument{} },
}

var c13APIs = []string{"ra-declared", "ra", "st", "skip-seek", "skip-stream", "denv", "dreq", "rreq", "senv", "frame"}

func allC13APIs() []string {
	out := append([]string{}, c13APIs...)
	for n := range genTypes {
		out = append(out, "gen-decode:"+n, "gen-fromwire:"+n, "gen-decode-seek:"+n)
	}
	out = append(out, "st-seek")
	return out
}

type discardBody struct{}

func (discardBody) Decode(r stream.Reader) error { _, err := sx.ReadValue(r, wire.TStruct); return err }

var lastDeclared int

// declaredMax is the largest item count any container reachable through eagerly decoded structs declares.
func declaredMax(v wire.Value, depth int) int {
	if depth > 16 {
		return 0
	}
	switch v.Type() {
	case wire.TStruct:
		m := 0
		for _, f := range v.GetStruct().Fields {
			if d := declaredMax(f.Value, depth+1); d > m {
				m = d
			}
		}
		return m
	case wire.TList:
		return v.GetList().Size()
	case wire.TSet:
		return v.GetSet().Size()
	case wire.TMap:
		return v.GetMap().Size()
	}
	return 0
}

// runAPI executes one decoding API on b; src counts the source calls.
func runAPI(apiName string, b []byte) (ok bool, calls int, err error) {
	cr := &countingReader{r: bytes.NewReader(b)}
	cs := &countingSeeker{countingReader{r: bytes.NewReader(b)}}
	defer func() {
		calls = cr.calls + cs.calls
		ok = err == nil
	}()
	switch {
	case apiName == "ra-declared":
		// decode without forcing anything: what the lazily held containers claim to hold
		lastDeclared = 0
		var v wire.Value
		if v, err = binary.Default.Decode(cr, wire.TStruct); err == nil {
			lastDeclared = declaredMax(v, 0)
		}
	case apiName == "ra":
		var v wire.Value
		if v, err = binary.Default.Decode(cr, wire.TStruct); err == nil {
			_, err = wj.Force(v)
		}
	case apiName == "st":
		r := binary.Default.Reader(io.Reader(cr))
		_, err = sx.ReadValue(r, wire.TStruct)
		r.Close()
	case apiName == "skip-seek":
		r := binary.Default.Reader(cs)
		err = r.Skip(wire.TStruct)
		r.Close()
	case apiName == "skip-stream":
		r := binary.Default.Reader(io.Reader(cr))
		err = r.Skip(wire.TStruct)
		r.Close()
	case apiName == "denv":
		var e wire.Envelope
		if e, err = binary.Default.DecodeEnveloped(cr); err == nil {
			_, err = wj.Force(e.Value)
		}
	case apiName == "dreq":
		var v wire.Value
		if v, _, err = binary.Default.DecodeRequest(wire.Call, cr); err == nil {
			_, err = wj.Force(v)
		}
	case apiName == "rreq":
		_, err = binary.Default.ReadRequest(context.Background(), wire.Call, io.Reader(cr), discardBody{})
	case apiName == "senv":
		r := binary.Default.Reader(io.Reader(cr))
		if _, err = r.ReadEnvelopeBegin(); err == nil {
			_, err = sx.ReadValue(r, wire.TStruct)
		}
		r.Close()
	case apiName == "frame":
		fr := verifhook.NewFrameReader(io.Reader(cr))
		_, err = fr.Read()
	case apiName == "st-seek":
		// the streaming reader over a seekable source (skips by seeking)
		r := binary.Default.Reader(cs)
		_, err = sx.ReadValue(r, wire.TStruct)
		r.Close()
	case len(apiName) > 16 && apiName[:16] == "gen-decode-seek:":
		// generated streaming Decode over a seekable source: mistyped containers are skipped item by item, by seeking
		mk, found := genTypes[apiName[16:]]
		if !found {
			return false, 0, fmt.Errorf("unknown generated type %q", apiName)
		}
		r := binary.Default.Reader(cs)
		err = mk().(streamDecoder).Decode(r)
		r.Close()
	case len(apiName) > 11 && apiName[:11] == "gen-decode:":
		mk, found := genTypes[apiName[11:]]
		if !found {
			return false, 0, fmt.Errorf("unknown generated type %q", apiName)
		}
		r := binary.Default.Reader(io.Reader(cr))
		err = mk().(streamDecoder).Decode(r)
		r.Close()
	case len(apiName) > 13 && apiName[:13] == "gen-fromwire:":
		mk, found := genTypes[apiName[13:]]
		if !found {
			return false, 0, fmt.Errorf("unknown generated type %q", apiName)
		}
		var v wire.Value
		if v, err = binary.Default.Decode(cr, wire.TStruct); err == nil {
			err = mk().(wireDecoder).FromWire(v)
		}
	default:
		return false, 0, fmt.Errorf("unknown api %q", apiName)
	}
	return
}

func c13Observe(id string, b []byte, apiName string, inf *inflight) wj.J {
	o := wj.J{"op": "c13", "id": id, "api": apiName, "n": len(b), "b": wj.Bytes(b), "alloc": 0, "calls": 0, "ok": false, "panic": "", "declared": 0}
	lastDeclared = 0
	if inf != nil {
		mb, _ := json.Marshal(o)
		inf.set(mb)
	}
	var m0, m1 runtime.MemStats
	runtime.ReadMemStats(&m0)
	var ok bool
	var calls int
	p := safely(func() { ok, calls, _ = runAPI(apiName, b) })
	runtime.ReadMemStats(&m1)
	o["alloc"] = int64(m1.TotalAlloc - m0.TotalAlloc)
	o["calls"], o["ok"], o["panic"] = calls, ok, p
	if apiName == "ra-declared" {
		o["declared"] = lastDeclared
	}
	return o
}

func cmdC13(args []string) error {
	c := newCommon("c13")
	infPath := c.fs.String("inflight", "", "file receiving the case in flight")
	c.fs.Parse(args)
	out, err := newObsWriter(c.out)
	if err != nil {
		return err
	}
	defer out.close()
	inf := newInflight(*infPath)
	apis := allC13APIs()
	return readCases(c.cases, func(m map[string]interface{}) error {
		b, err := wj.ToBytes(m["b"])
		if err != nil {
			return err
		}
		id, _ := m["id"].(string)
		if a, ok := m["api"].(string); ok {
			return out.write(c13Observe(id, b, a, inf))
		}
		for _, a := range apis {
			if err := out.write(c13Observe(id+"/"+a, b, a, inf)); err != nil {
				return err
			}
		}
		return nil
	})
}
