package main

import (
	"go/ast"
	"go/parser"
	"go/token"
	"os"
	"path/filepath"
	"sort"
	"strings"
)

func init() { register("c06names", cmdC06Names) }

// cmdC06Names lists, for every directory under -root that holds Go files, the
// package clause, the top-level identifiers, the methods (Type.Method) and the
// struct fields (Type.Field) of the generated code, or the syntax error if a
// file does not parse.
func cmdC06Names(args []string) error {
	c := newCommon("c06names")
	root := c.fs.String("root", "", "directory tree of generated packages")
	c.fs.Parse(args)
	ow, err := newObsWriter(c.out)
	if err != nil {
		return err
	}
	defer ow.close()
	dirs := map[string][]string{}
	filepath.Walk(*root, func(p string, info os.FileInfo, err error) error {
		if err == nil && !info.IsDir() && strings.HasSuffix(p, ".go") {
			dirs[filepath.Dir(p)] = append(dirs[filepath.Dir(p)], p)
		}
		return nil
	})
	keys := make([]string, 0, len(dirs))
	for d := range dirs {
		keys = append(keys, d)
	}
	sort.Strings(keys)
	for _, d := range keys {
		rel, _ := filepath.Rel(*root, d)
		row := map[string]interface{}{"dir": rel, "syntax": ""}
		names, methods, fields := []string{}, []string{}, []string{}
		pkg := ""
		for _, file := range dirs[d] {
			fset := token.NewFileSet()
			f, err := parser.ParseFile(fset, file, nil, 0)
			if err != nil {
				row["syntax"] = err.Error()
				continue
			}
			pkg = f.Name.Name
			for _, decl := range f.Decls {
				switch x := decl.(type) {
				case *ast.FuncDecl:
					if x.Recv == nil {
						if x.Name.Name != "init" {
							names = append(names, x.Name.Name)
						}
					} else if len(x.Recv.List) == 1 {
						t := x.Recv.List[0].Type
						if s, ok := t.(*ast.StarExpr); ok {
							t = s.X
						}
						if id, ok := t.(*ast.Ident); ok {
							methods = append(methods, id.Name+"."+x.Name.Name)
						}
					}
				case *ast.GenDecl:
					for _, s := range x.Specs {
						switch y := s.(type) {
						case *ast.TypeSpec:
							names = append(names, y.Name.Name)
							if st, ok := y.Type.(*ast.StructType); ok {
								for _, fl := range st.Fields.List {
									for _, n := range fl.Names {
										fields = append(fields, y.Name.Name+"."+n.Name)
									}
								}
							}
						case *ast.ValueSpec:
							for _, n := range y.Names {
								names = append(names, n.Name)
							}
						}
					}
				}
			}
		}
		sort.Strings(names)
		sort.Strings(methods)
		sort.Strings(fields)
		row["pkg"], row["names"], row["methods"], row["fields"] = pkg, names, methods, fields
		if err := ow.write(row); err != nil {
			return err
		}
	}
	return nil
}
