package main

import (
	"encoding/base64"
	"encoding/hex"
	"fmt"
	"math"
	"strconv"
	"time"

	"go.uber.org/thriftrw/ast"
	"go.uber.org/thriftrw/idl"
)

func init() { register("c11", cmdC11) }

// pnode is one node of the parsed tree in pre-order (the driver's own
// traversal by type switch, not ast.Walk).
type pnode struct {
	K    string `json:"k"`
	D    int    `json:"d"`
	L    int    `json:"l"`
	C    int    `json:"c"`
	N    string `json:"n"`
	V    string `json:"v"`
	Doc  string `json:"doc"`
	Node bool   `json:"node"` // false for ServiceReference, which is not an ast.Node
}

type pwalk struct {
	K  string `json:"k"`
	D  int    `json:"d"`
	L  int    `json:"l"`
	C  int    `json:"c"`
	PK string `json:"pk"`
	PL int    `json:"pl"`
	PC int    `json:"pc"`
}

type perr struct {
	L   int    `json:"l"`
	C   int    `json:"c"`
	Msg string `json:"msg"`
}

type dumper struct {
	info  *idl.Info
	nodes []pnode
	lit   []int // bytes of the first string constant
}

func hx(s string) string { return hex.EncodeToString([]byte(s)) }

func baseName(id ast.BaseTypeID) string {
	switch id {
	case ast.BoolTypeID:
		return "bool"
	case ast.I8TypeID:
		return "i8"
	case ast.I16TypeID:
		return "i16"
	case ast.I32TypeID:
		return "i32"
	case ast.I64TypeID:
		return "i64"
	case ast.DoubleTypeID:
		return "double"
	case ast.StringTypeID:
		return "string"
	case ast.BinaryTypeID:
		return "binary"
	}
	return fmt.Sprintf("base%d", int(id))
}

func kindOf(n ast.Node) string {
	switch x := n.(type) {
	case *ast.Program:
		return "Program"
	case *ast.Include:
		return "Include"
	case *ast.CppInclude:
		return "CppInclude"
	case *ast.Namespace:
		return "Namespace"
	case *ast.Constant:
		return "Constant"
	case *ast.Typedef:
		return "Typedef"
	case *ast.Enum:
		return "Enum"
	case *ast.EnumItem:
		return "EnumItem"
	case *ast.Struct:
		return "Struct"
	case *ast.Service:
		return "Service"
	case *ast.Function:
		return "Function"
	case *ast.Field:
		return "Field"
	case *ast.Annotation:
		return "Annotation"
	case ast.BaseType:
		return "BaseType"
	case ast.MapType:
		return "MapType"
	case ast.ListType:
		return "ListType"
	case ast.SetType:
		return "SetType"
	case ast.TypeReference:
		return "TypeReference"
	case ast.ConstantInteger:
		return "ConstInt"
	case ast.ConstantDouble:
		return "ConstDouble"
	case ast.ConstantBoolean:
		return "ConstBool"
	case ast.ConstantString:
		return "ConstString"
	case ast.ConstantReference:
		return "ConstRef"
	case ast.ConstantList:
		return "ConstList"
	case ast.ConstantMap:
		return "ConstMap"
	case ast.ConstantMapItem:
		return "ConstMapItem"
	default:
		return fmt.Sprintf("%T", x)
	}
}

func (d *dumper) add(n ast.Node, depth int, name, val, doc string) {
	p := d.info.Pos(n)
	d.nodes = append(d.nodes, pnode{K: kindOf(n), D: depth, L: p.Line, C: p.Column, N: name, V: val, Doc: doc, Node: true})
}

func (d *dumper) anns(as []*ast.Annotation, depth int) {
	for _, a := range as {
		d.add(a, depth, a.Name, hx(a.Value), "")
	}
}

func (d *dumper) typ(t ast.Type, depth int) {
	switch x := t.(type) {
	case nil:
	case ast.BaseType:
		d.add(x, depth, baseName(x.ID), "", "")
		d.anns(x.Annotations, depth+1)
	case ast.MapType:
		d.add(x, depth, "", "", "")
		d.typ(x.KeyType, depth+1)
		d.typ(x.ValueType, depth+1)
		d.anns(x.Annotations, depth+1)
	case ast.ListType:
		d.add(x, depth, "", "", "")
		d.typ(x.ValueType, depth+1)
		d.anns(x.Annotations, depth+1)
	case ast.SetType:
		d.add(x, depth, "", "", "")
		d.typ(x.ValueType, depth+1)
		d.anns(x.Annotations, depth+1)
	case ast.TypeReference:
		d.add(x, depth, x.Name, "", "")
	default:
		d.nodes = append(d.nodes, pnode{K: fmt.Sprintf("?%T", t), D: depth})
	}
}

func (d *dumper) val(v ast.ConstantValue, depth int) {
	switch x := v.(type) {
	case nil:
	case ast.ConstantInteger:
		d.add(x, depth, "", strconv.FormatInt(int64(x), 10), "")
	case ast.ConstantDouble:
		d.add(x, depth, "", fmt.Sprintf("%016x", math.Float64bits(float64(x))), "")
	case ast.ConstantBoolean:
		d.add(x, depth, "", strconv.FormatBool(bool(x)), "")
	case ast.ConstantString:
		d.add(x, depth, "", hx(string(x)), "")
		if d.lit == nil {
			d.lit = []int{}
			for _, b := range []byte(string(x)) {
				d.lit = append(d.lit, int(b))
			}
		}
	case ast.ConstantReference:
		d.add(x, depth, x.Name, "", "")
	case ast.ConstantList:
		d.add(x, depth, "", "", "")
		for _, it := range x.Items {
			d.val(it, depth+1)
		}
	case ast.ConstantMap:
		d.add(x, depth, "", "", "")
		for _, it := range x.Items {
			d.add(it, depth+1, "", "", "")
			d.val(it.Key, depth+2)
			d.val(it.Value, depth+2)
		}
	default:
		d.nodes = append(d.nodes, pnode{K: fmt.Sprintf("?%T", v), D: depth})
	}
}

func reqName(r ast.Requiredness) string {
	switch r {
	case ast.Required:
		return "required"
	case ast.Optional:
		return "optional"
	}
	return "unspecified"
}

func (d *dumper) fields(fs []*ast.Field, depth int) {
	for _, f := range fs {
		id := strconv.Itoa(f.ID)
		if f.IDUnset {
			id = "unset"
		}
		d.add(f, depth, f.Name, id+"/"+reqName(f.Requiredness), f.Doc)
		d.typ(f.Type, depth+1)
		d.val(f.Default, depth+1)
		d.anns(f.Annotations, depth+1)
	}
}

func (d *dumper) program(p *ast.Program) {
	d.add(p, 0, "", "", "")
	for _, h := range p.Headers {
		switch x := h.(type) {
		case *ast.Include:
			d.add(x, 1, x.Name, hx(x.Path), "")
		case *ast.CppInclude:
			d.add(x, 1, "", hx(x.Path), "")
		case *ast.Namespace:
			d.add(x, 1, x.Name, x.Scope, "")
		default:
			d.nodes = append(d.nodes, pnode{K: fmt.Sprintf("?%T", h), D: 1})
		}
	}
	for _, def := range p.Definitions {
		switch x := def.(type) {
		case *ast.Constant:
			d.add(x, 1, x.Name, "", x.Doc)
			d.typ(x.Type, 2)
			d.val(x.Value, 2)
		case *ast.Typedef:
			d.add(x, 1, x.Name, "", x.Doc)
			d.typ(x.Type, 2)
			d.anns(x.Annotations, 2)
		case *ast.Enum:
			d.add(x, 1, x.Name, "", x.Doc)
			for _, it := range x.Items {
				v := "auto"
				if it.Value != nil {
					v = strconv.Itoa(*it.Value)
				}
				d.add(it, 2, it.Name, v, it.Doc)
				d.anns(it.Annotations, 3)
			}
			d.anns(x.Annotations, 2)
		case *ast.Struct:
			kind := map[ast.StructureType]string{ast.StructType: "struct", ast.UnionType: "union", ast.ExceptionType: "exception"}[x.Type]
			d.add(x, 1, x.Name, kind, x.Doc)
			d.fields(x.Fields, 2)
			d.anns(x.Annotations, 2)
		case *ast.Service:
			d.add(x, 1, x.Name, "", x.Doc)
			if x.Parent != nil {
				d.nodes = append(d.nodes, pnode{K: "ParentRef", D: 2, L: x.Parent.Line, C: x.Parent.Column, N: x.Parent.Name})
			}
			for _, f := range x.Functions {
				v := "twoway"
				if f.OneWay {
					v = "oneway"
				}
				if f.ReturnType == nil {
					v += "/void"
				}
				d.add(f, 2, f.Name, v, f.Doc)
				d.typ(f.ReturnType, 3)
				d.fields(f.Parameters, 3)
				d.fields(f.Exceptions, 3)
				d.anns(f.Annotations, 3)
			}
			d.anns(x.Annotations, 2)
		default:
			d.nodes = append(d.nodes, pnode{K: fmt.Sprintf("?%T", def), D: 1})
		}
	}
}

type walkRec struct {
	info *idl.Info
	out  *[]pwalk
}

func (w walkRec) Visit(wk ast.Walker, n ast.Node) ast.Visitor {
	p := w.info.Pos(n)
	r := pwalk{K: kindOf(n), D: len(wk.Ancestors()), L: p.Line, C: p.Column}
	if par := wk.Parent(); par != nil {
		pp := w.info.Pos(par)
		r.PK, r.PL, r.PC = kindOf(par), pp.Line, pp.Column
		if anc := wk.Ancestors(); len(anc) == 0 || kindOf(anc[0]) != r.PK {
			r.PK = "ancestors-disagree"
		}
	}
	*w.out = append(*w.out, r)
	return w
}

// limRec records like walkRec but stops descending below a depth (limit < 0: never); combined with others through
// ast.MultiVisitor each must see what it would have seen alone
type limRec struct {
	walkRec
	limit int
}

func (w limRec) Visit(wk ast.Walker, n ast.Node) ast.Visitor {
	w.walkRec.Visit(wk, n)
	if w.limit >= 0 && len(wk.Ancestors()) >= w.limit {
		return nil
	}
	return limRec{w.walkRec, w.limit}
}

func parseOne(text []byte) (res map[string]interface{}) {
	res = map[string]interface{}{"mwalk": [][]pwalk{}, "ok": false, "panicked": false, "perrs": []perr{}, "nodes": []pnode{}, "walk": []pwalk{}, "both": false, "neither": false, "plainok": false, "lit": []int{}}
	defer func() {
		if r := recover(); r != nil {
			res["panicked"] = true
			res["panic"] = fmt.Sprint(r)
		}
	}()
	info := &idl.Info{}
	prog, err := (&idl.Config{Info: info}).Parse(text)
	res["both"] = prog != nil && err != nil
	res["neither"] = prog == nil && err == nil
	if err != nil {
		errs := []perr{}
		if pe, ok := err.(*idl.ParseError); ok {
			for _, e := range pe.Errors {
				errs = append(errs, perr{L: e.Pos.Line, C: e.Pos.Column, Msg: e.Err.Error()})
			}
		} else {
			errs = append(errs, perr{L: -1, C: -1, Msg: "not a *idl.ParseError: " + err.Error()})
		}
		res["perrs"] = errs
	}
	// the plain entry point must agree
	p2, err2 := idl.Parse(text)
	res["plainok"] = (p2 != nil) == (prog != nil) && (err2 != nil) == (err != nil)
	if prog != nil && err == nil {
		res["ok"] = true
		d := &dumper{info: info}
		d.program(prog)
		res["nodes"] = d.nodes
		if d.lit != nil {
			res["lit"] = d.lit
		}
		var wk []pwalk
		ast.Walk(walkRec{info: info, out: &wk}, prog)
		if wk == nil {
			wk = []pwalk{}
		}
		res["walk"] = wk
		limits := []int{1, -1, 2, 0}
		mw := make([][]pwalk, len(limits))
		var vs []ast.Visitor
		for i, lim := range limits {
			mw[i] = []pwalk{}
			vs = append(vs, limRec{walkRec{info: info, out: &mw[i]}, lim})
		}
		ast.Walk(ast.MultiVisitor(vs...), prog)
		res["mwalk"] = mw
	}
	return res
}

func cmdC11(args []string) error {
	c := newCommon("c11")
	infl := c.fs.String("inflight", "", "in-flight marker file")
	c.fs.Parse(args)
	ow, err := newObsWriter(c.out)
	if err != nil {
		return err
	}
	defer ow.close()
	fl := newInflight(*infl)
	return readCases(c.cases, func(m map[string]interface{}) error {
		id, _ := m["id"].(string)
		fl.set([]byte(id))
		var text []byte
		if s, ok := m["b64"].(string); ok {
			text, err = base64.StdEncoding.DecodeString(s)
			if err != nil {
				return err
			}
		} else if s, ok := m["text"].(string); ok {
			text = []byte(s)
		}
		var res map[string]interface{}
		watchdog(20*time.Second, func() { res = parseOne(text) })
		for k, v := range m {
			if k == "text" || k == "b64" {
				continue
			}
			if _, dup := res[k]; !dup {
				res[k] = v
			}
		}
		res["op"] = "c11"
		res["len"] = len(text)
		return ow.write(res)
	})
}
