package main

import (
	"encoding/json"
	"fmt"
	"go/ast"
	"go/parser"
	"go/token"
	"os"
	"path/filepath"
	"sort"
	"strconv"
	"strings"

	"go.uber.org/thriftrw/compile"
	"go.uber.org/thriftrw/gen"
	"go.uber.org/thriftrw/plugin"
	"go.uber.org/thriftrw/plugin/api"
	"verifharness/internal/wj"
)

func foldName(n string) string { return strings.ToLower(strings.ReplaceAll(n, "_", "")) }

func init() { register("c19", cmdC19) }

var goBuiltins = map[string]bool{"bool": true, "int8": true, "int16": true, "int32": true, "int64": true, "float64": true,
	"string": true, "byte": true, "error": true}

// typeString renders a type expression with every named user type written as "<pkgname>.<Name>",
// where pkgname is the last element of the defining package's import path.
func typeString(e ast.Expr, imports map[string]string, self string) string {
	switch x := e.(type) {
	case *ast.Ident:
		if goBuiltins[x.Name] {
			return x.Name
		}
		return self + "." + x.Name
	case *ast.StarExpr:
		return "*" + typeString(x.X, imports, self)
	case *ast.ArrayType:
		return "[]" + typeString(x.Elt, imports, self)
	case *ast.MapType:
		return "map[" + typeString(x.Key, imports, self) + "]" + typeString(x.Value, imports, self)
	case *ast.SelectorExpr:
		if id, ok := x.X.(*ast.Ident); ok {
			if p, ok := imports[id.Name]; ok {
				return filepath.Base(p) + "." + x.Sel.Name
			}
			return "?" + id.Name + "." + x.Sel.Name
		}
	case *ast.StructType:
		var fs []string
		for _, f := range x.Fields.List {
			for _, n := range f.Names {
				fs = append(fs, n.Name+" "+typeString(f.Type, imports, self))
			}
		}
		if len(fs) == 0 {
			return "struct{}"
		}
		return "struct{" + strings.Join(fs, "; ") + "}"
	case *ast.FuncType:
		return "func"
	}
	return fmt.Sprintf("?%T", e)
}

func importTable(f *ast.File) map[string]string {
	m := map[string]string{}
	for _, im := range f.Imports {
		p, _ := strconv.Unquote(im.Path.Value)
		name := filepath.Base(p)
		if im.Name != nil {
			name = im.Name.Name
		}
		m[name] = p
	}
	return m
}

type svcItem struct {
	Role string      `json:"role"` // "arg" | "exc" | "ret"
	Name string      `json:"name"` // Go field name
	T    interface{} `json:"t"`
	Req  bool        `json:"req"`
}

type svcFunc struct {
	Svc   string    `json:"svc"`
	GoSvc string    `json:"gosvc"`
	Fn    string    `json:"fn"`
	GoFn  string    `json:"gofn"`
	Pkg   string    `json:"pkg"`
	Items []svcItem `json:"items"`
}

type svcCase struct {
	ID        string            `json:"id"`
	Files     map[string]string `json:"files"`
	Root      string            `json:"root"`
	NoRecurse bool              `json:"norecurse"`
	Funcs     []svcFunc         `json:"funcs"`
	S         interface{}       `json:"S"`
}

func cmdC19(args []string) error {
	c := newCommon("c19")
	c.fs.Parse(args)
	out, err := newObsWriter(c.out)
	if err != nil {
		return err
	}
	defer out.close()
	tmp, err := os.MkdirTemp("", "c19")
	if err != nil {
		return err
	}
	defer os.RemoveAll(tmp)
	return readCases(c.cases, func(m map[string]interface{}) error {
		raw, _ := json.Marshal(m)
		var sc svcCase
		if err := json.Unmarshal(raw, &sc); err != nil {
			return err
		}
		return c19Run(out, sc, tmp)
	})
}

func c19Run(out *obsWriter, sc svcCase, tmp string) error {
	fail := func(stage string, err error) error {
		return out.write(wj.J{"op": "c19fail", "id": sc.ID, "stage": stage, "err": err.Error()})
	}
	root := filepath.Join(tmp, "idl")
	os.RemoveAll(tmp)
	for rel, text := range sc.Files {
		p := filepath.Join(root, rel)
		os.MkdirAll(filepath.Dir(p), 0755)
		os.WriteFile(p, []byte(text), 0644)
	}
	m, err := compile.Compile(filepath.Join(root, sc.Root))
	if err != nil {
		return fail("compile", err)
	}
	cg := &captureGen{}
	outDir := filepath.Join(tmp, "out")
	err = gen.Generate(m, &gen.Options{OutputDir: outDir, PackagePrefix: "example.com/gen", ThriftRoot: root, NoVersionCheck: true,
		NoRecurse: sc.NoRecurse, Plugin: gen.CodeGenerator{ServiceGenerator: cg}})
	if err != nil {
		return fail("generate", err)
	}
	req := cg.req
	// ---- request facts
	var mods, svcs []wj.J
	for id, mo := range req.Modules {
		mods = append(mods, wj.J{"id": int(id), "importPath": mo.ImportPath, "dir": mo.Directory, "thriftPath": strings.TrimPrefix(mo.ThriftFilePath, root+"/")})
	}
	sort.Slice(mods, func(i, j int) bool { return mods[i]["id"].(int) < mods[j]["id"].(int) })
	for id, s := range req.Services {
		parent := 0
		if s.ParentID != nil {
			parent = int(*s.ParentID)
		}
		fns := []string{}
		fdet := []wj.J{}
		for _, f := range s.Functions {
			fns = append(fns, f.ThriftName)
			args, excs := []string{}, []string{}
			// the request carries Go names (id -> ID, err2 -> Err2): compared modulo case and underscores
			for _, a := range f.Arguments {
				args = append(args, foldName(a.Name))
			}
			for _, x := range f.Exceptions {
				excs = append(excs, foldName(x.Name))
			}
			fdet = append(fdet, wj.J{"thriftName": f.ThriftName, "name": f.Name, "oneway": f.OneWay != nil && *f.OneWay, "args": args, "excs": excs, "hasRet": f.ReturnType != nil})
		}
		sort.Slice(fdet, func(i, j int) bool { return fdet[i]["thriftName"].(string) < fdet[j]["thriftName"].(string) })
		svcs = append(svcs, wj.J{"id": int(id), "name": s.Name, "thriftName": s.ThriftName, "module": int(s.ModuleID), "parent": parent, "functions": fns, "fdet": fdet})
	}
	sort.Slice(svcs, func(i, j int) bool { return svcs[i]["id"].(int) < svcs[j]["id"].(int) })
	roots := []int{}
	for _, id := range req.RootServices {
		roots = append(roots, int(id))
	}
	rootMods := []int{}
	for _, id := range req.RootModules {
		rootMods = append(rootMods, int(id))
	}
	// generated packages = directories under outDir that received .go files
	genDirs := map[string]bool{}
	filepath.Walk(outDir, func(p string, info os.FileInfo, err error) error {
		if err == nil && !info.IsDir() && strings.HasSuffix(p, ".go") {
			rel, _ := filepath.Rel(outDir, filepath.Dir(p))
			genDirs[rel] = true
		}
		return nil
	})
	var gd []string
	for d := range genDirs {
		gd = append(gd, d)
	}
	sort.Strings(gd)
	// services declared per thrift file, from the compiler's module graph (independent of the request)
	declared := []wj.J{}
	m.Walk(func(mm *compile.Module) error {
		var names []string
		for n := range mm.Services {
			names = append(names, n)
		}
		sort.Strings(names)
		det := []wj.J{}
		for _, n := range names {
			sp := mm.Services[n]
			par := []string{"", ""}
			if sp.Parent != nil {
				par = []string{strings.TrimPrefix(sp.Parent.File, root+"/"), sp.Parent.Name}
			}
			var fnames []string
			for fn := range sp.Functions {
				fnames = append(fnames, fn)
			}
			sort.Strings(fnames)
			fdet := []wj.J{}
			for _, fn := range fnames {
				f := sp.Functions[fn]
				args, excs := []string{}, []string{}
				// a go.name annotation renames the parameter / exception for Go, and the request carries Go names
				declName := func(fs *compile.FieldSpec) string {
					if n := fs.Annotations["go.name"]; n != "" {
						return foldName(n)
					}
					return foldName(fs.Name)
				}
				for _, a := range f.ArgsSpec {
					args = append(args, declName(a))
				}
				hasRet := false
				if f.ResultSpec != nil {
					hasRet = f.ResultSpec.ReturnType != nil
					for _, x := range f.ResultSpec.Exceptions {
						excs = append(excs, declName(x))
					}
				}
				fdet = append(fdet, wj.J{"thriftName": f.Name, "oneway": f.OneWay, "args": args, "excs": excs, "hasRet": hasRet})
			}
			det = append(det, wj.J{"name": n, "parent": par, "fdet": fdet})
		}
		declared = append(declared, wj.J{"thriftPath": strings.TrimPrefix(mm.ThriftPath, root+"/"), "services": names, "isRoot": mm == m, "det": det})
		return nil
	})
	if err := out.write(wj.J{"op": "c19req", "id": sc.ID, "norecurse": sc.NoRecurse, "prefix": req.PackagePrefix, "modules": mods, "services": svcs,
		"rootServices": roots, "rootModules": rootMods, "generatedDirs": gd, "declared": declared}); err != nil {
		return err
	}
	// ---- per function: formatted API types vs generated field / helper types
	byName := map[string]*api.Service{}
	modOf := map[string]*api.Module{}
	for _, s := range req.Services {
		byName[s.ThriftName] = s
		modOf[s.ThriftName] = req.Modules[s.ModuleID]
	}
	parsed := map[string]map[string]*ast.File{} // dir -> files
	parseDir := func(dir string) map[string]*ast.File {
		if fs, ok := parsed[dir]; ok {
			return fs
		}
		fset := token.NewFileSet()
		pkgs, _ := parser.ParseDir(fset, filepath.Join(outDir, dir), nil, 0)
		fs := map[string]*ast.File{}
		for _, p := range pkgs {
			for n, f := range p.Files {
				fs[n] = f
			}
		}
		parsed[dir] = fs
		return fs
	}
	findStruct := func(dir, name string) (*ast.StructType, *ast.File) {
		for _, f := range parseDir(dir) {
			for _, d := range f.Decls {
				gd, ok := d.(*ast.GenDecl)
				if !ok {
					continue
				}
				for _, sp := range gd.Specs {
					if ts, ok := sp.(*ast.TypeSpec); ok && ts.Name.Name == name {
						if st, ok := ts.Type.(*ast.StructType); ok {
							return st, f
						}
					}
				}
			}
		}
		return nil, nil
	}
	findHelper := func(dir, name string) (*ast.StructType, *ast.File) {
		for _, f := range parseDir(dir) {
			for _, d := range f.Decls {
				gd, ok := d.(*ast.GenDecl)
				if !ok || gd.Tok != token.VAR {
					continue
				}
				for _, sp := range gd.Specs {
					if vs, ok := sp.(*ast.ValueSpec); ok && len(vs.Names) == 1 && vs.Names[0].Name == name {
						if st, ok := vs.Type.(*ast.StructType); ok {
							return st, f
						}
						if len(vs.Values) == 1 {
							if cl, ok := vs.Values[0].(*ast.CompositeLit); ok {
								if st, ok := cl.Type.(*ast.StructType); ok {
									return st, f
								}
							}
						}
					}
				}
			}
		}
		return nil, nil
	}
	fieldType := func(st *ast.StructType, f *ast.File, field, self string) string {
		if st == nil {
			return "missing-struct"
		}
		for _, fl := range st.Fields.List {
			for _, n := range fl.Names {
				if n.Name == field {
					return typeString(fl.Type, importTable(f), self)
				}
			}
		}
		return "missing-field"
	}
	for _, fn := range sc.Funcs {
		s := byName[fn.Svc]
		if s == nil {
			out.write(wj.J{"op": "c19fail", "id": sc.ID, "stage": "service-not-in-request", "err": fn.Svc})
			continue
		}
		mo := modOf[fn.Svc]
		var af *api.Function
		for _, f := range s.Functions {
			if f.ThriftName == fn.Fn {
				af = f
			}
		}
		if af == nil {
			out.write(wj.J{"op": "c19fail", "id": sc.ID, "stage": "function-not-in-request", "err": fn.Fn})
			continue
		}
		self := filepath.Base(mo.ImportPath)
		// format every described type with the plugin library
		type item struct {
			Var  string
			Type *api.Type
		}
		var items []item
		for _, a := range af.Arguments {
			items = append(items, item{"arg_" + a.Name, a.Type})
		}
		for _, a := range af.Exceptions {
			items = append(items, item{"exc_" + a.Name, a.Type})
		}
		if af.ReturnType != nil {
			items = append(items, item{"ret_", af.ReturnType})
		}
		src, err := plugin.GoFileFromTemplate("x.go", "package x\n<range .>var <.Var> <formatType .Type>\n<end>", items, plugin.GoFileImportPath(mo.ImportPath))
		formatted := map[string]string{}
		if err == nil {
			fset := token.NewFileSet()
			pf, perr := parser.ParseFile(fset, "x.go", src, 0)
			if perr == nil {
				imps := importTable(pf)
				for _, d := range pf.Decls {
					if gd, ok := d.(*ast.GenDecl); ok && gd.Tok == token.VAR {
						for _, sp := range gd.Specs {
							vs := sp.(*ast.ValueSpec)
							formatted[vs.Names[0].Name] = typeString(vs.Type, imps, self)
						}
					}
				}
			}
		}
		argsSt, argsF := findStruct(mo.Directory, fn.GoSvc+"_"+fn.GoFn+"_Args")
		resSt, resF := findStruct(mo.Directory, fn.GoSvc+"_"+fn.GoFn+"_Result")
		helpSt, helpF := findHelper(mo.Directory, fn.GoSvc+"_"+fn.GoFn+"_Helper")
		wrapT, unwrapT := "none", "none"
		if helpSt != nil {
			for _, fl := range helpSt.Fields.List {
				ft, ok := fl.Type.(*ast.FuncType)
				if !ok || len(fl.Names) == 0 {
					continue
				}
				switch fl.Names[0].Name {
				case "WrapResponse":
					if ft.Params != nil && len(ft.Params.List) == 2 {
						wrapT = typeString(ft.Params.List[0].Type, importTable(helpF), self)
					} else {
						wrapT = "void"
					}
				case "UnwrapResponse":
					if ft.Results != nil && len(ft.Results.List) == 2 {
						unwrapT = typeString(ft.Results.List[0].Type, importTable(helpF), self)
					} else {
						unwrapT = "void"
					}
				}
			}
		}
		for _, it := range fn.Items {
			o := wj.J{"op": "c19item", "id": sc.ID, "svc": fn.Svc, "fn": fn.Fn, "pkg": self, "role": it.Role, "name": it.Name, "t": it.T, "req": it.Req, "S": sc.S,
				"formatted": "", "generated": "", "wrapT": wrapT, "unwrapT": unwrapT}
			switch it.Role {
			case "arg":
				o["formatted"] = formatted["arg_"+it.Name]
				o["generated"] = fieldType(argsSt, argsF, it.Name, self)
			case "exc":
				o["formatted"] = formatted["exc_"+it.Name]
				o["generated"] = fieldType(resSt, resF, it.Name, self)
			case "ret":
				o["formatted"] = formatted["ret_"]
				o["generated"] = fieldType(resSt, resF, "Success", self)
			}
			if err := out.write(o); err != nil {
				return err
			}
		}
	}
	return nil
}
