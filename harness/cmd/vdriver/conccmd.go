package main

import (
	"bytes"
	"context"
	"encoding/json"
	"fmt"
	"io"
	"math/rand"
	"runtime"
	"sort"
	"strconv"
	"strings"
	"sync"
	"sync/atomic"
	"time"

	"go.uber.org/thriftrw/plugin/api"
	"go.uber.org/thriftrw/protocol/binary"
	"go.uber.org/thriftrw/verifhook"
	"go.uber.org/thriftrw/wire"
	"verifharness/internal/sx"
	"verifharness/internal/wj"
)

func init() { register("c18", cmdC18) }

func goid() int {
	var buf [64]byte
	n := runtime.Stack(buf[:], false)
	f := strings.Fields(string(buf[:n]))
	if len(f) >= 2 {
		id, _ := strconv.Atoi(f[1])
		return id
	}
	return -1
}

type poolEvent struct {
	Seq   uint64 `json:"seq"`
	Kind  string `json:"kind"`
	Ev    string `json:"ev"`
	Obj   string `json:"obj"`
	Clean bool   `json:"clean"`
	G     int    `json:"g"`
}

// closeLazy closes every lazy container of a decoded value (after it was forced).
func closeLazy(v wire.Value) {
	switch v.Type() {
	case wire.TStruct:
		for _, f := range v.GetStruct().Fields {
			closeLazy(f.Value)
		}
	case wire.TList, wire.TSet:
		l := v.GetList()
		l.ForEach(func(e wire.Value) error { closeLazy(e); return nil })
		l.Close()
	case wire.TMap:
		m := v.GetMap()
		m.ForEach(func(e wire.MapItem) error { closeLazy(e.Key); closeLazy(e.Value); return nil })
		m.Close()
	}
}

func randService(r *rand.Rand) *api.Service {
	s := &api.Service{Name: fmt.Sprintf("S%d", r.Intn(1000)), ThriftName: fmt.Sprintf("s%d", r.Intn(1000)), ModuleID: api.ModuleID(r.Intn(9)),
		Functions: []*api.Function{}}
	for i := 0; i < r.Intn(4); i++ {
		f := &api.Function{Name: fmt.Sprintf("F%d", i), ThriftName: fmt.Sprintf("f%d", r.Intn(99)), Arguments: []*api.Argument{}}
		for j := 0; j < r.Intn(3); j++ {
			st := api.SimpleType(1 + r.Intn(8))
			f.Arguments = append(f.Arguments, &api.Argument{Name: fmt.Sprintf("a%d", j), Type: &api.Type{SliceType: &api.Type{SimpleType: &st}},
				Annotations: map[string]string{"k": fmt.Sprint(r.Intn(9))}})
		}
		s.Functions = append(s.Functions, f)
	}
	return s
}

// one operation = a kind plus a private input; run returns a digest of its result
type concOp struct {
	kind string
	seed int64
}

func (o concOp) run() (digest string) {
	defer func() {
		if r := recover(); r != nil {
			digest = "panic:" + fmt.Sprint(r)
		}
	}()
	r := rand.New(rand.NewSource(o.seed))
	v := randValue(r, wire.TStruct, 2)
	var enc bytes.Buffer
	switch o.kind {
	case "decode-large", "stream-decode-large":
		// a binary above the readers' incremental-allocation threshold (1 MiB), filled with a byte private to this
		// operation; the decoded slice is used only after the reader is closed and other goroutines had a chance to run
		fill := byte('A' + o.seed%26)
		payload := bytes.Repeat([]byte{fill}, 1<<20+1+int(o.seed%7))
		lv := wire.NewValueStruct(wire.Struct{Fields: []wire.Field{{ID: 1, Value: wire.NewValueBinary(payload)}, {ID: 2, Value: wire.NewValueString(string(payload[:1<<20+1]))}}})
		binary.Default.Encode(lv, &enc)
		var got wire.Value
		var err error
		if o.kind == "decode-large" {
			got, err = binary.Default.Decode(bytes.NewReader(enc.Bytes()), wire.TStruct)
		} else {
			rd := binary.Default.Reader(sx.NewChunked(enc.Bytes(), "rand", o.seed))
			got, err = sx.ReadValue(rd, wire.TStruct)
			rd.Close()
		}
		if err != nil {
			return "err:" + err.Error()
		}
		for i := 0; i < 3; i++ {
			runtime.Gosched()
		}
		time.Sleep(time.Millisecond)
		for _, f := range got.GetStruct().Fields {
			var bs []byte
			if f.ID == 1 {
				bs = f.Value.GetBinary()
			} else {
				bs = []byte(f.Value.GetString())
			}
			for _, c := range bs {
				if c != fill {
					return fmt.Sprintf("corrupt: field %d holds %q in a payload of %q", f.ID, c, fill)
				}
			}
		}
		return fmt.Sprintf("large-ok-%c", fill)
	case "decode-rejected":
		// an input the decoder accepts and forcing rejects (a bool byte other than 0 / 1 in a lazily held container), forced
		// with the library's own wire.EvaluateValue; then two valid maps alive at once
		shapes := [][]byte{
			{13, 0, 1, 3, 2, 0, 0, 0, 1, 1, 2, 0},                      // struct{1: map<i8,bool>{1: 2}}
			{13, 0, 1, 2, 3, 0, 0, 0, 1, 2, 1, 0},                      // struct{1: map<bool,i8>{2: 1}}
			{15, 0, 1, 2, 0, 0, 0, 1, 2, 0},                            // struct{1: list<bool>[2]}
			{14, 0, 1, 2, 0, 0, 0, 1, 7, 0},                            // struct{1: set<bool>[7]}
			{13, 0, 1, 3, 13, 0, 0, 0, 1, 1, 3, 2, 0, 0, 0, 1, 1, 9, 0}, // struct{1: map<i8, map<i8,bool>{1: 9}>}
		}
		in := shapes[int(o.seed%int64(len(shapes)))]
		dv, err := binary.Default.Decode(bytes.NewReader(in), wire.TStruct)
		if err != nil {
			return "err@decode:" + err.Error()
		}
		res := "accepted"
		if err := wire.EvaluateValue(dv); err != nil {
			res = "rejected:" + errClass(err)
		}
		mk := func(base int8) []byte {
			return []byte{13, 0, 1, 3, 3, 0, 0, 0, 2, byte(base), byte(base + 1), byte(base + 2), byte(base + 3), 0}
		}
		a, errA := binary.Default.Decode(bytes.NewReader(mk(int8(o.seed%50))), wire.TStruct)
		b, errB := binary.Default.Decode(bytes.NewReader(mk(int8(o.seed%50)+60)), wire.TStruct)
		if errA != nil || errB != nil {
			return res + ";err-valid"
		}
		runtime.Gosched()
		fa, _ := wj.Force(a)
		fb, _ := wj.Force(b)
		closeLazy(a)
		closeLazy(b)
		ja, _ := json.Marshal(wj.ToJSON(fa))
		jb, _ := json.Marshal(wj.ToJSON(fb))
		return res + ";" + sha(append(ja, jb...))
	case "encode-failing-sink":
		// the destination fails after a few bytes with an error private to this operation: the operation reports that error,
		// and the same value then encodes into a healthy buffer (here and in every other operation) as if nothing had happened
		own := fmt.Sprintf("sink-%d full", o.seed)
		sink := &failingSink{left: int(o.seed % 5), err: fmt.Errorf("%s", own)}
		var err error
		switch o.seed % 3 {
		case 0:
			err = binary.Default.Encode(v, sink)
		case 1:
			err = binary.Default.EncodeEnveloped(wire.Envelope{Name: "m", Type: wire.Call, SeqID: int32(o.seed % 100), Value: v}, sink)
		default:
			w := binary.Default.Writer(sink)
			err = sx.Apply(w, sx.Calls(v))
			w.Close()
		}
		res := "noerr"
		if err != nil {
			res = "alien:" + err.Error()
			if strings.Contains(err.Error(), own) {
				res = "own"
			}
		}
		if err := binary.Default.Encode(v, &enc); err != nil {
			return res + ";err:" + err.Error()
		}
		return res + ";" + sha(enc.Bytes())
	case "encode":
		if err := binary.Default.Encode(v, &enc); err != nil {
			return "err:" + err.Error()
		}
		return sha(enc.Bytes())
	case "decode":
		binary.Default.Encode(v, &enc)
		dv, err := binary.Default.Decode(bytes.NewReader(enc.Bytes()), wire.TStruct)
		if err != nil {
			return "err:" + err.Error()
		}
		fv, err := wj.Force(dv)
		closeLazy(dv)
		if err != nil {
			return "err:" + err.Error()
		}
		b, _ := json.Marshal(wj.ToJSON(fv))
		return sha(b)
	case "stream-encode":
		w := binary.Default.Writer(&enc)
		err := sx.Apply(w, sx.Calls(v))
		w.Close()
		if err != nil {
			return "err:" + err.Error()
		}
		return sha(enc.Bytes())
	case "stream-decode":
		binary.Default.Encode(v, &enc)
		rd := binary.Default.Reader(sx.NewChunked(enc.Bytes(), "rand", o.seed))
		sv, err := sx.ReadValue(rd, wire.TStruct)
		rd.Close()
		if err != nil {
			return "err:" + err.Error()
		}
		b, _ := json.Marshal(wj.ToJSON(sv))
		return sha(b)
	case "gen-wire":
		s := randService(r)
		w, err := s.ToWire()
		if err != nil {
			return "err:" + err.Error()
		}
		binary.Default.Encode(w, &enc)
		dv, err := binary.Default.Decode(bytes.NewReader(enc.Bytes()), wire.TStruct)
		if err != nil {
			return "err:" + err.Error()
		}
		var back api.Service
		if err := back.FromWire(dv); err != nil {
			return "err:" + err.Error()
		}
		return sha([]byte(back.String())) + sha(enc.Bytes())
	case "gen-stream":
		s := randService(r)
		w := binary.Default.Writer(&enc)
		err := s.Encode(w)
		w.Close()
		if err != nil {
			return "err:" + err.Error()
		}
		rd := binary.Default.Reader(sx.NewChunked(enc.Bytes(), "rand", o.seed))
		var back api.Service
		err = back.Decode(rd)
		rd.Close()
		if err != nil {
			return "err:" + err.Error()
		}
		return sha([]byte(back.String())) + sha(enc.Bytes())
	case "envelope":
		e := wire.Envelope{Name: fmt.Sprintf("m%d", r.Intn(1000)), Type: wire.Call, SeqID: int32(r.Uint32()), Value: v}
		if err := binary.Default.EncodeEnveloped(e, &enc); err != nil {
			return "err:" + err.Error()
		}
		d, err := binary.Default.DecodeEnveloped(bytes.NewReader(enc.Bytes()))
		if err != nil {
			return "err:" + err.Error()
		}
		fv, err := wj.Force(d.Value)
		closeLazy(d.Value)
		if err != nil {
			return "err:" + err.Error()
		}
		b, _ := json.Marshal(wj.ToJSON(fv))
		return sha(enc.Bytes()) + sha(b) + d.Name + fmt.Sprint(d.SeqID)
	case "readrequest", "readrequest-legacy", "readrequest-bare":
		e := wire.Envelope{Name: "call", Type: wire.Call, SeqID: int32(r.Uint32()), Value: v}
		switch o.kind {
		case "readrequest":
			binary.Default.EncodeEnveloped(e, &enc)
		case "readrequest-legacy":
			bw := binary.BorrowWriter(&enc)
			bw.WriteLegacyEnveloped(e)
			binary.ReturnWriter(bw)
		default: // a bare, non-empty struct (make sure it has a field so that it is longer than one byte)
			v = wire.NewValueStruct(wire.Struct{Fields: append([]wire.Field{{ID: 1, Value: wire.NewValueI32(7)}}, v.GetStruct().Fields...)})
			if v.GetStruct().Fields[0].ID == 1 && len(v.GetStruct().Fields) > 1 {
				fs := v.GetStruct().Fields
				for i := 1; i < len(fs); i++ {
					if fs[i].ID == 1 {
						fs[i].ID = 2001
					}
				}
			}
			binary.Default.Encode(v, &enc)
		}
		bc := &bodyCatcher{}
		rw, err := binary.Default.ReadRequest(context.Background(), wire.Call, sx.NewChunked(enc.Bytes(), "rand", o.seed), bc)
		if err != nil {
			return "err:" + err.Error()
		}
		var out bytes.Buffer
		rw.WriteResponse(wire.Reply, &out, replyEnv{name: "x", calls: sx.Calls(replyBody)})
		b, _ := json.Marshal(wj.ToJSON(bc.v))
		return sha(b) + sha(out.Bytes())
	case "decoderequest":
		binary.Default.Encode(v, &enc)
		dv, resp, err := binary.Default.DecodeRequest(wire.Call, bytes.NewReader(enc.Bytes()))
		if err != nil {
			return "err:" + err.Error()
		}
		fv, err := wj.Force(dv)
		closeLazy(dv)
		if err != nil {
			return "err:" + err.Error()
		}
		var out bytes.Buffer
		resp.EncodeResponse(replyBody, wire.Reply, &out)
		b, _ := json.Marshal(wj.ToJSON(fv))
		return sha(b) + sha(out.Bytes())
	}
	return "unknown-kind"
}

var concKinds = []string{"encode", "decode", "stream-encode", "stream-decode", "gen-wire", "gen-stream", "envelope", "readrequest", "readrequest-legacy", "readrequest-bare", "decoderequest", "decode-large", "stream-decode-large", "decode-rejected", "encode-failing-sink"}

// failingSink accepts a few bytes and then fails every write with its own error
type failingSink struct {
	left int
	err  error
}

func (f *failingSink) Write(p []byte) (int, error) {
	if len(p) <= f.left {
		f.left -= len(p)
		return len(p), nil
	}
	n := f.left
	f.left = 0
	return n, f.err
}

type echoHandler struct{}

func (echoHandler) Handle(b []byte) ([]byte, error) { return b, nil }

func frameRound(k int, seed int64) wj.J {
	cr, sw := io.Pipe() // server -> client
	sr, cw := io.Pipe() // client -> server
	server := verifhook.NewFrameServer(sr, sw)
	done := make(chan error, 1)
	go func() { done <- server.Serve(echoHandler{}) }()
	client := verifhook.NewFrameClient(cw, cr)
	var wg sync.WaitGroup
	var mismatches, errors int32
	for i := 0; i < k; i++ {
		wg.Add(1)
		go func(i int) {
			defer wg.Done()
			r := rand.New(rand.NewSource(seed*1000 + int64(i)))
			for n := 0; n < 5; n++ {
				payload := make([]byte, 1+r.Intn(300))
				r.Read(payload)
				payload[0] = byte(i)
				if r.Intn(4) == 0 {
					runtime.Gosched()
				}
				got, err := client.Send(payload)
				if err != nil {
					atomic.AddInt32(&errors, 1)
				} else if !bytes.Equal(got, payload) {
					atomic.AddInt32(&mismatches, 1)
				}
			}
		}(i)
	}
	wg.Wait()
	server.Stop()
	cw.Close()
	<-done
	return wj.J{"op": "c18frame", "k": k, "mismatch": int(mismatches), "errors": int(errors)}
}

type stubGen struct {
	name  string
	files map[string][]byte
}

func (s stubGen) Generate(*api.GenerateServiceRequest) (*api.GenerateServiceResponse, error) {
	runtime.Gosched()
	return &api.GenerateServiceResponse{Files: s.files}, nil
}
func (s stubGen) Handle() verifhook.PluginHandle { return stubHandle{s.name} }

type stubHandle struct{ name string }

func (h stubHandle) Name() string                                     { return h.name }
func (h stubHandle) Close() error                                     { return nil }
func (h stubHandle) ServiceGenerator() verifhook.PluginServiceGenerator { return nil }

func mergeRound(k int) wj.J {
	var msg verifhook.PluginMultiServiceGenerator
	var expected []string
	for i := 0; i < k; i++ {
		files := map[string][]byte{}
		for j := 0; j < 3; j++ {
			p := fmt.Sprintf("p%d/f%d.go", i, j)
			files[p] = []byte(p)
			expected = append(expected, p)
		}
		msg = append(msg, stubGen{name: fmt.Sprintf("p%d", i), files: files})
	}
	res, err := msg.Generate(&api.GenerateServiceRequest{})
	var got []string
	bad := 0
	if res != nil {
		for p, c := range res.Files {
			got = append(got, p)
			if string(c) != p {
				bad++
			}
		}
	}
	sort.Strings(got)
	sort.Strings(expected)
	if got == nil {
		got = []string{}
	}
	e := ""
	if err != nil {
		e = err.Error()
	}
	return wj.J{"op": "c18merge", "k": k, "expected": expected, "got": got, "wrongcontent": bad, "err": e}
}

func cmdC18(args []string) error {
	c := newCommon("c18")
	rounds := c.fs.Int("rounds", 10, "stress rounds")
	maxK := c.fs.Int("maxk", 16, "maximum goroutines per round")
	c.fs.Parse(args)
	out, err := newObsWriter(c.out)
	if err != nil {
		return err
	}
	defer out.close()
	var mu sync.Mutex
	var events []poolEvent
	binary.VerifPoolHook = func(seq uint64, kind, ev, obj string, clean bool) {
		e := poolEvent{Seq: seq, Kind: kind, Ev: ev, Obj: obj, Clean: clean, G: goid()}
		mu.Lock()
		events = append(events, e)
		mu.Unlock()
	}
	r := rand.New(rand.NewSource(c.seed))
	procs := []int{1, 2, 16}
	for round := 0; round < *rounds; round++ {
		runtime.GOMAXPROCS(procs[round%len(procs)])
		k := 2 + r.Intn(*maxK-1)
		ops := make([]concOp, k)
		for i := range ops {
			ops[i] = concOp{kind: concKinds[r.Intn(len(concKinds))], seed: c.seed*100000 + int64(round)*1000 + int64(i)}
		}
		// sequential baseline (pool events of the baseline are part of the trace, too)
		base := make([]string, k)
		for i, o := range ops {
			base[i] = o.run()
		}
		mu.Lock()
		events = events[:0]
		mu.Unlock()
		out.write(wj.J{"op": "c18round", "round": round, "k": k, "gomaxprocs": procs[round%len(procs)]})
		// concurrent phase with pool churn
		stop := make(chan struct{})
		var gcwg sync.WaitGroup
		gcwg.Add(1)
		go func() {
			defer gcwg.Done()
			for {
				select {
				case <-stop:
					return
				default:
					runtime.GC()
					runtime.Gosched()
				}
			}
		}()
		conc := make([]string, k)
		alien := make([]bool, k)
		var wg sync.WaitGroup
		start := make(chan struct{})
		for i := range ops {
			wg.Add(1)
			go func(i int) {
				defer wg.Done()
				<-start
				for n := 0; n < 3; n++ {
					d := ops[i].run()
					alien[i] = alien[i] || strings.Contains(d, "sink-")
					if n == 0 {
						conc[i] = d
					} else if d != conc[i] {
						conc[i] = "unstable:" + d
					}
					runtime.Gosched()
				}
			}(i)
		}
		close(start)
		wg.Wait()
		close(stop)
		gcwg.Wait()
		mu.Lock()
		evs := append([]poolEvent(nil), events...)
		mu.Unlock()
		sort.Slice(evs, func(a, b int) bool { return evs[a].Seq < evs[b].Seq })
		for _, e := range evs {
			out.write(wj.J{"op": "c18ev", "round": round, "seq": int(e.Seq), "kind": e.Kind, "ev": e.Ev, "obj": e.Obj, "clean": e.Clean, "g": e.G})
		}
		for i := range ops {
			out.write(wj.J{"op": "c18res", "round": round, "id": i, "kind": ops[i].kind, "base": base[i], "conc": conc[i],
				"alien": alien[i] || strings.Contains(base[i], "sink-")})
		}
		fr := frameRound(k, c.seed+int64(round))
		fr["round"] = round
		out.write(fr)
		mr := mergeRound(k)
		mr["round"] = round
		out.write(mr)
	}
	return nil
}

// ---------------------------------------------------------------------------
// schedule replay for frame.Client.Send (TLC-generated schedules of FrameClient.tla
// are forced on the real client through the gate hook)

func init() { register("c18sched", cmdC18Sched) }

type schedStep struct {
	C    string `json:"c"`
	Step string `json:"step"`
}

type gateCtl struct {
	mu      sync.Mutex
	parked  map[string]chan struct{} // client -> release channel while parked at a gate
	arrived chan string              // notifications: "<client>@<point>" / "<client>@done"
	names   map[int]string           // goroutine id -> client name
}

func (g *gateCtl) gate(point string) {
	g.mu.Lock()
	name, ok := g.names[goid()]
	if !ok {
		g.mu.Unlock()
		return
	}
	ch := make(chan struct{})
	g.parked[name] = ch
	g.mu.Unlock()
	g.arrived <- name + "@" + point
	<-ch
}

func (g *gateCtl) release(name string) bool {
	g.mu.Lock()
	ch, ok := g.parked[name]
	if ok {
		delete(g.parked, name)
	}
	g.mu.Unlock()
	if ok {
		close(ch)
	}
	return ok
}

func replaySchedule(id string, sched []schedStep) wj.J {
	clients := []string{}
	seen := map[string]bool{}
	for _, s := range sched {
		if !seen[s.C] {
			seen[s.C] = true
			clients = append(clients, s.C)
		}
	}
	toClient, toServer := newBufPipe(), newBufPipe()
	var cr io.Reader = toClient
	var sw io.Writer = toClient
	var sr io.Reader = toServer
	cw := toServer
	server := verifhook.NewFrameServer(sr, sw)
	sdone := make(chan error, 1)
	go func() { sdone <- server.Serve(echoHandler{}) }()
	client := verifhook.NewFrameClient(cw, cr)
	g := &gateCtl{parked: map[string]chan struct{}{}, arrived: make(chan string, 64), names: map[int]string{}}
	verifhook.SetFrameGate(g.gate)
	defer verifhook.SetFrameGate(nil)
	type result struct{ sent, got, err string }
	results := map[string]*result{}
	started := map[string]chan struct{}{}
	var wg sync.WaitGroup
	for _, c := range clients {
		results[c] = &result{sent: "payload-of-" + c}
		started[c] = make(chan struct{})
		wg.Add(1)
		go func(c string) {
			defer wg.Done()
			g.mu.Lock()
			g.names[goid()] = c
			g.mu.Unlock()
			<-started[c]
			got, err := client.Send([]byte(results[c].sent))
			results[c].got = string(got)
			if err != nil {
				results[c].err = err.Error()
			}
			g.arrived <- c + "@done"
		}(c)
	}
	var events []string
	begun := map[string]bool{}
	waitFor := func(c string) {
		deadline := time.After(40 * time.Millisecond)
		for {
			select {
			case ev := <-g.arrived:
				events = append(events, ev)
				if strings.HasPrefix(ev, c+"@") {
					return
				}
			case <-deadline:
				events = append(events, c+"@blocked")
				return
			}
		}
	}
	for _, s := range sched {
		if !begun[s.C] {
			begun[s.C] = true
			close(started[s.C]) // "lock": start the Send, run until its first gate
		} else if !g.release(s.C) {
			events = append(events, s.C+"@not-parked")
			continue
		}
		waitFor(s.C)
	}
	// let everything finish
	finished := make(chan struct{})
	go func() { wg.Wait(); close(finished) }()
	hung := false
	timeout := time.After(60 * time.Second) // generous: only a real hang gets here, a loaded machine must not
loop:
	for {
		for _, c := range clients {
			g.release(c)
		}
		select {
		case <-finished:
			break loop
		case ev := <-g.arrived:
			events = append(events, ev)
		case <-timeout:
			hung = true
			break loop
		case <-time.After(5 * time.Millisecond):
		}
	}
	server.Stop()
	cw.Close()
	toClient.Close()
	var res []wj.J
	for _, c := range clients {
		res = append(res, wj.J{"c": c, "sent": results[c].sent, "got": results[c].got, "err": results[c].err})
	}
	return wj.J{"op": "c18sched", "id": id, "sched": sched, "results": res, "events": events, "hung": hung}
}

func cmdC18Sched(args []string) error {
	c := newCommon("c18sched")
	c.fs.Parse(args)
	out, err := newObsWriter(c.out)
	if err != nil {
		return err
	}
	defer out.close()
	return readCases(c.cases, func(m map[string]interface{}) error {
		raw, _ := json.Marshal(m["sched"])
		var sched []schedStep
		if err := json.Unmarshal(raw, &sched); err != nil {
			return err
		}
		id, _ := m["id"].(string)
		return out.write(replaySchedule(id, sched))
	})
}

// bufPipe is an in-memory pipe with an unbounded buffer (like an OS pipe that is
// never full): writes never block, reads block until data or close.
type bufPipe struct {
	mu     sync.Mutex
	cond   *sync.Cond
	buf    bytes.Buffer
	closed bool
}

func newBufPipe() *bufPipe {
	p := &bufPipe{}
	p.cond = sync.NewCond(&p.mu)
	return p
}

func (p *bufPipe) Write(b []byte) (int, error) {
	p.mu.Lock()
	defer p.mu.Unlock()
	if p.closed {
		return 0, io.ErrClosedPipe
	}
	n, _ := p.buf.Write(b)
	p.cond.Broadcast()
	return n, nil
}

func (p *bufPipe) Read(b []byte) (int, error) {
	p.mu.Lock()
	defer p.mu.Unlock()
	for p.buf.Len() == 0 {
		if p.closed {
			return 0, io.EOF
		}
		p.cond.Wait()
	}
	return p.buf.Read(b)
}

func (p *bufPipe) Close() error {
	p.mu.Lock()
	p.closed = true
	p.cond.Broadcast()
	p.mu.Unlock()
	return nil
}
