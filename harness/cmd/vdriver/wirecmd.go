package main

import (
	"bytes"
	"crypto/sha256"
	"encoding/hex"
	"encoding/json"
	"errors"
	"fmt"
	"io"
	"math"
	"math/rand"
	"time"

	"go.uber.org/thriftrw/protocol/binary"
	"go.uber.org/thriftrw/protocol/stream"
	"go.uber.org/thriftrw/wire"
	"verifharness/internal/sx"
	"verifharness/internal/wj"
)

func init() {
	register("c02", cmdC02)
	register("c03", cmdC03)
}

var nilV = wj.J{"t": 0}

func errClass(err error) string {
	switch {
	case err == nil:
		return "none"
	case errors.Is(err, io.ErrUnexpectedEOF), errors.Is(err, io.EOF):
		return "eof"
	default:
		return "decode"
	}
}

// ---------------------------------------------------------------------------
// random wire values

var scalarTypes = []wire.Type{wire.TBool, wire.TI8, wire.TDouble, wire.TI16, wire.TI32, wire.TI64, wire.TBinary}
var allTypes = []wire.Type{wire.TBool, wire.TI8, wire.TDouble, wire.TI16, wire.TI32, wire.TI64, wire.TBinary, wire.TStruct, wire.TMap, wire.TSet, wire.TList}

var interesting64 = []uint64{0, 1, math.MaxUint64, 1 << 63, 1<<63 - 1, 0x7ff0000000000000, 0xfff0000000000000,
	0x7ff8000000000001, 0x7ff0000000000001, 0x8000000000000000, 0x0102030405060708, 0x00000000ffffffff, 0xffffffff00000000}

func randValue(r *rand.Rand, t wire.Type, depth int) wire.Value {
	switch t {
	case wire.TBool:
		return wire.NewValueBool(r.Intn(2) == 1)
	case wire.TI8:
		return wire.NewValueI8(int8(r.Intn(256)))
	case wire.TI16:
		return wire.NewValueI16(int16(r.Intn(65536)))
	case wire.TI32:
		if r.Intn(3) == 0 {
			return wire.NewValueI32([]int32{math.MinInt32, math.MaxInt32, -1, 0, 1, 255, 256, 65536}[r.Intn(8)])
		}
		return wire.NewValueI32(int32(r.Uint32()))
	case wire.TI64:
		if r.Intn(3) == 0 {
			return wire.NewValueI64(int64(interesting64[r.Intn(len(interesting64))]))
		}
		return wire.NewValueI64(int64(r.Uint64()))
	case wire.TDouble:
		if r.Intn(3) == 0 {
			return wire.NewValueDouble(math.Float64frombits(interesting64[r.Intn(len(interesting64))]))
		}
		return wire.NewValueDouble(math.Float64frombits(r.Uint64()))
	case wire.TBinary:
		n := r.Intn(12)
		if r.Intn(20) == 0 {
			n = 200 + r.Intn(400)
		}
		b := make([]byte, n)
		r.Read(b)
		return wire.NewValueBinary(b)
	}
	pick := func() wire.Type {
		if depth <= 0 {
			return scalarTypes[r.Intn(len(scalarTypes))]
		}
		return allTypes[r.Intn(len(allTypes))]
	}
	width := func() int {
		if r.Intn(10) == 0 {
			return 5 + r.Intn(30)
		}
		return r.Intn(4)
	}
	switch t {
	case wire.TStruct:
		n := width()
		fs := make([]wire.Field, 0, n)
		used := map[int16]bool{}
		for i := 0; i < n; i++ {
			id := int16(r.Intn(65536))
			if r.Intn(2) == 0 {
				id = int16(r.Intn(20) - 4)
			}
			if used[id] {
				continue
			}
			used[id] = true
			fs = append(fs, wire.Field{ID: id, Value: randValue(r, pick(), depth-1)})
		}
		return wire.NewValueStruct(wire.Struct{Fields: fs})
	case wire.TList, wire.TSet:
		et := pick()
		n := width()
		es := make([]wire.Value, n)
		for i := range es {
			es[i] = randValue(r, et, depth-1)
		}
		l := wire.ValueListFromSlice(et, es)
		if t == wire.TSet {
			return wire.NewValueSet(l)
		}
		return wire.NewValueList(l)
	case wire.TMap:
		kt, vt := pick(), pick()
		n := width()
		ms := make([]wire.MapItem, n)
		for i := range ms {
			ms[i] = wire.MapItem{Key: randValue(r, kt, depth-1), Value: randValue(r, vt, depth-1)}
		}
		return wire.NewValueMap(wire.MapItemListFromSlice(kt, vt, ms))
	}
	panic("bad type")
}

// ---------------------------------------------------------------------------
// C02

var policies = []string{"all", "one", "zero", "rand", "dataeof"}

// safely runs f under the watchdog, converting a panic into its message.
func safely(f func()) (panicked string) {
	watchdog(20*time.Second, func() {
		defer func() {
			if r := recover(); r != nil {
				panicked = fmt.Sprint(r)
			}
		}()
		f()
	})
	return panicked
}

func c02Observe(id string, src string, v wire.Value, calls []sx.Call, seed int64) wj.J {
	o := wj.J{"op": "c02", "id": id, "src": src, "v": wj.ToJSON(v), "panic": ""}
	if calls == nil {
		calls = sx.Calls(v)
	}
	o["calls"] = calls
	o["enc"], o["encerr"], o["sw"], o["swerr"] = []int{}, "unset", []int{}, "unset"
	o["dec"], o["decerr"], o["sdec"] = nilV, "unset", []wj.J{}
	p := safely(func() {
		var buf bytes.Buffer
		err := binary.Default.Encode(v, &buf)
		o["enc"] = wj.Bytes(buf.Bytes())
		o["encerr"] = errClass(err)

		var sbuf bytes.Buffer
		w := binary.Default.Writer(&sbuf)
		err = sx.Apply(w, calls)
		w.Close()
		o["sw"] = wj.Bytes(sbuf.Bytes())
		o["swerr"] = errClass(err)

		enc := buf.Bytes()
		dv, err := binary.Default.Decode(bytes.NewReader(enc), v.Type())
		o["dec"] = nilV
		if err == nil {
			var fv wire.Value
			fv, err = wj.Force(dv)
			if err == nil {
				o["dec"] = wj.ToJSON(fv)
			}
		}
		o["decerr"] = errClass(err)

		var sd []wj.J
		for i, pol := range policies {
			ch := sx.NewChunked(enc, pol, seed+int64(i))
			r := binary.Default.Reader(ch)
			sv, err := sx.ReadValue(r, v.Type())
			r.Close()
			e := wj.J{"pol": pol, "ec": errClass(err), "v": nilV, "n": ch.Pos}
			if err == nil {
				e["v"] = wj.ToJSON(sv)
			}
			sd = append(sd, e)
		}
		o["sdec"] = dedupe(sd)
	})
	o["panic"] = p
	return o
}

// big binaries: judged by header + digest.  shape "struct": fields 7, 8, ... each a
// binary; shape "list": list<binary>.  Several large parts with different contents
// make a reader that reuses a buffer for large payloads visible.
func c02Big(id string, shape string, sizes []int, r *rand.Rand) wj.J {
	sum := func(x []byte) string { s := sha256.Sum256(x); return hex.EncodeToString(s[:]) }
	var parts []wj.J
	var bins [][]byte
	for _, n := range sizes {
		b := make([]byte, n)
		r.Read(b)
		bins = append(bins, b)
		parts = append(parts, wj.J{"len": n, "sha": sum(b)})
	}
	var v wire.Value
	if shape == "list" {
		es := make([]wire.Value, len(bins))
		for i, b := range bins {
			es[i] = wire.NewValueBinary(b)
		}
		v = wire.NewValueList(wire.ValueListFromSlice(wire.TBinary, es))
	} else {
		var fs []wire.Field
		for i, b := range bins {
			fs = append(fs, wire.Field{ID: int16(7 + i), Value: wire.NewValueBinary(b)})
		}
		v = wire.NewValueStruct(wire.Struct{Fields: fs})
	}
	o := wj.J{"op": "c02big", "id": id, "shape": shape, "parts": parts, "panic": ""}
	// split an encoding into per-part (head, body digest) pieces plus the tail
	split := func(enc []byte) wj.J {
		res := wj.J{"pre": []int{}, "parts": []wj.J{}, "tail": []int{}, "wellformed": false}
		pos := 0
		if shape == "list" {
			if len(enc) < 5 {
				return res
			}
			res["pre"] = wj.Bytes(enc[:5])
			pos = 5
		}
		var ps []wj.J
		for range sizes {
			hl := 4
			if shape != "list" {
				hl = 7
			}
			if pos+hl > len(enc) {
				return res
			}
			n := int(uint32(enc[pos+hl-4])<<24 | uint32(enc[pos+hl-3])<<16 | uint32(enc[pos+hl-2])<<8 | uint32(enc[pos+hl-1]))
			if n < 0 || pos+hl+n > len(enc) {
				return res
			}
			ps = append(ps, wj.J{"head": wj.Bytes(enc[pos : pos+hl]), "bodylen": n, "bodysha": sum(enc[pos+hl : pos+hl+n])})
			pos += hl + n
		}
		res["parts"], res["tail"], res["wellformed"] = ps, wj.Bytes(enc[pos:]), true
		return res
	}
	digestParts := func(v wire.Value, err error) wj.J {
		res := wj.J{"ec": errClass(err), "parts": []wj.J{}}
		if err != nil {
			return res
		}
		var ps []wj.J
		add := func(id int, b []byte) { ps = append(ps, wj.J{"id": id, "len": len(b), "sha": sum(b)}) }
		switch v.Type() {
		case wire.TStruct:
			for _, f := range v.GetStruct().Fields {
				if f.Value.Type() == wire.TBinary {
					add(int(f.ID), f.Value.GetBinary())
				}
			}
		case wire.TList:
			i := 0
			ferr := v.GetList().ForEach(func(e wire.Value) error {
				if e.Type() == wire.TBinary {
					add(i, e.GetBinary())
				}
				i++
				return nil
			})
			res["ec"] = errClass(ferr)
		}
		if ps != nil {
			res["parts"] = ps
		}
		return res
	}
	empty := wj.J{"pre": []int{}, "parts": []wj.J{}, "tail": []int{}, "wellformed": false}
	o["enc"], o["sw"] = empty, empty
	o["encerr"], o["swerr"] = "unset", "unset"
	o["dec"] = wj.J{"ec": "unset", "parts": []wj.J{}}
	o["sdec"] = o["dec"]
	o["panic"] = safely(func() {
		var buf bytes.Buffer
		err := binary.Default.Encode(v, &buf)
		o["enc"] = split(buf.Bytes())
		o["encerr"] = errClass(err)
		var sbuf bytes.Buffer
		w := binary.Default.Writer(&sbuf)
		err = sx.Apply(w, sx.Calls(v))
		w.Close()
		o["sw"] = split(sbuf.Bytes())
		o["swerr"] = errClass(err)
		enc := buf.Bytes()
		// decode, then read every part only after the whole value has been decoded
		dv, derr := binary.Default.Decode(bytes.NewReader(enc), v.Type())
		if derr == nil {
			dv, derr = wj.Force(dv)
		}
		o["dec"] = digestParts(dv, derr)
		ch := sx.NewChunked(enc, "rand", int64(len(enc)))
		rd := binary.Default.Reader(ch)
		o["sdec"] = digestParts(sx.ReadValue(rd, v.Type()))
		rd.Close()
		// the encoding cut short (by 1 byte, by a few thousand): every reader has to notice, however large the part that did arrive
		truncs := []wj.J{}
		for _, cut := range []int{1, 3000} {
			if cut >= len(enc) {
				continue
			}
			short := enc[:len(enc)-cut]
			tr := wj.J{"cut": cut, "dec": "unset", "sdec": "unset", "skip": "unset"}
			dv, derr := binary.Default.Decode(bytes.NewReader(short), v.Type())
			if derr == nil {
				_, derr = wj.Force(dv)
			}
			tr["dec"] = errClass(derr)
			srd := binary.Default.Reader(sx.NewChunked(short, "rand", int64(cut)))
			_, serr := sx.ReadValue(srd, v.Type())
			srd.Close()
			tr["sdec"] = errClass(serr)
			krd := binary.Default.Reader(sx.NewChunked(short, "all", 1))
			tr["skip"] = errClass(krd.Skip(v.Type()))
			krd.Close()
			truncs = append(truncs, tr)
		}
		o["truncs"] = truncs
		// the same value written with WriteString and read with ReadString (what generated code does for string fields)
		var tbuf bytes.Buffer
		tw := binary.Default.Writer(&tbuf)
		var terr error
		step := func(e error) {
			if terr == nil {
				terr = e
			}
		}
		if shape == "list" {
			step(tw.WriteListBegin(stream.ListHeader{Type: wire.TBinary, Length: len(bins)}))
			for _, b := range bins {
				step(tw.WriteString(string(b)))
			}
			step(tw.WriteListEnd())
		} else {
			step(tw.WriteStructBegin())
			for i, b := range bins {
				step(tw.WriteFieldBegin(stream.FieldHeader{ID: int16(7 + i), Type: wire.TBinary}))
				step(tw.WriteString(string(b)))
				step(tw.WriteFieldEnd())
			}
			step(tw.WriteStructEnd())
		}
		tw.Close()
		o["sws"], o["swserr"] = split(tbuf.Bytes()), errClass(terr)
		sres := wj.J{"ec": "none", "parts": []wj.J{}}
		var sps []wj.J
		tr := binary.Default.Reader(sx.NewChunked(enc, "rand", int64(len(enc))+1))
		var rerr error
		readOne := func(id int) {
			if rerr != nil {
				return
			}
			var str string
			str, rerr = tr.ReadString()
			if rerr == nil {
				sps = append(sps, wj.J{"id": id, "len": len(str), "sha": sum([]byte(str))})
			}
		}
		if shape == "list" {
			var lh stream.ListHeader
			lh, rerr = tr.ReadListBegin()
			for i := 0; rerr == nil && i < lh.Length; i++ {
				readOne(i)
			}
			if rerr == nil {
				rerr = tr.ReadListEnd()
			}
		} else {
			rerr = tr.ReadStructBegin()
			for rerr == nil {
				var fh stream.FieldHeader
				var ok bool
				fh, ok, rerr = tr.ReadFieldBegin()
				if rerr != nil || !ok {
					break
				}
				readOne(int(fh.ID))
				if rerr == nil {
					rerr = tr.ReadFieldEnd()
				}
			}
			if rerr == nil {
				rerr = tr.ReadStructEnd()
			}
		}
		tr.Close()
		sres["ec"] = errClass(rerr)
		if sps != nil {
			sres["parts"] = sps
		}
		o["sdecs"] = sres
	})
	return o
}

func cmdC02(args []string) error {
	c := newCommon("c02")
	big := c.fs.Int("big", 0, "number of big-binary cases around the 1 MiB threshold")
	depth := c.fs.Int("depth", 3, "max depth of random values")
	c.fs.Parse(args)
	out, err := newObsWriter(c.out)
	if err != nil {
		return err
	}
	defer out.close()
	sizeRand := rand.New(rand.NewSource(c.seed + 77))
	err = readCases(c.cases, func(m map[string]interface{}) error {
		if raw, ok := m["sizes"].([]interface{}); ok { // a binary-length case of WireSizes.tla
			var ss []int
			for _, x := range raw {
				f, _ := x.(float64)
				ss = append(ss, int(f))
			}
			id, _ := m["id"].(string)
			shape, _ := m["shape"].(string)
			return out.write(c02Big(id, shape, ss, sizeRand))
		}
		v, err := wj.FromJSON(m["v"])
		if err != nil {
			return err
		}
		var calls []sx.Call
		if raw, ok := m["calls"]; ok {
			b, _ := json.Marshal(raw)
			if err := json.Unmarshal(b, &calls); err != nil {
				return err
			}
			if err := sx.FixRaw(calls); err != nil {
				return err
			}
		}
		id, _ := m["id"].(string)
		return out.write(c02Observe(id, "tlc", v, calls, c.seed))
	})
	if err != nil {
		return err
	}
	r := rand.New(rand.NewSource(c.seed))
	for i := 0; i < c.random; i++ {
		t := allTypes[r.Intn(len(allTypes))]
		v := randValue(r, t, 1+r.Intn(*depth))
		if err := out.write(c02Observe(fmt.Sprintf("r%d", i), "rand", v, nil, c.seed+int64(i))); err != nil {
			return err
		}
	}
	sizes := []int{1048575, 1048576, 1048577, 1048576 + 4096, 2*1048576 + 1, 5000, 70000}
	for i := 0; i < *big; i++ {
		n := sizes[i%len(sizes)] + (i/len(sizes))*17
		shape := []string{"struct", "list"}[i%2]
		var ss []int
		switch i % 3 {
		case 0:
			ss = []int{n}
		case 1:
			ss = []int{n, sizes[(i+1)%len(sizes)]}
		default:
			ss = []int{1048577 + i, n, 1048600}
		}
		if err := out.write(c02Big(fmt.Sprintf("b%d", i), shape, ss, r)); err != nil {
			return err
		}
	}
	return nil
}

// ---------------------------------------------------------------------------
// C03

func capN(n int64, l int) int {
	if n > int64(l)+1 {
		return l + 1
	}
	return int(n)
}

// dedupe merges results that are identical up to the policy name; the merged
// entry lists the policies that produced it.
func dedupe(rs []wj.J) []wj.J {
	var out []wj.J
	var keys []string
	for _, r := range rs {
		pol, _ := r["pol"].(string)
		delete(r, "pol")
		kb, _ := json.Marshal(r)
		k := string(kb)
		found := false
		for i := range keys {
			if keys[i] == k {
				out[i]["pols"] = append(out[i]["pols"].([]string), pol)
				found = true
			}
		}
		if !found {
			r["pols"] = []string{pol}
			keys = append(keys, k)
			out = append(out, r)
		}
	}
	return out
}

func res(ok bool, n int, v wj.J, ec string) wj.J {
	return wj.J{"ok": ok, "n": n, "v": v, "ec": ec}
}

func c03Observe(id, src string, b []byte, t wire.Type, seed int64, inf *inflight) wj.J {
	o := wj.J{"op": "c03", "id": id, "src": src, "b": wj.Bytes(b), "t": int(t), "panic": ""}
	if inf != nil {
		mb, _ := json.Marshal(o)
		inf.set(mb)
	}
	known := false
	for _, k := range allTypes {
		if k == t {
			known = true
		}
	}
	o["ra"] = res(false, 0, nilV, "skipped")
	o["st"] = []wj.J{}
	o["sk"] = res(false, 0, nilV, "skipped")
	o["sks"] = []wj.J{}
	o["panic"] = safely(func() {
		// random-access reader + force
		rd := binary.NewReader(bytes.NewReader(b))
		v, off, err := rd.ReadValue(t, 0)
		if err == nil {
			var fv wire.Value
			fv, err = wj.Force(v)
			if err == nil {
				o["ra"] = res(true, capN(off, len(b)), wj.ToJSON(fv), "none")
				// auxiliary: the real writer's re-encoding
				var buf bytes.Buffer
				if e2 := binary.Default.Encode(fv, &buf); e2 == nil {
					o["reenc"] = wj.Bytes(buf.Bytes())
				}
			}
		}
		if err != nil {
			o["ra"] = res(false, capN(off, len(b)), nilV, errClass(err))
		}
		// the library's own forcing (wire.EvaluateValue) on a fresh decode: it must report what full forcing reports
		o["ev"] = "skipped"
		rd2 := binary.NewReader(bytes.NewReader(b))
		if v2, _, err2 := rd2.ReadValue(t, 0); err2 == nil {
			if e3 := wire.EvaluateValue(v2); e3 == nil {
				o["ev"] = "ok"
			} else {
				o["ev"] = "error"
			}
		} else {
			o["ev"] = "error"
		}
		// pure stream reader under each segmentation
		if known {
			var sts []wj.J
			for i, pol := range policies {
				ch := sx.NewChunked(b, pol, seed+int64(i))
				r := binary.Default.Reader(ch)
				sv, err := sx.ReadValue(r, t)
				r.Close()
				e := res(err == nil, ch.Pos, nilV, errClass(err))
				e["pol"] = pol
				if err == nil {
					e["v"] = wj.ToJSON(sv)
				}
				sts = append(sts, e)
			}
			o["st"] = dedupe(sts)
		}
		// skip: seekable
		br := bytes.NewReader(b)
		sr := binary.NewStreamReader(br)
		err = sr.Skip(t)
		pos, _ := br.Seek(0, io.SeekCurrent)
		sr.Close()
		o["sk"] = res(err == nil, capN(pos, len(b)), nilV, errClass(err))
		// skip: pure stream
		var sks []wj.J
		for i, pol := range policies {
			ch := sx.NewChunked(b, pol, seed+int64(i))
			r := binary.Default.Reader(ch)
			err := r.Skip(t)
			r.Close()
			e := res(err == nil, ch.Pos, nilV, errClass(err))
			e["pol"] = pol
			sks = append(sks, e)
		}
		o["sks"] = dedupe(sks)
	})
	return o
}

// grammar-aware mutation of a valid encoding
func mutate(r *rand.Rand, enc []byte) []byte {
	b := append([]byte(nil), enc...)
	typeBytes := []byte{0, 1, 2, 3, 4, 6, 8, 10, 11, 12, 13, 14, 15, 16, 127, 128, 255}
	edits := []func(){
		func() { // bit flip
			if len(b) > 0 {
				i := r.Intn(len(b))
				b[i] ^= 1 << uint(r.Intn(8))
			}
		},
		func() { // byte replace by a type code
			if len(b) > 0 {
				b[r.Intn(len(b))] = typeBytes[r.Intn(len(typeBytes))]
			}
		},
		func() { // 4-byte length/count edit
			if len(b) >= 4 {
				i := r.Intn(len(b) - 3)
				vals := [][]byte{{0xff, 0xff, 0xff, 0xff}, {0x7f, 0xff, 0xff, 0xff}, {0x80, 0, 0, 0}, {0, 0, 0, 0}, {0, 0, 0, 1}, {0, 0, 1, 0}, {0, 1, 0, 0}, {0, 0x10, 0, 1}}
				copy(b[i:], vals[r.Intn(len(vals))])
			}
		},
		func() { // truncate
			if len(b) > 0 {
				b = b[:r.Intn(len(b))]
			}
		},
		func() { // insert
			i := r.Intn(len(b) + 1)
			b = append(b[:i], append([]byte{typeBytes[r.Intn(len(typeBytes))]}, b[i:]...)...)
		},
		func() { // delete
			if len(b) > 0 {
				i := r.Intn(len(b))
				b = append(b[:i], b[i+1:]...)
			}
		},
		func() { // random byte
			if len(b) > 0 {
				b[r.Intn(len(b))] = byte(r.Intn(256))
			}
		},
	}
	n := 1 + r.Intn(2)
	for i := 0; i < n; i++ {
		edits[r.Intn(len(edits))]()
	}
	return b
}

func cmdC03(args []string) error {
	c := newCommon("c03")
	infPath := c.fs.String("inflight", "", "file receiving the case in flight")
	depth := c.fs.Int("depth", 3, "max depth of random values to mutate")
	oddTypes := c.fs.Bool("oddtypes", true, "also request unknown type codes for TLC cases")
	c.fs.Parse(args)
	out, err := newObsWriter(c.out)
	if err != nil {
		return err
	}
	defer out.close()
	inf := newInflight(*infPath)
	reqTypes := append(append([]wire.Type{}, allTypes...), 0, 1, 5, 16, 255)
	err = readCases(c.cases, func(m map[string]interface{}) error {
		b, err := wj.ToBytes(m["b"])
		if err != nil {
			return err
		}
		id, _ := m["id"].(string)
		if tf, ok := m["t"].(float64); ok {
			return out.write(c03Observe(id, "tlc", b, wire.Type(tf), c.seed, inf))
		}
		for _, t := range reqTypes {
			if !*oddTypes && (t < 2 || t > 15 || t == 5) {
				continue
			}
			if err := out.write(c03Observe(fmt.Sprintf("%s/%d", id, t), "tlc", b, t, c.seed, inf)); err != nil {
				return err
			}
		}
		return nil
	})
	if err != nil {
		return err
	}
	r := rand.New(rand.NewSource(c.seed))
	for i := 0; i < c.random; i++ {
		t := allTypes[r.Intn(len(allTypes))]
		var b []byte
		switch r.Intn(10) {
		case 0: // uniform random bytes
			b = make([]byte, r.Intn(24))
			r.Read(b)
		default:
			v := randValue(r, t, 1+r.Intn(*depth))
			var buf bytes.Buffer
			if err := binary.Default.Encode(v, &buf); err != nil {
				return err
			}
			b = buf.Bytes()
			if len(b) > 300 {
				continue
			}
			if r.Intn(8) != 0 {
				b = mutate(r, b)
			}
		}
		rt := t
		if r.Intn(6) == 0 {
			rt = reqTypes[r.Intn(len(reqTypes))]
		}
		if err := out.write(c03Observe(fmt.Sprintf("m%d", i), "mut", b, rt, c.seed+int64(i), inf)); err != nil {
			return err
		}
	}
	return nil
}

// ---------------------------------------------------------------------------
// C14: wire.ValuesAreEqual on pairs of wire values

func init() { register("c14w", cmdC14W) }

func weq(a, b wire.Value) (res string) {
	defer func() {
		if recover() != nil {
			res = "panic"
		}
	}()
	if wire.ValuesAreEqual(a, b) {
		return "true"
	}
	return "false"
}

// perturb returns a copy of v with one small change (leaf, length, order)
func perturb(r *rand.Rand, v wire.Value) wire.Value {
	switch v.Type() {
	case wire.TStruct:
		fs := append([]wire.Field(nil), v.GetStruct().Fields...)
		if len(fs) == 0 || r.Intn(4) == 0 {
			return wire.NewValueStruct(wire.Struct{Fields: append(fs, wire.Field{ID: 12345, Value: wire.NewValueBool(true)})})
		}
		i := r.Intn(len(fs))
		switch r.Intn(3) {
		case 0:
			fs[i].Value = perturb(r, fs[i].Value)
		case 1:
			fs = append(fs[:i], fs[i+1:]...)
		default:
			r.Shuffle(len(fs), func(a, b int) { fs[a], fs[b] = fs[b], fs[a] })
		}
		return wire.NewValueStruct(wire.Struct{Fields: fs})
	case wire.TList, wire.TSet:
		l := v.GetList()
		es := wire.ValueListToSlice(l)
		es = append([]wire.Value(nil), es...)
		if len(es) == 0 {
			return v
		}
		switch r.Intn(3) {
		case 0:
			i := r.Intn(len(es))
			es[i] = perturb(r, es[i])
		case 1:
			es = es[:len(es)-1]
		default:
			r.Shuffle(len(es), func(a, b int) { es[a], es[b] = es[b], es[a] })
		}
		nl := wire.ValueListFromSlice(l.ValueType(), es)
		if v.Type() == wire.TSet {
			return wire.NewValueSet(nl)
		}
		return wire.NewValueList(nl)
	case wire.TMap:
		m := v.GetMap()
		ms := append([]wire.MapItem(nil), wire.MapItemListToSlice(m)...)
		if len(ms) == 0 {
			return v
		}
		switch r.Intn(3) {
		case 0:
			i := r.Intn(len(ms))
			ms[i].Value = perturb(r, ms[i].Value)
		case 1:
			ms = ms[:len(ms)-1]
		default:
			r.Shuffle(len(ms), func(a, b int) { ms[a], ms[b] = ms[b], ms[a] })
		}
		return wire.NewValueMap(wire.MapItemListFromSlice(m.KeyType(), m.ValueType(), ms))
	case wire.TI32:
		return wire.NewValueI32(v.GetI32() + 1)
	case wire.TBinary:
		return wire.NewValueBinary(append(append([]byte(nil), v.GetBinary()...), 1))
	case wire.TDouble:
		if v.GetDouble() == 0 {
			return wire.NewValueDouble(-v.GetDouble()) // +0 <-> -0
		}
		return wire.NewValueDouble(v.GetDouble() + 1)
	}
	return randValue(r, v.Type(), 0)
}

func cmdC14W(args []string) error {
	c := newCommon("c14w")
	c.fs.Parse(args)
	out, err := newObsWriter(c.out)
	if err != nil {
		return err
	}
	defer out.close()
	emit := func(id string, a, b wire.Value) error {
		o := wj.J{"op": "weq", "id": id, "a": wj.ToJSON(a), "b": wj.ToJSON(b), "panic": "", "ab": "unset", "ba": "unset", "aa": "unset"}
		o["panic"] = safely(func() { o["ab"], o["ba"], o["aa"] = weq(a, b), weq(b, a), weq(a, a) })
		return out.write(o)
	}
	// pairs from the TLC-generated universe (cases hold single values; pair each with its neighbours of the same type)
	var vals []wire.Value
	err = readCases(c.cases, func(m map[string]interface{}) error {
		v, err := wj.FromJSON(m["v"])
		if err == nil {
			vals = append(vals, v)
		}
		return err
	})
	if err != nil {
		return err
	}
	r := rand.New(rand.NewSource(c.seed))
	byType := map[wire.Type][]wire.Value{}
	for _, v := range vals {
		byType[v.Type()] = append(byType[v.Type()], v)
	}
	n := 0
	for _, v := range vals {
		peers := byType[v.Type()]
		for k := 0; k < 3; k++ {
			if err := emit(fmt.Sprintf("u%d", n), v, peers[r.Intn(len(peers))]); err != nil {
				return err
			}
			n++
		}
		if err := emit(fmt.Sprintf("u%d", n), v, perturb(r, v)); err != nil {
			return err
		}
		n++
	}
	// signed zeros wherever a double is hashed or compared: set items, map keys, keys that are sets, list items,
	// map values, struct fields -- in both argument orders (emit compares both)
	d := wire.NewValueDouble
	nz := d(math.Copysign(0, -1))
	dset := func(vs ...wire.Value) wire.Value { return wire.NewValueSet(wire.ValueListFromSlice(wire.TDouble, vs)) }
	dlist := func(vs ...wire.Value) wire.Value { return wire.NewValueList(wire.ValueListFromSlice(wire.TDouble, vs)) }
	dmap := func(kt, vt wire.Type, items ...wire.MapItem) wire.Value {
		return wire.NewValueMap(wire.MapItemListFromSlice(kt, vt, items))
	}
	str := wire.NewValueString
	zeroPairs := [][2]wire.Value{
		{dset(d(0), d(1.5)), dset(nz, d(1.5))},
		{dset(d(0)), dset(nz)},
		{dset(d(1.5), nz), dset(d(0), d(1.5))},
		{dlist(d(0), d(1.5)), dlist(nz, d(1.5))},
		{dmap(wire.TDouble, wire.TBinary, wire.MapItem{Key: d(0), Value: str("a")}), dmap(wire.TDouble, wire.TBinary, wire.MapItem{Key: nz, Value: str("a")})},
		{dmap(wire.TBinary, wire.TDouble, wire.MapItem{Key: str("k"), Value: d(0)}), dmap(wire.TBinary, wire.TDouble, wire.MapItem{Key: str("k"), Value: nz})},
		{dmap(wire.TSet, wire.TI32, wire.MapItem{Key: dset(d(0), d(2)), Value: wire.NewValueI32(1)}),
			dmap(wire.TSet, wire.TI32, wire.MapItem{Key: dset(d(2), nz), Value: wire.NewValueI32(1)})},
		{wire.NewValueStruct(wire.Struct{Fields: []wire.Field{{ID: 1, Value: dset(d(0))}, {ID: 2, Value: d(0)}}}),
			wire.NewValueStruct(wire.Struct{Fields: []wire.Field{{ID: 2, Value: nz}, {ID: 1, Value: dset(nz)}}})},
		{wire.NewValueSet(wire.ValueListFromSlice(wire.TList, []wire.Value{dlist(d(0))})), wire.NewValueSet(wire.ValueListFromSlice(wire.TList, []wire.Value{dlist(nz)}))},
	}
	for i, p := range zeroPairs {
		if err := emit(fmt.Sprintf("z%d", i), p[0], p[1]); err != nil {
			return err
		}
	}
	for i := 0; i < c.random; i++ {
		t := allTypes[r.Intn(len(allTypes))]
		a := randValue(r, t, 1+r.Intn(3))
		fa, _ := wj.Force(a)
		b := fa
		if r.Intn(3) != 0 {
			b = perturb(r, fa)
		}
		if err := emit(fmt.Sprintf("r%d", i), fa, b); err != nil {
			return err
		}
	}
	return nil
}
