package main

import (
	"encoding/json"
	"fmt"
	"math/rand"
	"os"
	"path/filepath"
	"sort"
	"strings"

	"go.uber.org/thriftrw/compile"
	"verifharness/internal/wj"
)

func init() { register("c07", cmdC07) }

// ---------------------------------------------------------------------------
// abstract programs (the terms of specs/Linker.tla)

type aRef struct {
	Q  string `json:"q"`
	N  string `json:"n"`
	EQ string `json:"eq,omitempty"` // q = "list": how the element is named ("" bare, "base", or an include)
}

type aCVal struct {
	K  string `json:"k"`
	Q  string `json:"q"`
	N  string `json:"n"`
	FV *aCVal `json:"fv,omitempty"` // k = "list": the one item of the literal
}

type aDef struct {
	K   string `json:"k"`
	Tgt *aRef  `json:"tgt,omitempty"`
	Fty *aRef  `json:"fty,omitempty"`
	Dfl *aCVal `json:"dfl,omitempty"`
	Ty  *aRef  `json:"ty,omitempty"`
	Val *aCVal `json:"val,omitempty"`
	Par *aRef  `json:"par,omitempty"`
}

type aEntry struct {
	Key [2]string `json:"key"`
	Def aDef      `json:"def"`
}

type aProg struct {
	Inc map[string][]string `json:"inc"`
	Ty  []aEntry            `json:"ty"`
	Co  []aEntry            `json:"co"`
	Sv  []aEntry            `json:"sv"`
}

func refText(r *aRef) string {
	if r.Q == "list" {
		return "list<" + refText(&aRef{Q: r.EQ, N: r.N}) + ">"
	}
	switch r.Q {
	case "base", "":
		return r.N
	default:
		return r.Q + "." + r.N
	}
}

func cvalText(v *aCVal) string {
	switch v.K {
	case "int":
		return "1"
	case "str":
		return `"s"`
	case "map":
		return `{"f": 1}`
	case "emap":
		return `{}`
	case "struct":
		if v.FV == nil || v.FV.K == "none" {
			return "{}"
		}
		return `{"f": ` + cvalText(v.FV) + "}"
	case "list":
		if v.FV == nil {
			return "[]"
		}
		return "[" + cvalText(v.FV) + "]"
	case "ref":
		if v.Q == "" {
			return v.N
		}
		return v.Q + "." + v.N
	}
	return ""
}

// render writes the program as Thrift IDL, one file per module, definitions
// in a seeded random order (the order of definitions in a file must not matter).
func render(p *aProg, r *rand.Rand) map[string]string {
	defs := map[string][]string{"a": nil, "b": nil}
	for _, e := range p.Ty {
		m, n := e.Key[0], e.Key[1]
		switch e.Def.K {
		case "td":
			defs[m] = append(defs[m], fmt.Sprintf("typedef %s %s", refText(e.Def.Tgt), n))
		case "st":
			d := ""
			if e.Def.Dfl != nil && e.Def.Dfl.K != "none" {
				d = " = " + cvalText(e.Def.Dfl)
			}
			defs[m] = append(defs[m], fmt.Sprintf("struct %s {\n  1: optional %s f%s\n}", n, refText(e.Def.Fty), d))
		case "en":
			defs[m] = append(defs[m], fmt.Sprintf("enum %s { I = 1 }", n))
		}
	}
	for _, e := range p.Co {
		if e.Def.K == "co" {
			defs[e.Key[0]] = append(defs[e.Key[0]], fmt.Sprintf("const %s %s = %s", refText(e.Def.Ty), e.Key[1], cvalText(e.Def.Val)))
		}
	}
	for _, e := range p.Sv {
		if e.Def.K == "sv" {
			ext := ""
			if e.Def.Par != nil && e.Def.Par.Q != "none" {
				ext = " extends " + refText(e.Def.Par)
			}
			defs[e.Key[0]] = append(defs[e.Key[0]], fmt.Sprintf("service %s%s {}", e.Key[1], ext))
		}
	}
	files := map[string]string{}
	for _, m := range []string{"a", "b"} {
		var sb strings.Builder
		incs := append([]string{}, p.Inc[m]...)
		sort.Strings(incs)
		for _, i := range incs {
			fmt.Fprintf(&sb, "include \"./%s.thrift\"\n", i)
		}
		d := defs[m]
		if r != nil {
			r.Shuffle(len(d), func(i, j int) { d[i], d[j] = d[j], d[i] })
		}
		for _, x := range d {
			sb.WriteString(x)
			sb.WriteString("\n")
		}
		files["/v/"+m+".thrift"] = sb.String()
	}
	return files
}

type memFS map[string]string

func (m memFS) Read(f string) ([]byte, error) {
	if s, ok := m[filepath.Clean(f)]; ok {
		return []byte(s), nil
	}
	return nil, os.ErrNotExist
}
func (m memFS) Abs(p string) (string, error) { return filepath.Clean(p), nil }

// ---------------------------------------------------------------------------
// orders

type step struct {
	Kind string    `json:"kind"`
	Key  [2]string `json:"key"`
}

func loadedMods(p *aProg) []string {
	seen := map[string]bool{"a": true}
	order := []string{"a"}
	for i := 0; i < len(order); i++ {
		incs := append([]string{}, p.Inc[order[i]]...)
		sort.Strings(incs)
		for _, n := range incs {
			if !seen[n] {
				seen[n] = true
				order = append(order, n)
			}
		}
	}
	return order
}

func permutations(xs []step) [][]step {
	if len(xs) <= 1 {
		return [][]step{append([]step{}, xs...)}
	}
	var out [][]step
	for i := range xs {
		rest := append(append([]step{}, xs[:i]...), xs[i+1:]...)
		for _, p := range permutations(rest) {
			out = append(out, append([]step{xs[i]}, p...))
		}
	}
	return out
}

// allOrders enumerates every schedule of compiler.link: modules in walk order,
// within a module every permutation of the types, then of the constants, then
// of the services.  Capped at max (then sampled with r).
func allOrders(p *aProg, max int, r *rand.Rand) [][]step {
	orders := [][]step{{}}
	for _, m := range loadedMods(p) {
		var groups [3][]step
		for _, e := range p.Ty {
			if e.Key[0] == m && e.Def.K != "no" {
				groups[0] = append(groups[0], step{"type", e.Key})
			}
		}
		for _, e := range p.Co {
			if e.Key[0] == m && e.Def.K != "no" {
				groups[1] = append(groups[1], step{"constant", e.Key})
			}
		}
		for _, e := range p.Sv {
			if e.Key[0] == m && e.Def.K != "no" {
				groups[2] = append(groups[2], step{"service", e.Key})
			}
		}
		for _, g := range groups {
			perms := permutations(g)
			var next [][]step
			for _, o := range orders {
				for _, pm := range perms {
					next = append(next, append(append([]step{}, o...), pm...))
				}
			}
			orders = next
			if len(orders) > 4*max {
				r.Shuffle(len(orders), func(i, j int) { orders[i], orders[j] = orders[j], orders[i] })
				orders = orders[:max]
			}
		}
	}
	if len(orders) > max {
		r.Shuffle(len(orders), func(i, j int) { orders[i], orders[j] = orders[j], orders[i] })
		orders = orders[:max]
	}
	return orders
}

// ---------------------------------------------------------------------------
// dump of the compiled module graph

func modName(file string) string {
	return strings.TrimSuffix(filepath.Base(file), ".thrift")
}

func projType(t compile.TypeSpec) wj.J {
	nilp := wj.J{"k": "nil", "key": []string{"", ""}, "n": ""}
	if t == nil {
		return nilp
	}
	switch x := t.(type) {
	case *compile.TypedefSpec:
		return wj.J{"k": "ent", "key": []string{modName(x.File), x.Name}, "n": ""}
	case *compile.StructSpec:
		return wj.J{"k": "ent", "key": []string{modName(x.File), x.Name}, "n": ""}
	case *compile.EnumSpec:
		return wj.J{"k": "ent", "key": []string{modName(x.File), x.Name}, "n": ""}
	case *compile.ListSpec:
		// a list root is compared together with the root of its element type
		return wj.J{"k": "list", "key": []string{"", ""}, "n": "", "e": projType(compile.RootTypeSpec(x.ValueSpec))}
	case *compile.I32Spec, *compile.StringSpec, *compile.BoolSpec, *compile.I8Spec, *compile.I16Spec, *compile.I64Spec, *compile.DoubleSpec, *compile.BinarySpec:
		return wj.J{"k": "base", "key": []string{"", ""}, "n": t.ThriftName()}
	}
	return wj.J{"k": "other", "key": []string{"", ""}, "n": fmt.Sprintf("%T", t)}
}

func projConst(v compile.ConstantValue) string {
	switch v.(type) {
	case nil:
		return "none"
	case compile.ConstantInt:
		return "int"
	case compile.ConstantString:
		return "str"
	case compile.ConstReference:
		return "const"
	case compile.EnumItemReference:
		return "item"
	case *compile.ConstantStruct:
		return "struct"
	}
	return fmt.Sprintf("%T", v)
}

// illTyped lists the places where a linked constant value does not have the form of its declared type (a value that was
// stored without being cast: an integer in a double field, a list literal in a set, an unresolved reference ...).
func illTyped(v compile.ConstantValue, t compile.TypeSpec, path string, depth int, out *[]string) {
	if v == nil || t == nil || depth > 8 {
		return
	}
	bad := func() { *out = append(*out, fmt.Sprintf("%s: %T for %s", path, v, t.ThriftName())) }
	if ref, ok := v.(compile.ConstReference); ok {
		if ref.Target != nil {
			illTyped(ref.Target.Value, t, path+"->"+ref.Target.Name, depth+1, out)
		}
		return
	}
	switch rt := compile.RootTypeSpec(t).(type) {
	case *compile.BoolSpec:
		if _, ok := v.(compile.ConstantBool); !ok {
			bad()
		}
	case *compile.I8Spec, *compile.I16Spec, *compile.I32Spec, *compile.I64Spec:
		if _, ok := v.(compile.ConstantInt); !ok {
			bad()
		}
	case *compile.DoubleSpec:
		if _, ok := v.(compile.ConstantDouble); !ok {
			bad()
		}
	case *compile.StringSpec, *compile.BinarySpec:
		if _, ok := v.(compile.ConstantString); !ok {
			bad()
		}
	case *compile.EnumSpec:
		// an item of THIS enum (same definition), not of another one that is spelled alike
		if r, ok := v.(compile.EnumItemReference); !ok || r.Enum != rt {
			bad()
		}
	case *compile.ListSpec:
		l, ok := v.(compile.ConstantList)
		if !ok {
			bad()
			return
		}
		for i, e := range l {
			illTyped(e, rt.ValueSpec, fmt.Sprintf("%s[%d]", path, i), depth+1, out)
		}
	case *compile.SetSpec:
		l, ok := v.(compile.ConstantSet)
		if !ok {
			bad()
			return
		}
		for i, e := range l {
			illTyped(e, rt.ValueSpec, fmt.Sprintf("%s[%d]", path, i), depth+1, out)
		}
	case *compile.MapSpec:
		m, ok := v.(compile.ConstantMap)
		if !ok {
			bad()
			return
		}
		for i, e := range m {
			illTyped(e.Key, rt.KeySpec, fmt.Sprintf("%s{k%d}", path, i), depth+1, out)
			illTyped(e.Value, rt.ValueSpec, fmt.Sprintf("%s{v%d}", path, i), depth+1, out)
		}
	case *compile.StructSpec:
		st, ok := v.(*compile.ConstantStruct)
		if !ok {
			bad()
			return
		}
		for _, f := range rt.Fields {
			if fv, ok := st.Fields[f.Name]; ok {
				illTyped(fv, f.Type, path+"."+f.Name, depth+1, out)
			}
		}
	case nil:
		// the root of the type is not known (reported elsewhere)
	}
}

func dumpModule(root *compile.Module) wj.J {
	var roots, consts, parents, targets []wj.J
	ill := []string{}
	shared := true
	byPath := map[string]*compile.Module{}
	var mods []string
	_ = root.Walk(func(m *compile.Module) error {
		mods = append(mods, m.Name)
		if prev, ok := byPath[m.ThriftPath]; ok && prev != m {
			shared = false
		}
		byPath[m.ThriftPath] = m
		for _, inc := range m.Includes {
			if prev, ok := byPath[inc.Module.ThriftPath]; ok && prev != inc.Module {
				shared = false
			}
			byPath[inc.Module.ThriftPath] = inc.Module
		}
		return nil
	})
	sort.Strings(mods)
	for _, m := range byPath {
		var names []string
		for n := range m.Types {
			names = append(names, n)
		}
		sort.Strings(names)
		for _, n := range names {
			if td, ok := m.Types[n].(*compile.TypedefSpec); ok {
				roots = append(roots, wj.J{"key": []string{m.Name, n}, "root": projType(compile.RootTypeSpec(td))})
				targets = append(targets, wj.J{"key": []string{m.Name, n}, "target": projType(td.Target)})
			}
		}
		names = names[:0]
		for n := range m.Constants {
			names = append(names, n)
		}
		sort.Strings(names)
		for _, n := range names {
			c := m.Constants[n]
			consts = append(consts, wj.J{"key": []string{m.Name, n}, "v": projConst(c.Value), "ty": projType(c.Type)})
			illTyped(c.Value, c.Type, m.Name+"."+n, 0, &ill)
		}
		var tnames []string
		for n := range m.Types {
			tnames = append(tnames, n)
		}
		sort.Strings(tnames)
		for _, n := range tnames {
			if st, ok := m.Types[n].(*compile.StructSpec); ok {
				for _, f := range st.Fields {
					if f.Default != nil {
						illTyped(f.Default, f.Type, m.Name+"."+n+"."+f.Name+"=", 0, &ill)
					}
				}
			}
		}
		names = names[:0]
		for n := range m.Services {
			names = append(names, n)
		}
		sort.Strings(names)
		for _, n := range names {
			s := m.Services[n]
			pk := []string{"", ""}
			if s.Parent != nil {
				pk = []string{modName(s.File), s.Parent.Name}
				pk[0] = modName(s.Parent.File)
			}
			parents = append(parents, wj.J{"key": []string{m.Name, n}, "parent": pk})
		}
	}
	sortJ := func(xs []wj.J) []wj.J {
		sort.Slice(xs, func(i, j int) bool {
			a, b := xs[i]["key"].([]string), xs[j]["key"].([]string)
			return a[0]+"."+a[1] < b[0]+"."+b[1]
		})
		if xs == nil {
			return []wj.J{}
		}
		return xs
	}
	sort.Strings(ill)
	return wj.J{"roots": sortJ(roots), "targets": sortJ(targets), "consts": sortJ(consts), "parents": sortJ(parents), "shared": shared, "mods": mods,
		"illtyped": ill}
}

func compileOrdered(files map[string]string, order []step, natural bool) (wj.J, string) {
	var m *compile.Module
	var err error
	if natural {
		m, err = compile.Compile("/v/a.thrift", compile.Filesystem(memFS(files)))
	} else {
		steps := make([]compile.LinkStep, len(order))
		for i, s := range order {
			steps[i] = compile.LinkStep{Module: s.Key[0], Kind: s.Kind, Name: s.Key[1]}
		}
		m, err = compile.CompileWithLinkOrder("/v/a.thrift", steps, compile.Filesystem(memFS(files)))
	}
	if err != nil {
		return wj.J{"roots": []wj.J{}, "targets": []wj.J{}, "consts": []wj.J{}, "parents": []wj.J{}, "shared": true, "mods": []string{}, "illtyped": []string{}}, err.Error()
	}
	return dumpModule(m), ""
}

func cmdC07(args []string) error {
	c := newCommon("c07")
	infPath := c.fs.String("inflight", "", "file receiving the case in flight")
	maxOrders := c.fs.Int("orders", 24, "maximum number of link orders per program")
	natural := c.fs.Int("natural", 2, "additional natural (map-order) compilations per program")
	c.fs.Parse(args)
	out, err := newObsWriter(c.out)
	if err != nil {
		return err
	}
	defer out.close()
	inf := newInflight(*infPath)
	r := rand.New(rand.NewSource(c.seed))
	return readCases(c.cases, func(m map[string]interface{}) error {
		id, _ := m["id"].(string)
		raw, _ := json.Marshal(m["prog"])
		var p aProg
		if err := json.Unmarshal(raw, &p); err != nil {
			return fmt.Errorf("case %s: %v", id, err)
		}
		var orders [][]step
		if o, ok := m["order"]; ok { // replay of one order
			ob, _ := json.Marshal(o)
			var one []step
			if err := json.Unmarshal(ob, &one); err != nil {
				return err
			}
			orders = [][]step{one}
		} else {
			orders = allOrders(&p, *maxOrders, r)
		}
		emit := func(order []step, nat bool, k int) error {
			files := render(&p, r)
			o := wj.J{"op": "c07", "id": fmt.Sprintf("%s#%d", id, k), "prog": m["prog"], "order": order, "natural": nat,
				"files": files, "panic": "", "ok": false, "err": "", "dump": wj.J{}}
			mb, _ := json.Marshal(o)
			inf.set(mb)
			var dump wj.J
			var emsg string
			o["panic"] = safely(func() { dump, emsg = compileOrdered(files, order, nat) })
			if o["panic"] == "" {
				o["ok"], o["err"], o["dump"] = emsg == "", emsg, dump
			} else {
				o["dump"] = wj.J{"roots": []wj.J{}, "targets": []wj.J{}, "consts": []wj.J{}, "parents": []wj.J{}, "shared": true, "mods": []string{}, "illtyped": []string{}}
			}
			return out.write(o)
		}
		for k, order := range orders {
			if err := emit(order, false, k); err != nil {
				return err
			}
		}
		for k := 0; k < *natural; k++ {
			if err := emit([]step{}, true, 1000+k); err != nil {
				return err
			}
		}
		return nil
	})
}
