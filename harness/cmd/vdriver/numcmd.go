package main

import (
	"encoding/json"
	"fmt"
	"sort"
	"strings"

	"go.uber.org/thriftrw/compile"
	"verifharness/internal/wj"
)

func init() { register("c09", cmdC09) }

type numItem struct {
	Explicit bool   `json:"explicit"`
	Lit      string `json:"lit"`
}

type numCase struct {
	Ctx   string    `json:"ctx"`
	Ty    string    `json:"ty"`
	Items []numItem `json:"items"`
}

const nodeStruct = "struct Node {\n  1: optional i32 value\n  2: optional Node tail\n  3: optional list<Node> kids\n  4: optional map<string, Node> named\n}\n"

const enumFive = "enum E { ZERO = 0, ONE = 1, MINUS_ONE = -1, MIN = -2147483648, MAX = 2147483647 }\n"

func renderNum(c numCase) (string, bool) {
	var sb strings.Builder
	nonStrict := false
	switch c.Ctx {
	case "enum":
		sb.WriteString("enum E {\n")
		for i, it := range c.Items {
			if it.Explicit {
				fmt.Fprintf(&sb, "  I%d = %s,\n", i, it.Lit)
			} else {
				fmt.Fprintf(&sb, "  I%d,\n", i)
			}
		}
		sb.WriteString("}\n")
	case "fields-strict", "fields-nonstrict":
		nonStrict = c.Ctx == "fields-nonstrict"
		sb.WriteString("struct S {\n")
		for i, it := range c.Items {
			if it.Explicit {
				fmt.Fprintf(&sb, "  %s: optional i32 f%d\n", it.Lit, i)
			} else {
				fmt.Fprintf(&sb, "  i32 f%d\n", i)
			}
		}
		sb.WriteString("}\n")
	case "const":
		fmt.Fprintf(&sb, "const %s x = %s\n", c.Ty, c.Items[0].Lit)
	case "typedef-const":
		fmt.Fprintf(&sb, "typedef %s T\ntypedef T U\nconst U x = %s\n", c.Ty, c.Items[0].Lit)
	case "default":
		fmt.Fprintf(&sb, "struct S {\n  1: optional %s f = %s\n}\n", c.Ty, c.Items[0].Lit)
	case "list":
		fmt.Fprintf(&sb, "const list<%s> x = [%s]\n", c.Ty, c.Items[0].Lit)
	case "mapkey":
		fmt.Fprintf(&sb, "const map<%s, string> x = {%s: \"a\"}\n", c.Ty, c.Items[0].Lit)
	case "enumitem-const":
		fmt.Fprintf(&sb, "enum E { P = %s }\nconst %s x = E.P\n", c.Items[0].Lit, c.Ty)
	case "enumitem-default":
		fmt.Fprintf(&sb, "enum E { P = %s }\nstruct S {\n  1: optional %s f = E.P\n}\n", c.Items[0].Lit, c.Ty)
	case "enumitem-list":
		fmt.Fprintf(&sb, "enum E { P = %s }\ntypedef %s T\nconst list<T> x = [E.P]\n", c.Items[0].Lit, c.Ty)
	case "enum-const":
		fmt.Fprintf(&sb, "%sconst E x = %s\n", enumFive, c.Items[0].Lit)
	case "enum-default":
		fmt.Fprintf(&sb, "%sstruct S {\n  1: optional E f = %s\n}\n", enumFive, c.Items[0].Lit)
	case "enum-list":
		fmt.Fprintf(&sb, "%stypedef E TE\nconst list<TE> x = [%s]\n", enumFive, c.Items[0].Lit)
	case "dup-id":
		sb.WriteString("struct S {\n  1: optional i32 a\n  1: optional i32 b\n}\n")
	case "dup-name":
		sb.WriteString("struct S {\n  1: optional i32 a\n  2: optional i32 a\n}\n")
	case "dup-item":
		sb.WriteString("enum E { A = 1, A = 2 }\n")
	case "dup-item-case":
		sb.WriteString("enum E { A = 1, a = 2 }\n")
	case "dup-fn":
		sb.WriteString("service S { void f(), void f() }\n")
	case "self-const":
		sb.WriteString("const i32 x = x\n")
	case "self-const-2":
		sb.WriteString("const list<i32> x = [y]\nconst i32 y = z\nconst i32 z = y\n")
	case "self-const-struct":
		sb.WriteString(nodeStruct + "const Node a = {\"value\": 1, \"tail\": a}\n")
	case "self-const-struct-2":
		sb.WriteString(nodeStruct + "const Node a = {\"tail\": b}\nconst Node b = {\"named\": {\"back\": a}}\n")
	case "self-const-list":
		sb.WriteString(nodeStruct + "const Node a = {\"kids\": [{\"value\": 1}, a]}\n")
	case "self-service":
		sb.WriteString("service S extends S {}\n")
	case "throws-typedef":
		sb.WriteString("exception X {}\ntypedef X XA\nservice S { void g(), void f() throws (1: XA e) }\n")
	case "throws-struct":
		sb.WriteString("struct X {}\nservice S { void f() throws (1: X e) }\n")
	case "throws-primitive":
		sb.WriteString("service S { void f() throws (1: string e) }\n")
	case "oneway-result":
		sb.WriteString("service S { oneway i32 f() }\n")
	case "oneway-throws":
		sb.WriteString("exception X {}\nservice S { oneway void f() throws (1: X e) }\n")
	case "dup-param-id":
		sb.WriteString("service S { void f(1: i32 a, 1: i32 b) }\n")
	case "dup-param-name":
		sb.WriteString("service S { void g(), void f(1: i32 a, 2: i32 a) }\n")
	case "dup-throws-id":
		sb.WriteString("exception X {}\nexception Y {}\nservice S { void f() throws (1: X a, 1: Y b) }\n")
	case "union-required":
		sb.WriteString("union U { 1: required i32 a }\n")
	case "union-default":
		sb.WriteString("union U { 1: i32 a = 1 }\n")
	case "extends-struct":
		sb.WriteString("struct P {}\nservice S extends P {}\n")
	case "extends-missing":
		sb.WriteString("service S extends Nope {}\n")
	case "dup-type-name":
		sb.WriteString("struct A {}\nenum A { X }\n")
	case "dup-const-type":
		sb.WriteString("struct A {}\nconst i32 A = 1\n")
	case "self-service-2":
		sb.WriteString("service S extends T {}\nservice T extends S {}\n")
	}
	return sb.String(), nonStrict
}

func constLeaves(v compile.ConstantValue, out *[][]int) {
	switch x := v.(type) {
	case compile.ConstantInt:
		*out = append(*out, wj.Limbs(uint64(int64(x))))
	case compile.ConstantList:
		for _, e := range x {
			constLeaves(e, out)
		}
	case compile.ConstantSet:
		for _, e := range x {
			constLeaves(e, out)
		}
	case compile.ConstantMap:
		for _, e := range x {
			constLeaves(e.Key, out)
		}
	case compile.ConstReference:
		constLeaves(x.Target.Value, out)
	case compile.EnumItemReference:
		*out = append(*out, wj.Limbs(uint64(int64(x.Item.Value))))
	}
}

func c09Observe(id string, c numCase, raw interface{}) wj.J {
	text, nonStrict := renderNum(c)
	o := wj.J{"op": "c09", "id": id, "c": raw, "text": text, "nonstrict": nonStrict, "ok": false, "err": "", "nums": [][]int{}, "panic": ""}
	o["panic"] = safely(func() {
		opts := []compile.Option{compile.Filesystem(memFS{"/v/a.thrift": text})}
		if nonStrict {
			opts = append(opts, compile.NonStrict())
		}
		m, err := compile.Compile("/v/a.thrift", opts...)
		if err != nil {
			o["err"] = err.Error()
			return
		}
		o["ok"] = true
		nums := [][]int{}
		switch c.Ctx {
		case "enum":
			if e, ok := m.Types["E"].(*compile.EnumSpec); ok {
				for _, it := range e.Items {
					nums = append(nums, wj.Limbs(uint64(int64(it.Value))))
				}
			}
		case "fields-strict", "fields-nonstrict", "default", "enum-default", "enumitem-default":
			if s, ok := m.Types["S"].(*compile.StructSpec); ok {
				for _, f := range s.Fields {
					if c.Ctx == "default" || c.Ctx == "enum-default" || c.Ctx == "enumitem-default" {
						constLeaves(f.Default, &nums)
					} else {
						nums = append(nums, wj.Limbs(uint64(int64(f.ID))))
					}
				}
			}
		default:
			var names []string
			for n := range m.Constants {
				names = append(names, n)
			}
			sort.Strings(names)
			if cst, ok := m.Constants["x"]; ok {
				constLeaves(cst.Value, &nums)
			}
		}
		o["nums"] = nums
	})
	return o
}

func cmdC09(args []string) error {
	c := newCommon("c09")
	c.fs.Parse(args)
	out, err := newObsWriter(c.out)
	if err != nil {
		return err
	}
	defer out.close()
	return readCases(c.cases, func(m map[string]interface{}) error {
		id, _ := m["id"].(string)
		raw, _ := json.Marshal(m["c"])
		var nc numCase
		if err := json.Unmarshal(raw, &nc); err != nil {
			return err
		}
		return out.write(c09Observe(id, nc, m["c"]))
	})
}
