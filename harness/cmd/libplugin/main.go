// libplugin is a thriftrw plugin built with the plugin library (plugin.Main):
// the conforming plugin of property C16.  LIBPLUGIN_GEN=1 gives it a service
// generator that answers with one fixed file; without it the plugin advertises
// no feature.
package main

import (
	"os"

	"go.uber.org/thriftrw/plugin"
	"go.uber.org/thriftrw/plugin/api"
)

type gen struct{}

func (gen) Generate(*api.GenerateServiceRequest) (*api.GenerateServiceResponse, error) {
	return &api.GenerateServiceResponse{Files: map[string][]byte{"lib/out.go": []byte("package lib\n")}}, nil
}

func main() {
	p := &plugin.Plugin{Name: "lib"}
	if os.Getenv("LIBPLUGIN_GEN") == "1" {
		p.ServiceGenerator = gen{}
	}
	plugin.Main(p)
}
