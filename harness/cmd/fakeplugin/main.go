// fakeplugin is a scripted thriftrw plugin: installed as thriftrw-plugin-<name>,
// it follows <FAKEPLUGIN_DIR>/<name>.script.json (one fault per protocol step)
// and logs what it sees to <FAKEPLUGIN_DIR>/<name>.log as NDJSON events with its
// own sequence numbers.  Frames and request envelopes are parsed by hand so that
// the plugin side does not depend on the code under test for reading.
package main

import (
	"time"
	"syscall"
	"os/signal"
	"bytes"
	"encoding/binary"
	"encoding/json"
	"fmt"
	"io"
	"os"
	"path/filepath"
	"strings"

	"go.uber.org/thriftrw/plugin/api"
	tbinary "go.uber.org/thriftrw/protocol/binary"
	"go.uber.org/thriftrw/ptr"
	"go.uber.org/thriftrw/wire"
)

type script struct {
	ReplyName string            `json:"replyName"`
	Hs        string            `json:"hs"`
	Gen       string            `json:"gen"`
	Bye       string            `json:"bye"`
	Files     map[string]string `json:"files"`
	TruncAt   int               `json:"truncAt"`
	OneByte   bool              `json:"onebyte"`
}

var (
	logf *os.File
	seq  int
)

func event(ev, method string) {
	seq++
	b, _ := json.Marshal(map[string]interface{}{"seq": seq, "ev": ev, "method": method})
	logf.Write(append(b, '\n'))
}

func die(ev string) {
	event(ev, "")
	event("exit", "")
	logf.Close()
	os.Exit(0)
}

func readFrame(r io.Reader) ([]byte, error) {
	var hdr [4]byte
	if _, err := io.ReadFull(r, hdr[:]); err != nil {
		return nil, err
	}
	n := binary.BigEndian.Uint32(hdr[:])
	buf := make([]byte, n)
	_, err := io.ReadFull(r, buf)
	return buf, err
}

// parseEnvelope reads a strict envelope header by hand: version|type, name, seqid.
func parseEnvelope(b []byte) (name string, seqid int32, ok bool) {
	if len(b) < 12 || b[0] != 0x80 || b[1] != 0x01 {
		return "", 0, false
	}
	n := int(binary.BigEndian.Uint32(b[4:8]))
	if n < 0 || 8+n+4 > len(b) {
		return "", 0, false
	}
	name = string(b[8 : 8+n])
	seqid = int32(binary.BigEndian.Uint32(b[8+n : 12+n]))
	return name, seqid, true
}

func writeOut(s *script, frame []byte, truncate bool) {
	if truncate {
		k := s.TruncAt
		if k > len(frame)-1 {
			k = len(frame) - 1
		}
		if k < 0 {
			k = 0
		}
		os.Stdout.Write(frame[:k])
		return
	}
	if s.OneByte {
		for i := range frame {
			os.Stdout.Write(frame[i : i+1])
		}
		return
	}
	os.Stdout.Write(frame)
}

func frameOf(payload []byte) []byte {
	var hdr [4]byte
	binary.BigEndian.PutUint32(hdr[:], uint32(len(payload)))
	return append(hdr[:], payload...)
}

func envelope(name string, seqid int32, typ wire.EnvelopeType, v wire.Value) []byte {
	var buf bytes.Buffer
	tbinary.Default.EncodeEnveloped(wire.Envelope{Name: name, Type: typ, SeqID: seqid, Value: v}, &buf)
	return buf.Bytes()
}

func exceptionBody() wire.Value {
	return wire.NewValueStruct(wire.Struct{Fields: []wire.Field{
		{ID: 1, Value: wire.NewValueString("scripted failure")},
		{ID: 2, Value: wire.NewValueI32(6)},
	}})
}

func main() {
	self := filepath.Base(os.Args[0])
	name := strings.TrimPrefix(self, "thriftrw-plugin-")
	dir := os.Getenv("FAKEPLUGIN_DIR")
	// the same plugin may be asked for twice (-p "name --inst=2"): each instance has its own script and log
	key := name
	for _, a := range os.Args[1:] {
		if strings.HasPrefix(a, "--inst=") {
			key = name + "#" + strings.TrimPrefix(a, "--inst=")
		}
	}
	var s script
	if b, err := os.ReadFile(filepath.Join(dir, key+".script.json")); err == nil {
		json.Unmarshal(b, &s)
	}
	var err error
	logf, err = os.OpenFile(filepath.Join(dir, key+".log"), os.O_CREATE|os.O_WRONLY|os.O_APPEND, 0644)
	if err != nil {
		fmt.Fprintln(os.Stderr, "fakeplugin: cannot open log:", err)
		os.Exit(3)
	}
	event("start", "")
	if s.Hs == "exitbefore" {
		die("exitbefore")
	}
	for {
		req, err := readFrame(os.Stdin)
		if err != nil {
			die("eof")
		}
		method, seqid, ok := parseEnvelope(req)
		if !ok {
			event("recv", "?unparsable")
			die("badrequest")
		}
		event("recv", method)
		fault := "ok"
		var reply wire.Value
		switch method {
		case "Plugin:handshake":
			fault = s.Hs
			rn := name
			if s.ReplyName != "" {
				rn = s.ReplyName
			}
			resp := &api.HandshakeResponse{Name: rn, APIVersion: api.APIVersion, Features: []api.Feature{api.FeatureServiceGenerator},
				LibraryVersion: ptr.String("0.0.0-fake")}
			switch fault {
			case "wrongname":
				resp.Name = rn + "-other"
			case "wrongversion":
				resp.APIVersion = api.APIVersion + 1
			case "olderversion": // any version other than the host's is a mismatch, older ones included
				resp.APIVersion = api.APIVersion - 1
			case "zeroversion":
				resp.APIVersion = 0
			case "negversion":
				resp.APIVersion = -1
			case "nofeature":
				resp.Features = []api.Feature{}
			}
			res, _ := api.Plugin_Handshake_Helper.WrapResponse(resp, nil)
			reply, _ = res.ToWire()
		case "ServiceGenerator:generate":
			fault = s.Gen
			files := map[string][]byte{}
			for p, c := range s.Files {
				files[p] = []byte(c)
			}
			res, _ := api.ServiceGenerator_Generate_Helper.WrapResponse(&api.GenerateServiceResponse{Files: files}, nil)
			reply, _ = res.ToWire()
		case "Plugin:goodbye":
			fault = s.Bye
			res, _ := api.Plugin_Goodbye_Helper.WrapResponse(nil)
			reply, _ = res.ToWire()
		default:
			reply = exceptionBody()
			fault = "exception"
		}
		switch fault {
		case "exception":
			writeOut(&s, frameOf(envelope(method, seqid, wire.Exception, exceptionBody())), false)
		case "garbage":
			writeOut(&s, frameOf([]byte{0xde, 0xad, 0xbe, 0xef, 0x00, 0x01, 0x02}), false)
		case "trunc":
			writeOut(&s, frameOf(envelope(method, seqid, wire.Reply, reply)), true)
			die("truncated")
		case "oversize":
			payload := envelope(method, seqid, wire.Reply, reply)
			fr := frameOf(payload)
			binary.BigEndian.PutUint32(fr[:4], uint32(len(payload)+1000))
			os.Stdout.Write(fr)
			die("oversize")
		case "neglen", "neglen2":
			// a length prefix with the top bit set (2^31, 2^32 - 1), a few bytes, then gone
			pre := []byte{0x80, 0, 0, 0}
			if fault == "neglen2" {
				pre = []byte{0xff, 0xff, 0xff, 0xff}
			}
			os.Stdout.Write(append(pre, []byte("junk")...))
			die("neglen")
		case "exitafter", "exit", "noreply":
			die("noreply")
		case "flood", "garbageflood":
			// answers (a proper reply / garbage), then keeps writing to stdout without reading stdin again: it goes away only
			// when nobody reads its stdout any more (EPIPE; SIGPIPE is taken so that the exit can be logged)
			signal.Notify(make(chan os.Signal, 1), syscall.SIGPIPE)
			if fault == "flood" {
				writeOut(&s, frameOf(envelope(method, seqid, wire.Reply, reply)), false)
			} else {
				writeOut(&s, frameOf([]byte{0xde, 0xad, 0xbe, 0xef, 0x00, 0x01, 0x02}), false)
			}
			event("flooding", "")
			deadline := time.Now().Add(100 * time.Second)
			junk := make([]byte, 1<<20)
			for time.Now().Before(deadline) {
				if _, err := os.Stdout.Write(junk); err != nil {
					die("epipe")
				}
				time.Sleep(20 * time.Millisecond)
			}
			die("linger-timeout")
		default: // ok, wrongname, wrongversion, nofeature, dotdot, samepath, ...
			writeOut(&s, frameOf(envelope(method, seqid, wire.Reply, reply)), false)
		}
		if method == "Plugin:goodbye" {
			die("goodbye-done")
		}
	}
}
