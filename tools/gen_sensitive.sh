#!/bin/sh
# Regenerates specs/seeds/linker_sensitive.ndjson from the model of the pinned linker.
set -e
V=$(cd "$(dirname "$0")/.." && pwd)
T=$(mktemp -d)
cp $V/specs/*.tla $T/
: > $V/specs/seeds/linker_sensitive.ndjson
for f in types consts svcs mixed modules; do
  printf 'INIT GenInit\nNEXT GenNext\nCONSTANTS\n  Fuel = 7\n  Repaired = FALSE\n  Family = "%s"\nCHECK_DEADLOCK FALSE\n' $f > $T/s_$f.cfg
  (cd $T && timeout 3000 java -XX:+UseParallelGC -Xss512m -cp /opt/veriftools/tla/tla2tools.jar:/opt/veriftools/tla/CommunityModules-deps.jar tlc2.TLC -workers 1 -metadir $T/m_$f -config s_$f.cfg MCLinkerSens.tla > $T/log_$f 2>&1) || { tail -20 $T/log_$f; exit 1; }
  cat $T/sensitive.ndjson >> $V/specs/seeds/linker_sensitive.ndjson
  echo "$f: $(wc -l < $T/sensitive.ndjson)"
done
rm -rf $T
