#!/bin/sh
# usage: c11dbg.sh <scratch-dir> <row-id> [TRUE|FALSE]   -- debugging aid, prints per-node truth / model / observed
cd /tmp/dbg11 || exit 2
cat $1/drv_c11/obs_*.ndjson | grep "\"id\":\"$2\"" | head -1 > obs.ndjson
python3 -c "
import json,base64
r=json.loads(open('obs.ndjson').read())
c=[json.loads(l) for f in __import__('glob').glob('$1/drv_c11/cases_*.ndjson') for l in open(f) if json.loads(l)['id']=='$2'][0]
t=c.get('text') or base64.b64decode(c['b64']).decode('utf-8','replace')
for i,l in enumerate(t.split('\n')): print('%3d| %s'%(i+1,l.replace('\r','<CR>')))
print(r.get('perrs'))
"
sed -i "s/= [A-Z]*$/= ${3:-FALSE}/" Dbg.cfg
java -Xss512m -cp /opt/veriftools/tla/tla2tools.jar:/opt/veriftools/tla/CommunityModules-deps.jar tlc2.TLC -config Dbg.cfg Dbg.tla 2>&1 | grep -i 'error' 
python3 -c "
import json
for i,d in enumerate(json.load(open('dbg.json'))):
    o=d['o']; x=d['x']; op=[o['l'],o['c']]
    fl=('' if op==d['truth'] else ' !TRUTH')+('' if op==d['code'] else ' !MODEL')
    dfl=('' if o['doc']==d['tdoc'] else ' !DOCTRUTH(%r)'%d['tdoc'])+('' if o['doc']==d['cdoc'] else ' !DOCMODEL(%r)'%d['cdoc'])
    print(i+1, x['k'], x['n'], x['mk'], 'obs',op,'truth',d['truth'],'code',d['code'], repr(o['doc']) if o['doc'] else '', fl, dfl, '' if (x['k'],x['n'],x['v'],x['d'])==(o['k'],o['n'],o['v'],o['d']) else ' !SHAPE obs=%s'%o)
"
