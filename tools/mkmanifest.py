#!/usr/bin/env python3
"""Regenerates /verif/MANIFEST.json from the table below (single source of truth)."""
import json, os, subprocess
V = os.path.dirname(os.path.dirname(os.path.abspath(__file__)))

CHECKS = {
 "C02": dict(
   level="model_checking", ref="DESIGN.md section 5 (C02), section 3 (Wire.tla, Reader.tla)",
   technique="TLA+ spec (Wire.tla/Reader.tla) model-checked by TLC; TLC-generated cases replayed on the real codec; recorded observations validated by the trace spec C02Trace.tla",
   text="TLC exhaustively checks the stream-writer machine and both reader models over a bounded universe of wire values (all 11 types, boundary scalars, nested containers); the same universe is replayed on the real Protocol.Encode/StreamWriter/Decode/StreamReader together with seeded random deep values and binaries around the 1 MiB threshold, and every recorded result is judged by TLC against the specification's Enc/WriterCalls operators.",
   note="Trusted: TLC, the Json module, the harness projection (bit splitting, sha256 for binaries > 4 KiB). Bounded-exhaustive for small shapes, sampled beyond."),
}

CHECKS["C03"] = dict(
   level="model_checking", ref="DESIGN.md section 5 (C03), section 3 (Reader.tla)",
   technique="TLA+ model of both decoders and Skip (Reader.tla) model-checked by TLC over all short byte strings and grammar-aware mutants; the model's reachable inputs replayed on the real decoders; observations validated by C03Trace.tla (property predicates + exact model conformance)",
   text="TLC checks Canonical, SkipAgrees, ReadersAgree and the cost bound on every byte string over a 12-17 symbol alphabet up to length 3-4 (7 for a reduced alphabet) and on every 1-byte substitution/truncation of the encodings of ~900 values, for 13 requested types and both reader kinds. The same inputs (TLC state dump) plus seeded mutants of random nested values are run through the real random-access reader (with forcing), the stream reader under four read segmentations, and Skip on seekable and pure-stream sources in crash-isolated child processes; TLC judges each observation.",
   note="Trusted: TLC, Json module, harness projection. Hang = child timeout. Beyond the bounded families the exploration is sampled.")
CHECKS["C12"] = dict(
   level="model_checking", ref="DESIGN.md section 5 (C12), section 3 (Envelope.tla)",
   technique="TLA+ model of the three framings and both request APIs with the peek segmentation as an environment action (MCEnvelope.tla, with a negative-control config); cases replayed on the real encoders/DecodeRequest/ReadRequest/responders; observations validated by C12Trace.tla",
   text="TLC checks RoundTrip, RejectWrongType, ApisAgree, BothOkEqual and peek completeness for all envelopes over names (incl. ':' and non-UTF8, empty), types incl. unknown, seqid boundaries, 3 framings, 2 expected types, damaged requests and all peek segmentations; a config modelling a single-Read peek must violate ApisAgree (negative control). The envelopes are encoded by the real encoders and sent through DecodeRequest and ReadRequest under five reader kinds (seekable, whole, 1-byte, zero-length reads, random splits) with real responders; TLC judges exact bytes, echo and agreement.",
   note="Trusted: TLC, Json module, harness projection. Legacy envelopes with empty names are outside the property.")

CHECKS["C13"] = dict(
   level="model_checking", ref="DESIGN.md section 5 (C13)",
   technique="TLA+ cost-annotated models (Reader.tla al/st, Envelope.tla, Frame.tla) model-checked by TLC over messages with inflated length fields (MCCost.tla, with negative control); the model's messages replayed on every real decoding API with measured allocation and source calls; judged by C13Trace.tla",
   text="TLC checks alloc <= 12 MiB + 64 N and linear step counts for the models of all decoding APIs on ~650k short messages (struct bodies bare, strict/legacy enveloped, framed, and bodies shaped like the plugin/api types) in which every 4-byte window is overwritten by 2^16..2^32-1; a config that pre-allocates the legacy name must violate the bound. The same messages are run through 25 real APIs (Decode+force, stream decode, Skip seek/stream, DecodeEnveloped, DecodeRequest, ReadRequest, ReadEnvelopeBegin, frame.Reader, generated Decode/FromWire of 8 plugin/api types) in child processes under an address-space limit; TotalAlloc delta and source-call counts are judged by TLC.",
   note="Trusted: TLC, Json module, runtime.MemStats. C=12 MiB covers the documented 10 MiB frame fast path and 1 MiB binary threshold. Wall time is never judged. Known finding C13-gen-stream-presize (generated streaming Decode).")

CHECKS["C07"] = dict(
   level="model_checking", ref="DESIGN.md section 5 (C07), section 3 (Linker.tla)",
   technique="TLA+ model of the linker (Linker.tla: state-passing Link operators with linkOnce, cached roots, scopes) model-checked by TLC over five program families x all link orders (MCLinker.tla, negative control = pinned linker); programs replayed on the real compiler under forced link orders (verif hook) and natural order; judged by C07Trace.tla against Denote(prog) and the model run",
   text="TLC checks, for every program of five bounded families (3 type definitions of every shape; 3 constants over every type/value shape; 3 services; struct defaults <-> constants <-> structs; two files with all include shapes and qualified/bare references) and every order in which compiler.link can range over its maps, that success/failure and every typedef root equal the order-free meaning Denote(prog), that recursion depth is bounded and parent chains finite. The programs are rendered to IDL (definitions shuffled) and compiled by the real compiler under up to N forced link orders plus natural runs; TLC compares outcome, typedef roots, shared include identity with Denote and with the model executed under the same order (zero drift on the unchanged tree).",
   note="Trusted: TLC, Json module, the IDL renderer, the link-order hook (pre-links in schedule order, then the unmodified link pass). Known finding C07-default-cast-while-linking (recognised through the model's hazard flag).")
CHECKS["C08"] = dict(
   level="model_checking", ref="DESIGN.md section 5 (C08)",
   technique="MCLinker.tla invariants NoOverflow/ParentsFinite over every reference-cycle shape and link order (negative control = pinned linker); programs + structural cycle family + token-level mutants run through compile.Compile and gen.Generate in crash-isolated children; outcome invariant judged by C08Trace.tla",
   text="Exhaustive on the model: no linking order of any program with typedef/const/default/service/include cycles exceeds the recursion fuel, and the generator's parent walk is finite. On the code: those programs, 16 further cycle kinds x length 1..3, include loops, and thousands of seeded token mutants of the repository's IDL and raw bytes are compiled and generated in child processes; a child that dies (stack overflow, panic) or hangs is attributed to the case in flight. The raw-bytes/mutant part is exploration under a trivial outcome spec.",
   note="Trusted: TLC, child-process isolation with wall-clock timeout. For arbitrary bytes the spec contributes only 'result xor descriptive error'.")
CHECKS["C09"] = dict(
   level="model_checking", ref="DESIGN.md section 5 (C09), Numeric.tla",
   technique="TLA+ model of the numeric compile loops on 64-bit limbs (Numeric.tla/MCNumeric.tla, negative control = unchecked conversions) model-checked by TLC; every numeric context x boundary literal compiled by the real compiler; compiled numbers compared limb by limb with the source's meaning by C09Trace.tla",
   text="TLC checks NoSilentWrap for compileEnum (explicit/implicit continuation), compileFields (strict, non-strict, auto-assigned negative ids) and ConstantInt.Link over all sequences of boundary literals; the pinned (unchecked) variant must violate it. Exhaustive replay: 3.5k programs = every numeric position (field ids, enum values, i8..i64 constants, defaults, list elements, map keys, typedef'd constants) x 115 literal spellings around 0, 2^7, 2^8, 2^15, 2^16, 2^31, 2^32, 2^63, strict and non-strict, plus duplicate id/name/item and self-definition programs; TLC recomputes the meant numbers and checks equality and range for every accepted program and model-conformant acceptance.",
   note="Trusted: TLC, Json module, limb splitting in the harness. Exhaustive over the stated literal table, not over all integers.")
CHECKS["C10"] = dict(
   level="model_checking", ref="DESIGN.md section 5 (C10)",
   technique="MCLinker.tla order-freedom invariants (TLC, all link orders) + history-carrying trace spec C10Trace.tla over repeated in-process / cross-process / forced-link-order generations with sha256 digests of every generated file and of the canonicalised plugin request",
   text="Design level: for every program of the Linker families, every link order yields the same outcome and roots (so generation input is order-free). Code level: Linker-family programs are generated under forced link orders and natural map order, the repository's own test IDL under 4 option sets and seeded big multi-file programs (maps with >= 9 entries, map/set/struct constants, cross-file service inheritance) under 2, several times in each of 3-6 processes; the trace spec fixes the first (outcome, path->digest map, request digest) per input and rejects any later difference.",
   note="Trusted: sha256, Go's per-process hash seed as the source of map-order variation plus the link-order hook. Known finding C10-default-cast-while-linking.")

CHECKS["C16"] = dict(
   level="model_checking", ref="DESIGN.md section 5 (C16), Plugin.tla",
   technique="TLA+ model of the plugin protocol (Plugin.tla: host with one goroutine per plugin and phase, plugin processes following fault scripts, one-slot pipes) model-checked by TLC over all script assignments and interleavings incl. liveness (negative control: unnamed goodbye failure); every script assignment replayed with a scripted fake plugin against the real host in-process and through the thriftrw binary; per-plugin event logs validated by C16Trace.tla",
   text="TLC checks GenerateOnlyAfterGoodHandshake, ExactlyOneGoodbye, GoodbyeIsLast, AllClosedAllReaped, ExitCodeIffFailure, FailureNamesPlugin, WriteOnlyOnSuccess, the per-plugin protocol automaton, script-determined request sequences, NeverStuck and termination for 2 plugins x 6-9 handshake faults x 5-7 generate faults x 2-3 goodbye faults (and 3 plugins with reduced faults) under every interleaving. The same assignments drive harness/cmd/fakeplugin (hand-written frame/envelope reader) against internal/plugin (pipes and reaping observed) and against the real binary, plus truncation of reply frames at every byte offset, 1-byte writes and oversize length prefixes; TLC judges each run's logs, exit status and error text.",
   note="Environment assumption: a plugin that leaves a frame incomplete closes stdout/exits (the host has no timeouts). Trusted: TLC, the fake plugin, process accounting of os/exec.")
CHECKS["C17"] = dict(
   level="model_checking", ref="DESIGN.md section 5 (C17), Generate.tla",
   technique="TLA+ model of gen.Generate's accumulate-then-write structure with path shapes and a Clean table (Generate.tla; negative control: raw-string conflict detection) + Plugin.tla's WriteOnlyOnSuccess, model-checked by TLC; the real thriftrw binary run on layout cases and plugin path shapes with before/after listing of the sandbox; judged by C16Trace.tla's CLI predicates",
   text="TLC checks Confined, ConflictIsError, AllOrNothing, NothingBeforeWritePhase and DeterministicOutput for every assignment of 10 path shapes to 2-3 plugins, with and without a failing module, over all module-walk, plugin-completion and write orders. The real binary is run on: k-th of n modules failing (n = 2..4, every k), nested directory layouts under default/explicit/too narrow thrift roots, no-recurse, nested output dirs (expected path sets computed from file locations alone), every pair of 11 plugin path shapes (relative, absolute, '..', '.', repeated separators, equal to a core path, equal to the other plugin's path) and plugin failures; the sandbox around the output directory is listed before and after each run.",
   note="I/O failure during the write loop is outside the property's antecedent. Trusted: TLC, the fake plugin, file listing with sha256.")

CHECKS["C18"] = dict(
   level="model_checking", ref="DESIGN.md section 5 (C18), Pools.tla, FrameClient.tla",
   technique="TLA+ models of the five sync.Pools (Pools.tla) and of concurrent Sends on one frame client (FrameClient.tla) model-checked by TLC over all interleavings (negative controls: double Close, no mutex); TLC-generated schedules forced on the real frame client through a blocking gate hook; pool-hook event logs of race-detector stress runs replayed through the model's holder map by C18Trace.tla",
   text="Design: every interleaving of 2-3 operations (Encode, Decode of a lazy list with force and Close, stream encode/decode) over 2 objects per pool incl. GC of pooled objects keeps OneHolder, NotPooledWhileHeld, CleanInPool, Isolated, AllReturned; every interleaving of 3 Sends keeps OwnReply. Code: all complete schedules of the lock-free client model are replayed on the real frame.Client through the verif gate (a schedule the mutex forbids simply blocks), and K in 2..64 goroutines of 8 operation kinds on private random values run under -race with GOMAXPROCS 1/2/16 and forced GCs while the pool hooks log every Get/Put; TLC checks that each object is put back by its holder after its reset, that a pooled object comes back clean, that each operation's digest equals its sequential digest, that K concurrent Sends get their own replies and that a K-way plugin fan-out merges without loss.",
   note="On the real code the schedule is sampled for the pools (stress + race detector) and enumerated only for the frame client (gate). Lazy containers may be dropped without Close, so double holding of those is detected at the next Put. Trusted: TLC, runtime race detector, goroutine ids from runtime.Stack.")

CHECKS["C01"] = dict(
   level="model_checking", ref="DESIGN.md section 5 (C01), GenCodec.tla, SchemaFamily.tla, GoShape.tla",
   technique="schema-driven reference codec in TLA+ (GenCodec.tla) checked for self-consistency by TLC over the bounded schema family F1; the family is rendered to IDL, code-generated by the thriftrw under test, compiled into a lab binary and run on every TLC-generated case; recorded Go values (reflection projection) and serializer bytes are judged by TLC through the reference codec (C01Trace.tla) -- translation-validation flavour",
   text="TLC enumerates F1 = 43 field shapes (8 base types, enum, struct, typedef chains, lists/sets/maps incl. unhashable keys/elements and nested containers) x required/optional x with/without default x struct/union/exception (286 types) plus multi-field struct/union/exception/nesting types, with boundary values (1064 values), and checks that the reference serializer/deserializer invert each other and agree with both reader models. All types are generated by the real generator, built, and each value's reference encoding (also with reversed field order) is decoded by FromWire and by the streaming Decode under 4 read segmentations and re-serialized by ToWire and by the streaming Encode; TLC interprets the mini-schema of each case to compare projected Go values and re-decoded bytes with the value (defaults filled in). Schema-violating Go values (zero union, two union members, nil required field, nil element/key) must be refused by both serializers.",
   note="Trusted: TLC, the reflection projection (json tags), the IDL renderer. Default option set only; other option sets are covered by C10/C15/C06. Exhaustive over F1, which is a bounded family.")
CHECKS["C04"] = dict(
   level="model_checking", ref="DESIGN.md section 5 (C04), GenPaths.tla",
   technique="two-machine TLA+ model of the value-based and streaming deserialization paths (GenPaths.tla) model-checked by TLC on all byte strings up to a bound for 8 schemas; byte strings, valid encodings and mutants run through generated code in the lab; C04Trace.tla judges agreement of the paths and conformance to the two machines",
   text="TLC checks NeverDifferent, WireImpliesStream and agreement with the reference deserializer for both machines (lazy containers forced only where FromWire reads them; element-type guard yielding nil containers; Skip on the stream path) on every byte string over a 9-symbol alphabet up to length 5 (7 thorough; length 8 = 387 M states verified once) for 8 schemas. Real code: all strings up to length 3-4 for those schemas plus valid encodings and byte-level mutants of the F1/multi-field types are decoded on both paths under 4 segmentations and survivors re-serialized on both paths; TLC checks the paths never differ, value-path acceptance implies stream-path acceptance, segmentation independence, serializer agreement, and zero drift from the two machines.",
   note="Trusted: TLC, reflection projection, IDL renderer. Inputs beyond the bounded families are sampled mutants.")

CHECKS["C05"] = dict(
   level="model_checking", ref="DESIGN.md section 5 (C05), Evolve.tla",
   technique="declarative projection Project(W, R, v) in TLA+ (Evolve.tla) model-checked by TLC against the reference deserializer and both path machines over all evolved writer schemas, writer values and foreign-field injections (MCEvolve.tla); the model's states are printed as cases and replayed on code generated for the reader schema; judged by C05Trace.tla",
   text="TLC checks, for 7203 writer schemas (each of the reader struct's 4 fields unchanged / removed / renamed / requiredness flipped / retyped with the same or another wire type / container element retyped, x 3 sets of new fields incl. a negative id), 3 writer values each and every injection of 5 foreign fields (incl. a known id with another wire type and nested containers) at every field boundary of every depth (262k states), that the declarative projection equals the reference deserializer and both machines of GenPaths.tla. A deterministic sample of those states (1/40 quick, 1/3 thorough, offset by the seed) is decoded by the generated reader on the value path and the stream path under 4 segmentations; TLC requires exactly the projection, and an error exactly when the projection is undefined (required field without default absent or mistyped).",
   note="The writer side is the specification's reference encoder; only the reader is code under test. Trusted: TLC, reflection projection, IDL renderer.")
CHECKS["C14"] = dict(
   level="model_checking", ref="DESIGN.md section 5 (C14), Equals.tla",
   technique="wire.ValuesAreEqual transcribed into TLA+ (Equals.tla) and model-checked by TLC against independent structural equality, symmetry and transitivity over a bounded universe of decodable values; TLC-generated triples replayed on generated Equals / ToWire and on wire.ValuesAreEqual; judged by C14Trace.tla",
   text="TLC checks WireEq = Structural, symmetry and transitivity on all same-typed pairs (and triples through an equal third) of the decodable part of the wire universe (84k states quick, 787k thorough). For every type of family F1, every ordered pair of its values becomes a triple (value, permuted re-encoding, other value): the generated code decodes them and the 3x3 Equals matrix, the ValuesAreEqual matrix of the ToWire forms and nil receiver/argument behaviour are judged against structural equality of the projected logical values (doubles numerically, sets/maps as sets), reflexivity, symmetry, transitivity. 21k wire-value pairs (universe peers, one-step perturbations incl. +0/-0, random nested values) are judged against Structural and the transcription (zero drift).",
   note="Claimed domain as in the property: NaN-free, duplicate-free sets/keys/field ids. Trusted: TLC, reflection projection.")

CHECKS["C15"] = dict(
   level="model_checking", ref="DESIGN.md section 5 (C15), Redact.tla",
   technique="TLA+ classification of value leaves by the annotations on their path (Redact.tla Leaves) checked by TLC against the emission structure of the templates (Emitted; negative control: a container printing items raw); the same schemas/values with unique marker payloads generated with zap on/off, compiled and run; marker occurrences in String()/Error()/zap JSON judged by C15Trace.tla",
   text="For 10 secret shapes x required/optional x struct/exception (40 schemas), a holder reaches the annotated struct directly, through list, set, map value, unhashable map key, typedef, typedef of list, and has annotated fields itself; every leaf carries a unique marker. TLC checks on the model that no redact-classified leaf is emitted by any sink and no nolog leaf reaches zap, and that everything else is emitted. Each schema is generated by the real generator with zap and with --no-zap, built, and the decoded value's String(), Error() (exceptions) and zapcore JSON encoder output are searched for every marker in all its spellings (text, decimal byte list, base64); TLC requires redacted markers nowhere, nolog markers and labels absent from zap, and all other labels/markers present.",
   note="Trusted: TLC, the substring search of the lab driver, zap's JSON encoder. '%#v' bypasses String() and is outside the property. Quick tier samples 36 of the 80 (schema, option) labs.")

CHECKS["C19"] = dict(
   level="model_checking", ref="DESIGN.md section 5 (C19), Service.tla",
   technique="three transcriptions of a function's Go types in TLA+ (core generator, plugin API description, plugin library formatting; Service.tla) compared by TLC on all type expressions up to a depth (MCService.tla); the same type expressions generated as service functions, the captured plugin request formatted with the real plugin library and compared with types parsed from the generated Go source; request structure and executed response helpers judged by C19Trace.tla",
   text="TLC checks Format(ApiType(t, req)) = CoreType(t, req) for every type expression of depth <= 2 (3 thorough: 70k) over 24 leaf types (base types, enum, struct, typedefs of each incl. typedef of binary / list / enum list, cross-package struct / enum / typedef / exception), required and optional. Each reachable expression becomes the type of an optional parameter, a required parameter and the return value of a function with two exceptions (one cross-file) in services inheriting across two files; generation runs with and without --no-recurse. TLC compares, per item, the formatted description, the generated Args/Result field type, the WrapResponse/UnwrapResponse value types and the model's expectation; checks id resolution, acyclic parents, root services = services of the generated files, import path / directory consistency; and the lab executes every helper (value through the wire and back, each declared exception, an undeclared error, IsException).",
   note="Trusted: TLC, go/parser based type rendering with import aliases normalised, reflection-built helper inputs.")

CHECKS["C20"] = dict(
   level="model_checking", ref="DESIGN.md section 5 (C20), Break.tla",
   technique="TLA+ model of thriftbreak (Break.tla: the property stated declaratively and the tool's comparison transcribed) checked by TLC over every edit script on a two-directory base program (MCBreak.tla); the same (old, new) program pairs committed to real git repositories, the real thriftbreak binary run on them (readable and -json, shuffled declaration order) and its diagnostics judged by TLC against the declarative statement (C20Trace.tla)",
   text="TLC explores every script of <= 2 (3 thorough) edits of 15 kinds (field added optional / required, optional<->required, type changed, field removed, fields reordered, struct deleted / added, method removed / added, service removed / added, file deleted / added) over two files (one in a subdirectory) and checks that the transcribed algorithm reports exactly the declarative set, modulo the recorded finding; two negative controls (the tool as it is against the property as stated; the pre-fix method path against the property modulo the finding). A deterministic sample of the model's states is rendered to Thrift with shuffled declaration order, committed as HEAD~ / HEAD in scratch git repositories, and thriftbreak is run three times readable and once with -json; TLC checks that the lines are exactly the expected diagnostics, each once, the same in JSON mode, the same across runs and orders, and that the exit status is non-zero iff there are diagnostics.",
   note="Trusted: TLC, the git CLI, the Python renderer of model programs to IDL. Known finding C20-deleted-service-base-name is matched by a structured class (only rows whose sole deviation is the base-name attribution of deleted services).")

CHECKS["C11"] = dict(
   level="model_checking", ref="DESIGN.md section 5 (C11), Lexer.tla, Quote.tla",
   technique="TLA+ model of the IDL scanner's position / docstring bookkeeping and of the moments the grammar's empty `pos` / `docstring` rules read it (Lexer.tla), checked by TLC over every layout of token skeletons drawn from the full grammar (MCLexer.tla); TLA+ model of literal unquoting against the meaning of escape sequences (Quote.tla, MCQuote.tla); the explored layouts and literals, random full-grammar documents from an independent pretty-printer and raw / token-mutated bytes parsed by the real parser, and the returned tree, positions, docstrings and ast.Walk sequence judged by TLC from each document's script (C11Trace.tla)",
   text="MCLexer: per skeleton (10 quick / 18 thorough small documents covering every node kind, marker kind and first-token kind) every assignment of 18 layout gaps (blanks, newlines, CRLF, line / block comments with newlines, docstrings of 5 shapes followed by 0-2 newlines or another comment) with <= 2 (3) non-trivial gaps: every recorded position is the start of the node's first token and every docstring is the adjacent one; negative controls: each of the three scanner repairs switched off, and the property without the recorded finding. MCQuote: every literal body <= 4 (5) bytes over 14 bytes forming all escape kinds, both styles: unquote = meaning; negative control = pinned quote.go. A deterministic sample of both models' states plus 400 (6000) random full-grammar documents with random layout, and 1500 (40000) random / token-mutated byte strings, are parsed by idl.Config.Parse and idl.Parse; TLC recomputes from each script the true and the model-predicted position and docstring of every node and compares tree shape, names, literal values, positions, docstrings, the ast.Walk order with parents, and for all inputs: no panic, program xor non-empty errors, errors inside the document, both entry points agree.",
   note="Trusted: TLC, the pretty-printer's knowledge of the grammar (which marker a node's position comes from), byte-based columns. Three recorded findings are matched by structured classes (position read before the token; equal constants share a position; '/**/' opens a docstring).")

CHECKS["C06"] = dict(
   level="model_checking", ref="DESIGN.md section 5 (C06), GoNames.tla",
   technique="TLA+ model of the generator's naming and reservation design (GoNames.tla: goCase / constantName over abstract identifiers, package-level declared names, per-struct fields, accessors and generated methods, checkReservedIdentifier) checked by TLC over every pair of definitions / fields / parameters / enum items from an identifier pool built to collide (MCGoNames.tla: accepted => builds, non-clashing => accepted; negative control = reservations as pinned), plus TLC-enumerated valid type / default / constant shapes (MCGoShapes.tla); the explored programs and hand-written package / annotation / option families generated by the real thriftrw binary into a scratch module and compiled by go build; outcomes judged by TLC (C06Trace.tla), compilation verdicts from the Go compiler",
   text="MCGoNames: 45 identifiers (case variants, initialisms, SCREAMING_CASE, leading / trailing underscores, Go keywords, names of generated methods, accessors and package-level declarations) x 7 definition kinds x 2, struct / union / exception fields x 2 x optionality, function parameters x 2, enum items x 2, enum item meeting a definition: 113k programs; invariants ModelAccepts => ModelBuilds and Safe => ModelAccepts for option sets all-on / all-off. A sample (every 30th (every) program whose names meet somewhere, every 400th (12th) other) x 9 option sets, every 6th (every) of 1219 type-expression x position shapes (constants, defaults, typedef chains, parameters, returns), and ~100 programs on file and package names (std / runtime package names, Go keywords, digits, hyphens, same base name in two directories, diamond and upward includes), go.name / go.label / go.tag / go.type / go.redact annotations, enums with shared / extreme values, functions, keyword identifiers, split generation (--no-types + --no-constants, --no-recurse per file, --output-file) are generated and built. TLC checks per program: the generator exits 0 or 1 without a panic, accepted => go build succeeds, Safe and IDL-valid (or expected valid) => accepted, rejections carry a message; conformance: acceptance, build outcome and declared top-level names as the model predicts.",
   note="Trusted: TLC, the Go compiler as the oracle for 'builds', the renderer of abstract programs to IDL, go/parser for declared names. The model's clash predicate is used only conservatively (Safe) for verdicts.")

NOT_YET = {}

def main():
    props = [json.loads(l) for l in open(os.path.join(V, "properties.jsonl"))]
    checks, na = [], []
    for p in props:
        pid = p["id"]
        c = CHECKS.get(pid)
        if c is None:
            na.append({"property_id": pid, "reason": NOT_YET.get(pid, "check not built yet in this round; planned per DESIGN.md section 5")})
            continue
        checks.append({
            "property_id": pid,
            "quick_cmd": "bin/check %s --tier quick" % pid,
            "thorough_cmd": "bin/check %s --tier thorough" % pid,
            "evidence_file": "/verif/evidence/%s.json" % pid,
            "replay_cmd_template": "bin/check %s --replay {path}" % pid,
            "engine": "tlc+vdriver",
            "level_claimed": {"category": c["level"], "text": c["text"], "design_ref": c["ref"]},
            "level_note": c["note"],
            "technique": c["technique"],
        })
    hooks = []
    try:
        out = subprocess.run(["git", "-C", "/repo", "log", "--format=%H %s"], stdout=subprocess.PIPE).stdout.decode()
        hooks = [l.split()[0] for l in out.splitlines() if " verif-hook:" in l or l.split(" ", 1)[1].startswith("verif-hook")]
    except Exception:
        pass
    m = {
        "version": 1,
        "setup_cmd": "bin/setup",
        "hooks": {"guard": "verif", "enable": "go build -tags verif (the harness in /verif/harness is built with -tags verif against /repo via a replace directive)",
                  "baseline_off_cmd": "cd /repo && go test -vet=off -count=1 ./...",
                  "source_commits": hooks, "add_only": True},
        "engines": [{"name": "tlc+vdriver", "path": "/verif/bin/check",
                     "serves_properties": [c["property_id"] for c in checks],
                     "kind_free_text": "python runner: TLC model checking of specs/*.tla, TLC case generation, Go harness (harness/cmd/vdriver) executing the real code, TLC trace validation of recorded observations"}],
        "checks": checks,
        "not_applicable": na,
        "notes": "See DESIGN.md. Exit 2 of a check means inconclusive (machinery failure), never a violation.",
    }
    json.dump(m, open(os.path.join(V, "MANIFEST.json"), "w"), indent=1)
    print("wrote MANIFEST.json: %d checks, %d not_applicable" % (len(checks), len(na)))

main()
