#!/usr/bin/env python3
"""Regenerates /verif/MANIFEST.json from the table below (single source of truth)."""
import json, os, subprocess
V = os.path.dirname(os.path.dirname(os.path.abspath(__file__)))

CHECKS = {
 "C02": dict(
   level="model_checking", ref="DESIGN.md section 5 (C02), section 3 (Wire.tla, Reader.tla)",
   technique="TLA+ spec (Wire.tla/Reader.tla) model-checked by TLC; TLC-generated cases replayed on the real codec; recorded observations validated by the trace spec C02Trace.tla",
   text="TLC exhaustively checks the stream-writer machine and both reader models over a bounded universe of wire values (all 11 types, boundary scalars, nested containers); the same universe is replayed on the real Protocol.Encode/StreamWriter/Decode/StreamReader together with seeded random deep values and binaries around the 1 MiB threshold, and every recorded result is judged by TLC against the specification's Enc/WriterCalls operators.",
   note="Trusted: TLC, the Json module, the harness projection (bit splitting, sha256 for binaries > 4 KiB). Bounded-exhaustive for small shapes, sampled beyond."),
}

CHECKS["C03"] = dict(
   level="model_checking", ref="DESIGN.md section 5 (C03), section 3 (Reader.tla)",
   technique="TLA+ model of both decoders and Skip (Reader.tla) model-checked by TLC over all short byte strings and grammar-aware mutants; the model's reachable inputs replayed on the real decoders; observations validated by C03Trace.tla (property predicates + exact model conformance)",
   text="TLC checks Canonical, SkipAgrees, ReadersAgree and the cost bound on every byte string over a 12-17 symbol alphabet up to length 3-4 (7 for a reduced alphabet) and on every 1-byte substitution/truncation of the encodings of ~900 values, for 13 requested types and both reader kinds. The same inputs (TLC state dump) plus seeded mutants of random nested values are run through the real random-access reader (with forcing), the stream reader under four read segmentations, and Skip on seekable and pure-stream sources in crash-isolated child processes; TLC judges each observation.",
   note="Trusted: TLC, Json module, harness projection. Hang = child timeout. Beyond the bounded families the exploration is sampled.")
CHECKS["C12"] = dict(
   level="model_checking", ref="DESIGN.md section 5 (C12), section 3 (Envelope.tla)",
   technique="TLA+ model of the three framings and both request APIs with the peek segmentation as an environment action (MCEnvelope.tla, with a negative-control config); cases replayed on the real encoders/DecodeRequest/ReadRequest/responders; observations validated by C12Trace.tla",
   text="TLC checks RoundTrip, RejectWrongType, ApisAgree, BothOkEqual and peek completeness for all envelopes over names (incl. ':' and non-UTF8, empty), types incl. unknown, seqid boundaries, 3 framings, 2 expected types, damaged requests and all peek segmentations; a config modelling a single-Read peek must violate ApisAgree (negative control). The envelopes are encoded by the real encoders and sent through DecodeRequest and ReadRequest under five reader kinds (seekable, whole, 1-byte, zero-length reads, random splits) with real responders; TLC judges exact bytes, echo and agreement.",
   note="Trusted: TLC, Json module, harness projection. Legacy envelopes with empty names are outside the property.")

CHECKS["C13"] = dict(
   level="model_checking", ref="DESIGN.md section 5 (C13)",
   technique="TLA+ cost-annotated models (Reader.tla al/st, Envelope.tla, Frame.tla) model-checked by TLC over messages with inflated length fields (MCCost.tla, with negative control); the model's messages replayed on every real decoding API with measured allocation and source calls; judged by C13Trace.tla",
   text="TLC checks alloc <= 12 MiB + 64 N and linear step counts for the models of all decoding APIs on ~650k short messages (struct bodies bare, strict/legacy enveloped, framed, and bodies shaped like the plugin/api types) in which every 4-byte window is overwritten by 2^16..2^32-1; a config that pre-allocates the legacy name must violate the bound. The same messages are run through 25 real APIs (Decode+force, stream decode, Skip seek/stream, DecodeEnveloped, DecodeRequest, ReadRequest, ReadEnvelopeBegin, frame.Reader, generated Decode/FromWire of 8 plugin/api types) in child processes under an address-space limit; TotalAlloc delta and source-call counts are judged by TLC.",
   note="Trusted: TLC, Json module, runtime.MemStats. C=12 MiB covers the documented 10 MiB frame fast path and 1 MiB binary threshold. Wall time is never judged. Known finding C13-gen-stream-presize (generated streaming Decode).")

NOT_YET = {}

def main():
    props = [json.loads(l) for l in open(os.path.join(V, "properties.jsonl"))]
    checks, na = [], []
    for p in props:
        pid = p["id"]
        c = CHECKS.get(pid)
        if c is None:
            na.append({"property_id": pid, "reason": NOT_YET.get(pid, "check not built yet in this round; planned per DESIGN.md section 5")})
            continue
        checks.append({
            "property_id": pid,
            "quick_cmd": "bin/check %s --tier quick" % pid,
            "thorough_cmd": "bin/check %s --tier thorough" % pid,
            "evidence_file": "/verif/evidence/%s.json" % pid,
            "replay_cmd_template": "bin/check %s --replay {path}" % pid,
            "engine": "tlc+vdriver",
            "level_claimed": {"category": c["level"], "text": c["text"], "design_ref": c["ref"]},
            "level_note": c["note"],
            "technique": c["technique"],
        })
    hooks = []
    try:
        out = subprocess.run(["git", "-C", "/repo", "log", "--format=%H %s"], stdout=subprocess.PIPE).stdout.decode()
        hooks = [l.split()[0] for l in out.splitlines() if " verif-hook:" in l or l.split(" ", 1)[1].startswith("verif-hook")]
    except Exception:
        pass
    m = {
        "version": 1,
        "setup_cmd": "bin/setup",
        "hooks": {"guard": "verif", "enable": "go build -tags verif (the harness in /verif/harness is built with -tags verif against /repo via a replace directive)",
                  "baseline_off_cmd": "cd /repo && go test -vet=off -count=1 ./...",
                  "source_commits": hooks, "add_only": True},
        "engines": [{"name": "tlc+vdriver", "path": "/verif/bin/check",
                     "serves_properties": [c["property_id"] for c in checks],
                     "kind_free_text": "python runner: TLC model checking of specs/*.tla, TLC case generation, Go harness (harness/cmd/vdriver) executing the real code, TLC trace validation of recorded observations"}],
        "checks": checks,
        "not_applicable": na,
        "notes": "See DESIGN.md. Exit 2 of a check means inconclusive (machinery failure), never a violation.",
    }
    json.dump(m, open(os.path.join(V, "MANIFEST.json"), "w"), indent=1)
    print("wrote MANIFEST.json: %d checks, %d not_applicable" % (len(checks), len(na)))

main()
