#!/usr/bin/env python3
"""seed_eval.py <src_dir> <seed_id> <property> <demo_dir_name> [--checks C02,C03] [--tier quick]

Confirms a seeded change (patch compiles, existing tests pass, demo fails with it and
passes without it) in a scratch worktree, stores it under /verif/seeded/<seed_id>/ and
runs the given checks against /repo with the patch applied (undone straight afterwards)."""
import json, os, shutil, subprocess, sys, time

ENV = dict(os.environ, GOFLAGS="-mod=mod", GOPROXY="off", GOSUMDB="off", GOTOOLCHAIN="local")


def sh(cmd, cwd=None, timeout=1800):
    p = subprocess.run(cmd, cwd=cwd, shell=True, env=ENV, stdout=subprocess.PIPE, stderr=subprocess.STDOUT, timeout=timeout)
    return p.returncode, p.stdout.decode("utf-8", "replace")


def main():
    src, sid, prop, demo = sys.argv[1:5]
    checks = [prop]
    tier = "quick"
    runflag = ""
    for a in sys.argv[5:]:
        if a.startswith("--checks="):
            checks = a.split("=", 1)[1].split(",")
        if a.startswith("--tier="):
            tier = a.split("=", 1)[1]
        if a.startswith("--run="):
            runflag = "-run '%s' " % a.split("=", 1)[1]
    script = ""
    for a in sys.argv[5:]:
        if a.startswith("--script="):
            script = a.split("=", 1)[1]
    patch = os.path.join(src, "patch.diff")
    if script:
        return main_script(src, sid, prop, demo, checks, tier, script, patch)
    wt = "/tmp/wt_eval_%s" % sid
    sh("git -C /repo worktree remove --force %s" % wt)
    rc, out = sh("git -C /repo worktree add -q --detach %s HEAD" % wt)
    assert rc == 0, out
    meta = {"seed": sid, "property": prop, "ran": []}
    try:
        rc, out = sh("git apply %s" % patch, cwd=wt)
        assert rc == 0, "patch does not apply: " + out
        rc, out = sh("go build ./... && go test -vet=off -count=1 ./... 2>&1 | grep -v '^ok\\|no test files' ; true", cwd=wt)
        meta["existing_tests_with_patch"] = "pass" if out.strip() == "" else out[-1500:]
        meta["ran"].append("go build ./... && go test -vet=off -count=1 ./...  (with patch): " + meta["existing_tests_with_patch"][:200])
        demo_src = os.path.join(os.path.dirname(src.rstrip("/")), "..", demo)
        demo_src = os.path.normpath(demo_src)
        if os.path.isdir(os.path.join(src, demo)):
            demo_src = os.path.join(src, demo)
        shutil.copytree(demo_src, os.path.join(wt, demo), dirs_exist_ok=True)
        rc1, out1 = sh("go test -vet=off -count=1 %s./%s/... 2>&1 | tail -15" % (runflag, demo), cwd=wt, timeout=900)
        rc, _ = sh("go test -vet=off -count=1 %s./%s/... >/dev/null 2>&1" % (runflag, demo), cwd=wt, timeout=900)
        meta["demo_with_patch"] = "FAIL" if rc != 0 else "pass"
        sh("git apply -R %s" % patch, cwd=wt)
        rc, _ = sh("go test -vet=off -count=1 %s./%s/... >/dev/null 2>&1" % (runflag, demo), cwd=wt, timeout=900)
        meta["demo_without_patch"] = "pass" if rc == 0 else "FAIL"
        meta["ran"].append("go test ./%s/... with patch: %s; without patch: %s" % (demo, meta["demo_with_patch"], meta["demo_without_patch"]))
    finally:
        sh("git -C /repo worktree remove --force %s" % wt)
    finish(src, sid, demo_src, patch, meta, checks, tier)


def main_script(src, sid, prop, demo, checks, tier, script, patch):
    """the demonstration is a script that refers to the sub-agent's own scratch worktree (src): confirm there"""
    meta = {"seed": sid, "property": prop, "ran": []}
    rc, out = sh("git stash list | wc -l; git diff --stat | tail -1", cwd=src)
    rc, out = sh("go build ./... && go test -vet=off -count=1 $(go list ./... | grep -v '/demo') 2>&1 | grep -v '^ok\\|no test files' ; true", cwd=src)
    meta["existing_tests_with_patch"] = "pass" if out.strip() == "" else out[-1500:]
    meta["ran"].append("go build ./... && go test -vet=off -count=1 ./...  (with patch, in the scratch worktree): " + meta["existing_tests_with_patch"][:200])
    rc1, out1 = sh("bash %s" % os.path.basename(script), cwd=os.path.join(src, os.path.dirname(script)), timeout=1800)
    meta["demo_with_patch"] = "FAIL" if rc1 != 0 else "pass"
    rc, out = sh("git stash", cwd=src)
    assert "Saved working directory" in out, out
    try:
        rc2, out2 = sh("bash %s" % os.path.basename(script), cwd=os.path.join(src, os.path.dirname(script)), timeout=1800)
    finally:
        sh("git stash pop", cwd=src)
    meta["demo_without_patch"] = "pass" if rc2 == 0 else "FAIL"
    meta["ran"].append("bash %s with patch: %s (exit %d); without patch: %s (exit %d)" % (script, meta["demo_with_patch"], rc1, meta["demo_without_patch"], rc2))
    meta["demo_output_with_patch"] = out1[-1200:]
    finish(src, sid, os.path.join(src, demo), patch, meta, checks, tier)


def finish(src, sid, demo_src, patch, meta, checks, tier):
    dst = "/verif/seeded/%s" % sid
    os.makedirs(dst, exist_ok=True)
    shutil.copy(patch, os.path.join(dst, "patch.diff"))
    shutil.copytree(demo_src, os.path.join(dst, "demo"), dirs_exist_ok=True, ignore=shutil.ignore_patterns("gen", "labmod", "thriftrw", "thriftbreak", "*.bin", "scratch*", "work*", "tmp*"))
    for nm in ("notes.txt", "NOTES.md"):
        notes = os.path.join(src, nm)
        if os.path.exists(notes):
            shutil.copy(notes, os.path.join(dst, nm))
            meta["needs"] = open(notes).read()[:1500]
    confirmed = (meta["existing_tests_with_patch"] == "pass" and meta["demo_with_patch"] == "FAIL" and meta["demo_without_patch"] == "pass")
    meta["confirmed"] = confirmed
    # run the checks against /repo with the patch applied
    rc, out = sh("git -C /repo status --porcelain")
    assert out.strip() == "", "/repo not clean: " + out
    rc, out = sh("git -C /repo apply %s" % os.path.join(dst, "patch.diff"))
    assert rc == 0, out
    det = {}
    try:
        for c in checks:
            t0 = time.time()
            rc, out = sh("/verif/bin/check %s --tier %s" % (c, tier), cwd="/verif", timeout=3600)
            viol = [l for l in out.splitlines() if l.startswith("VIOLATION")]
            det[c] = {"exit": rc, "violations": len(viol), "wall_s": round(time.time() - t0, 1),
                      "first": (out.splitlines()[[i for i, l in enumerate(out.splitlines()) if l.startswith("VIOLATION")][0] + 1][:300] if viol else "")}
            meta["ran"].append("bin/check %s --tier %s with patch applied to /repo: exit %d, %d VIOLATION lines" % (c, tier, rc, len(viol)))
    finally:
        sh("git -C /repo checkout -- .")
    meta["detection"] = det
    meta["detected"] = any(d["exit"] == 1 for d in det.values())
    json.dump(meta, open(os.path.join(dst, "meta.json"), "w"), indent=1)
    print(json.dumps({k: meta[k] for k in ("seed", "confirmed", "detected", "detection")}, indent=1))


main()
